package c19

import (
	"bytes"
	"context"
	"crypto/sha256"
	"fmt"
	"sort"
	"testing"
	"time"

	"pgregory.net/rapid"

	"verif/internal/harness"
	"verif/internal/keys"
	"verif/internal/mtree"
	"verif/internal/rfc6962"
)

// KeyRef names one key of the committed pool.
type KeyRef struct {
	Kind string
	Idx  int
}

func (k KeyRef) key() *keys.Key { return keys.Pick(k.Kind, k.Idx) }

// Disjoint slices of the pool: log keys, the foreign (unconfigured) key, the witness key.
var (
	logPool     = []KeyRef{{"p256", 0}, {"p256", 1}, {"p256", 2}, {"p256", 3}, {"p256", 4}, {"p256", 5}, {"p256", 6}, {"p256", 7}, {"p256", 8}, {"p256", 9}, {"rsa2048", 0}, {"rsa2048", 1}, {"rsa3072", 0}}
	foreignPool = []KeyRef{{"p256", 10}, {"p256", 11}, {"rsa2048", 3}}
	witnessPool = []KeyRef{{"p256", 12}, {"p256", 13}, {"p256", 14}, {"p256", 15}, {"rsa2048", 4}}
)

const (
	opUpdate = iota
	opGetSTH
	opGetLogs
	opRestart
)

const (
	reqKnown = iota
	reqUnknown
	reqNotB64
)

const (
	ctxLive      = iota
	ctxCancelled // cancelled before the call (client hung up)
	ctxExpired   // deadline already in the past
)

const (
	sizeGrow = iota
	sizeSame
	sizeShrink
	sizeAbs
	sizeReplayOld // resend, byte for byte, an STH that was accepted earlier for this log
	sizeCrossLog  // resend, byte for byte, an STH that was accepted earlier for ANOTHER configured log
	nSizeModes
)

const (
	pfCorrect = iota
	pfOtherSizes
	pfOtherFork
	pfTruncated
	pfPadded
	pfRandom
	pfEmpty
	pfBitFlip
	pfBadNodeLen
	nProofKinds
)

var proofNames = []string{"correct", "other-sizes", "other-fork", "truncated", "padded", "random", "empty", "bitflip", "bad-node-length"}

// Op is one scripted call. Every parameter is relative and resolved against the oracle's own model.
type Op struct {
	Kind  int
	Log   int // index into the configured logs (mod)
	ReqID int // how the request names the log
	// candidate STH (updates only)
	Tree     int // 0: the tree of the held STH (honest when nothing is held); k > 0: tree (k-1) mod family size
	SizeMode int
	D        int // growth / shrink distance
	Abs      int // absolute size (mod tree length + 1)
	TS       uint64
	Sign     int
	IDField  int
	// proof
	Proof  int
	PA, PB int
	// perturbations of an update: the caller's context and a storage fault during the call
	Ctx      int // ctxLive / ctxCancelled / ctxExpired
	Fault    int // faultNone / faultCommit / faultExec / faultQuery / faultBegin / faultRows (first such call of the update)
	FaultPos int // faultRows: the Next call that fails (0 = before the first row, 1 = after it)
	// cosignature tamper selection and assorted salt
	Tamper int
	Salt   int
}

// SeqCase is one witness (fresh sqlite file) + one script.
type SeqCase struct {
	Fam      Family
	Logs     []KeyRef
	Witness  KeyRef
	Foreign  KeyRef
	MaxConns int // 1 as deployed (impl.Main), 0 = database/sql default (unlimited)
	HTTP     bool
	Ops      []Op
}

const ruleSeq = "scripts of Update/GetSTH/GetLogs over 1-3 logs and a family of honest + forked trees; non-trivial = at least 2 accepted updates and at least 1 refusal"

func genFamily(t *rapid.T) Family {
	maxLen := 40
	if harness.Thorough() {
		maxLen = 130
	}
	f := Family{HonestLen: rapid.IntRange(3, maxLen).Draw(t, "honestLen")}
	nf := rapid.IntRange(1, 3).Draw(t, "forks")
	for i := 0; i < nf; i++ {
		p := rapid.IntRange(0, f.HonestLen-1).Draw(t, "prefix")
		if rapid.IntRange(0, 9).Draw(t, "earlyFork") < 6 {
			p = p % 10 // fork early, so that small tree heads already differ
		}
		l := p + rapid.IntRange(1, 24).Draw(t, "forkTail")
		f.Forks = append(f.Forks, Fork{Prefix: p, Len: l})
	}
	return f
}

func genKeys(t *rapid.T, nlogs int) (logs []KeyRef, w, f KeyRef) {
	perm := rapid.Permutation(logPool).Draw(t, "logKeys")
	// keep RSA log keys a minority: signing with them under -race is slow
	for _, k := range perm {
		if len(logs) < nlogs {
			logs = append(logs, k)
		}
	}
	w = witnessPool[rapid.IntRange(0, len(witnessPool)-1).Draw(t, "witnessKey")]
	f = foreignPool[rapid.IntRange(0, len(foreignPool)-1).Draw(t, "foreignKey")]
	return
}

func genTS(t *rapid.T) uint64 {
	switch rapid.IntRange(0, 5).Draw(t, "tsKind") {
	case 0:
		return 0
	case 1:
		return ^uint64(0) - uint64(rapid.IntRange(0, 3).Draw(t, "tsTop"))
	case 2:
		return rapid.Uint64().Draw(t, "tsAny")
	default:
		return uint64(rapid.IntRange(1, 1_000_000).Draw(t, "tsSmall")) + 1_600_000_000_000
	}
}

// biased draws v in [0,n) with value 0 (the "good" choice) having probability good/10.
func biased(t *rapid.T, n, good int, label string) int {
	if rapid.IntRange(0, 9).Draw(t, label+"?") < good {
		return 0
	}
	return rapid.IntRange(0, n-1).Draw(t, label)
}

func genUpdate(t *rapid.T, o *Op) {
	o.Kind = opUpdate
	o.ReqID = biased(t, 3, 9, "reqID")
	o.Tree = biased(t, 5, 6, "tree")
	o.SizeMode = biased(t, nSizeModes, 6, "sizeMode")
	o.D = rapid.IntRange(1, 9).Draw(t, "d")
	o.Abs = rapid.IntRange(0, 200).Draw(t, "abs")
	if rapid.IntRange(0, 4).Draw(t, "absZero") == 0 {
		o.Abs = 0 // the empty tree: every tree extends it, with an empty proof only
	}
	o.TS = genTS(t)
	o.Sign = biased(t, nSignModes, 8, "sign")
	o.IDField = rapid.IntRange(0, 2).Draw(t, "idOK")
	if rapid.IntRange(0, 9).Draw(t, "idBad?") == 0 {
		o.IDField = rapid.IntRange(idWrong, idOther).Draw(t, "idBad")
	}
	o.Proof = biased(t, nProofKinds, 6, "proof")
	o.PA = rapid.IntRange(0, 40).Draw(t, "pa")
	o.PB = rapid.IntRange(0, 300).Draw(t, "pb")
	// perturbations hit otherwise good and otherwise bad updates alike
	if rapid.IntRange(0, 11).Draw(t, "deadCtx?") == 0 {
		o.Ctx = rapid.IntRange(ctxCancelled, ctxExpired).Draw(t, "deadCtx")
	} else if rapid.IntRange(0, 9).Draw(t, "fault?") == 0 {
		o.Fault = rapid.IntRange(faultCommit, nFaults-1).Draw(t, "fault")
		if rapid.IntRange(0, 2).Draw(t, "readFault?") == 0 {
			o.Fault = faultRows // a transient read fault is the one that leaves the write path intact
		}
		o.FaultPos = rapid.IntRange(0, 3).Draw(t, "faultPos") / 3
	}
	if rapid.IntRange(0, 9).Draw(t, "crossLogPreset") == 0 {
		// the very bytes another log's update was accepted with, now addressed to this log (before or
		// after it holds something); any proof kind
		o.ReqID, o.SizeMode = reqKnown, sizeCrossLog
		o.Proof = rapid.IntRange(0, nProofKinds-1).Draw(t, "crossProof")
		return
	}
	if rapid.IntRange(0, 11).Draw(t, "conflictPreset") == 0 {
		// same size as held, but a tree chosen freely: equal size + other root when past the fork point
		o.ReqID, o.Sign, o.SizeMode = reqKnown, signRight, sizeSame
		o.Tree = rapid.IntRange(1, 4).Draw(t, "conflictTree")
		if o.IDField > idZero {
			o.IDField = idAbsent
		}
	}
}

func genSeq(t *rapid.T) SeqCase {
	c := SeqCase{Fam: genFamily(t)}
	nlogs := rapid.IntRange(1, 3).Draw(t, "nlogs")
	c.Logs, c.Witness, c.Foreign = genKeys(t, nlogs)
	c.MaxConns = 1
	if rapid.IntRange(0, 4).Draw(t, "conns") == 0 {
		c.MaxConns = 0
	}
	c.HTTP = rapid.IntRange(0, 3).Draw(t, "http") == 0
	maxOps := 24
	if harness.Thorough() {
		maxOps = 40
	}
	n := rapid.IntRange(3, maxOps).Draw(t, "nops")
	for i := 0; i < n; i++ {
		o := Op{Log: rapid.IntRange(0, nlogs-1).Draw(t, "log"), Tamper: rapid.IntRange(0, nTamper-1).Draw(t, "tamper"), Salt: rapid.IntRange(0, 1<<20).Draw(t, "salt")}
		switch k := rapid.IntRange(0, 19).Draw(t, "kind"); {
		case k < 16:
			genUpdate(t, &o)
		case k < 19:
			o.Kind = opGetSTH
			o.ReqID = biased(t, 3, 6, "reqID")
		default:
			o.Kind = opGetLogs
			if rapid.Bool().Draw(t, "restart") {
				o.Kind = opRestart
			}
		}
		c.Ops = append(c.Ops, o)
	}
	return c
}

// ---------------------------------------------------------------------------------------------------
// resolution of relative parameters

func requestID(logs []logID, o Op) string {
	switch o.ReqID {
	case reqUnknown:
		h := sha256.Sum256([]byte(fmt.Sprintf("c19/unknown-log/%d", o.Salt)))
		return b64(h[:])
	case reqNotB64:
		junk := []string{"not*base64!", "a/b c", "%zz", "AAAA", "=", "log id", logs[o.Log%len(logs)].id + "=", "é", logs[o.Log%len(logs)].id[:43]}
		return junk[o.Salt%len(junk)]
	}
	return logs[o.Log%len(logs)].id
}

func candSize(o Op, held *cand, treeLen int) uint64 {
	base := 0
	if held != nil {
		base = int(held.size)
	}
	n := 0
	switch o.SizeMode {
	case sizeGrow:
		n = base + o.D
	case sizeSame:
		n = base
		if held == nil {
			n = o.D
		}
	case sizeShrink:
		n = base - o.D
		if held == nil {
			n = o.D
		}
	default:
		n = o.Abs % (treeLen + 1)
	}
	if n < 0 {
		n = 0
	}
	if n > treeLen {
		n = treeLen
	}
	return uint64(n)
}

// crossSource picks an STH accepted earlier for a log other than li, preferring one that carries no
// log_id (those bytes are not bound to a log by anything but the signature).
func crossSource(hist [][]*cand, li int, o Op) *cand {
	var free, bound []*cand
	for i := range hist {
		k := (li + 1 + i) % len(hist)
		if k == li {
			continue
		}
		for _, c := range hist[k] {
			if c.idMode == idAbsent || c.idMode == idZero {
				free = append(free, c)
			} else {
				bound = append(bound, c)
			}
		}
	}
	if len(free) > 0 && (len(bound) == 0 || o.Salt%5 != 0) {
		return free[o.Abs%len(free)]
	}
	if len(bound) > 0 {
		return bound[o.Abs%len(bound)]
	}
	return nil
}

func pseudoNode(a, b int) []byte {
	h := sha256.Sum256([]byte(fmt.Sprintf("c19/random-node/%d/%d", a, b)))
	return h[:]
}

func safeProof(t *mtree.Tree, m, n int) [][]byte {
	if m <= 0 || m > n || n > t.Size() {
		return nil
	}
	return mtree.Bytes(t.Proof(m, n))
}

// buildProof makes the proof of the requested kind for "held size h -> n on tree ti".
func buildProof(fam *family, kind, pa, pb int, h int, ti int, n int) [][]byte {
	t := fam.trees[ti]
	correct := safeProof(t, h, n)
	switch kind {
	case pfCorrect:
		return correct
	case pfOtherSizes:
		dh, dn := pa%5-2, pb%5-2
		if dh == 0 && dn == 0 {
			dh = 1
		}
		return safeProof(t, h+dh, n+dn)
	case pfOtherFork:
		o := fam.trees[(ti+1+pa%(len(fam.trees)-1))%len(fam.trees)]
		n2 := n
		if n2 > o.Size() {
			n2 = o.Size()
		}
		return safeProof(o, h, n2)
	case pfTruncated:
		if len(correct) == 0 {
			return nil
		}
		i := pa % len(correct)
		return append(append([][]byte{}, correct[:i]...), correct[i+1:]...)
	case pfPadded:
		i := pa % (len(correct) + 1)
		extra := pseudoNode(pa, pb)
		if pb%3 == 0 && len(correct) > 0 {
			extra = append([]byte(nil), correct[pa%len(correct)]...)
		}
		out := append([][]byte{}, correct[:i]...)
		out = append(out, extra)
		return append(out, correct[i:]...)
	case pfRandom:
		var out [][]byte
		for i := 0; i <= pa%6; i++ {
			out = append(out, pseudoNode(i, pb))
		}
		return out
	case pfEmpty:
		return nil
	case pfBitFlip:
		if len(correct) == 0 {
			return nil
		}
		out := mtreeCopy(correct)
		out[pa%len(out)][pb%32] ^= 1 << (uint(pb) % 8)
		return out
	default: // pfBadNodeLen
		if len(correct) == 0 {
			return [][]byte{{}}
		}
		out := mtreeCopy(correct)
		i := pa % len(out)
		if pb%2 == 0 {
			out[i] = out[i][:31]
		} else {
			out[i] = append(out[i], byte(pb))
		}
		return out
	}
}

func mtreeCopy(p [][]byte) [][]byte {
	out := make([][]byte, len(p))
	for i := range p {
		out[i] = append([]byte(nil), p[i]...)
	}
	return out
}

// ---------------------------------------------------------------------------------------------------
// the check

const (
	expAccept       = "accept"
	expTOFU         = "accept-first-use"
	expReplay       = "replay-of-held"
	expUnknownLog   = "refuse-unknown-log"
	expIDMismatch   = "refuse-log-id-mismatch"
	expBadSig       = "refuse-bad-signature"
	expStale        = "refuse-smaller"
	expConflict     = "refuse-equal-size-other-root"
	expInconsistent = "refuse-bad-proof"
)

// observed tracks, per log, what GetSTH showed after every step (ground-truth invariants only).
type observed struct {
	have bool
	size uint64
	root []byte
}

func verifyLogSig(l logID, p *parsedSTH) bool {
	d, rest, err := rfc6962.DecodeDS(p.ds)
	if err != nil || len(rest) != 0 || d.Hash != 4 || len(p.root) != 32 {
		return false
	}
	var r [32]byte
	copy(r[:], p.root)
	in, err := rfc6962.STHSignatureInput(0, p.timestamp, p.size, r)
	if err != nil {
		return false
	}
	return verifySHA256(l.key.Pub, d.Sig, in, d.Signature)
}

func checkSeq(t *testing.T, c SeqCase) harness.Verdict {
	var v harness.Verdict
	fam := buildFamily(c.Fam)
	var logs []logID
	for _, k := range c.Logs {
		logs = append(logs, newLogID(k.key()))
	}
	faults := false
	for _, o := range c.Ops {
		faults = faults || (o.Kind == opUpdate && o.Fault != faultNone)
	}
	s, err := newSUT(logs, c.Witness.key(), c.MaxConns, c.HTTP, faults)
	if err != nil {
		v.Failf("setup", "cannot build the witness: %v", err)
		return v
	}
	defer s.close()

	classes := map[string]bool{}
	class := func(x string) { classes[x] = true }
	if c.HTTP {
		class("transport:http")
	} else {
		class("transport:direct")
	}
	class(fmt.Sprintf("logs:%d", len(logs)))
	class(fmt.Sprintf("conns:%d", c.MaxConns))
	class("witness-key:" + c.Witness.Kind)

	held := make([]*cand, len(logs))
	hist := make([][]*cand, len(logs)) // every candidate the model accepted, per log
	obs := make([]observed, len(logs))
	accepted, refused := 0, 0

	// sweep compares GetSTH of every configured log with the model and applies the ground-truth
	// invariants to what is observed. why is the sig used when the model is contradicted.
	// full names the log whose answer gets the complete (cryptographic) judgement; -1 = all of them.
	sweep := func(step int, why string, o Op, full int) {
		for i, l := range logs {
			r := s.getSTH(l.id)
			if held[i] == nil {
				if r.ok {
					v.Failf(why, "step %d: GetSTH(log %d) = %q although the model holds nothing", step, i, r.body)
				}
				continue
			}
			if !r.ok {
				v.Failf(why, "step %d: GetSTH(log %d) failed (%s) although the model holds size %d", step, i, r.note, held[i].size)
				continue
			}
			p, err := parseWire(r.body)
			if i != full && full >= 0 {
				// a log the step did not address: compare the tree head only (no cryptography)
				if err != nil {
					v.Failf("cosigned-unparsable", "step %d: GetSTH(log %d): %v", step, i, err)
				} else if d := p.matches(held[i], l); d != "" || !p.cosigned || len(p.wsigs) == 0 {
					v.Failf(why, "step %d: GetSTH(log %d, not addressed by this step): %s (model: tree %d size %d)", step, i, d, held[i].tree, held[i].size)
				}
				continue
			}
			if sig, msg := s.checkCosigned(r.body, held[i], l, o.Tamper+i, o.Salt); sig != "" {
				if sig == "cosigned-wrong-sth" {
					sig = why
				}
				v.Failf(sig, "step %d: GetSTH(log %d): %s (model: tree %d size %d)", step, i, msg, held[i].tree, held[i].size)
			}
			if err != nil {
				continue
			}
			if !verifyLogSig(l, p) {
				v.Failf("holds-sth-without-valid-log-signature", "step %d: log %d holds %q whose log signature does not verify (stdlib)", step, i, r.body)
			}
			if !fam.onFamily(p.size, p.root) {
				v.Failf("holds-unknown-tree-head", "step %d: log %d holds (size %d, root %x) which no tree of the family has", step, i, p.size, p.root)
			}
			if obs[i].have {
				if p.size < obs[i].size {
					v.Failf("held-size-decreased", "step %d: log %d went from size %d to %d", step, i, obs[i].size, p.size)
				} else if !fam.extends(obs[i].size, obs[i].root, p.size, p.root) {
					v.Failf("held-not-extension", "step %d: log %d went from (size %d, %x) to (size %d, %x): not one tree", step, i, obs[i].size, obs[i].root, p.size, p.root)
				}
			}
			obs[i] = observed{true, p.size, p.root}
		}
	}

	for step, o := range c.Ops {
		if len(v.Violations) > 0 {
			break
		}
		li := o.Log % len(logs)
		id := requestID(logs, o)
		switch o.Kind {
		case opRestart:
			if err := s.restart(); err != nil {
				v.Failf("restart-failed", "step %d: reopening the database file: %v", step, err)
				break
			}
			class("op:restart")
			sweep(step, "restart-changed-state", o, -1)
		case opGetLogs:
			got, r := s.getLogs()
			if !r.ok {
				v.Failf("getlogs-failed", "step %d: GetLogs failed: %s", step, r.note)
				break
			}
			var want []string
			for i, l := range logs {
				if held[i] != nil {
					want = append(want, l.id)
				}
			}
			sort.Strings(got)
			sort.Strings(want)
			if fmt.Sprint(got) != fmt.Sprint(want) {
				v.Failf("getlogs-mismatch", "step %d: GetLogs = %v, logs with a stored STH = %v", step, got, want)
			}
			class("op:getlogs")
		case opGetSTH:
			r := s.getSTH(id)
			switch {
			case o.ReqID != reqKnown:
				class("op:getsth-unknown-log")
				if r.ok {
					v.Failf("sth-for-unknown-log", "step %d: GetSTH(%q) succeeded: %q", step, id, r.body)
				}
			case held[li] == nil:
				class("op:getsth-nothing-held")
				if r.ok {
					v.Failf("sth-from-nothing", "step %d: GetSTH(log %d) = %q although nothing was ever accepted", step, li, r.body)
				}
			default:
				class("op:getsth")
				if !r.ok {
					v.Failf("getsth-failed", "step %d: GetSTH(log %d) failed: %s", step, li, r.note)
				} else if sig, msg := s.checkCosigned(r.body, held[li], logs[li], o.Tamper, o.Salt); sig != "" {
					v.Failf(sig, "step %d: GetSTH(log %d): %s", step, li, msg)
				}
			}
		case opUpdate:
			h := held[li]
			ti := 0
			if o.Tree > 0 {
				ti = (o.Tree - 1) % len(fam.trees)
			} else if h != nil {
				ti = h.tree
			}
			n := candSize(o, h, fam.trees[ti].Size())
			var cd *cand
			if o.SizeMode == sizeReplayOld && len(hist[li]) > 0 {
				cd = hist[li][o.Abs%len(hist[li])]
				ti, n = cd.tree, cd.size
				class("update:byte-identical-resend")
			} else if src := crossSource(hist, li, o); o.SizeMode == sizeCrossLog && src != nil {
				// same raw bytes, judged for the log they are now sent to: the signature is another
				// log's (distinct keys by construction); an embedded log_id names the other log
				cp := *src
				cp.sigValid = false
				cp.idOK = src.idMode == idAbsent || src.idMode == idZero
				cd = &cp
				ti, n = cd.tree, cd.size
				if cp.idOK {
					class("update:cross-log-resend-without-log-id")
					if h == nil {
						class("update:cross-log-resend-without-log-id,nothing-held")
					} else {
						class("update:cross-log-resend-without-log-id,something-held")
					}
				} else {
					class("update:cross-log-resend-with-log-id")
				}
			} else {
				cd = makeCand(fam, logs, c.Foreign.key(), li, ti, n, o.TS, o.Sign, o.IDField, o.Salt)
			}
			hs := 0
			if h != nil {
				hs = int(h.size)
			}
			proof := buildProof(fam, o.Proof, o.PA, o.PB, hs, ti, int(n))
			var exp string
			switch {
			case o.ReqID != reqKnown:
				exp = expUnknownLog
			case !cd.idOK:
				exp = expIDMismatch
			case !cd.sigValid:
				exp = expBadSig
			case h == nil:
				exp = expTOFU
			case n < h.size:
				exp = expStale
			case n == h.size && cd.root == h.root:
				exp = expReplay
			case n == h.size:
				exp = expConflict
			case mtree.VerifyConsistency(h.size, n, h.root[:], cd.root[:], proof) == nil:
				exp = expAccept
			default:
				exp = expInconsistent
			}
			class("update:" + exp)
			if exp == expAccept && h.size == 0 {
				class("update:accept-from-empty-tree")
			}
			if exp == expInconsistent && h.size == 0 {
				class("update:refuse-bad-proof-from-empty-tree")
			}
			if h != nil && o.ReqID == reqKnown && cd.idOK && cd.sigValid && n > h.size {
				name := proofNames[o.Proof]
				if o.Proof != pfCorrect && fmt.Sprint(proof) == fmt.Sprint(buildProof(fam, pfCorrect, 0, 0, hs, ti, int(n))) {
					name += "(degenerates to the correct proof)"
				}
				class("proof:" + name + "->" + exp)
			}
			if cd.idOK && cd.sigValid && o.ReqID == reqKnown {
				class("log-id-field:" + []string{"absent", "right", "all-zero", "wrong", "other-log"}[cd.idMode])
			}
			// perturbations: a dead caller context, a storage fault. Whatever the witness answers then,
			// the held STH changes only if the model accepts the update, and a success answer is what
			// GetSTH serves afterwards. perturbed = the update may legitimately fail for that reason.
			ctx, cancel := context.Background(), context.CancelFunc(func() {})
			switch o.Ctx {
			case ctxCancelled:
				ctx, cancel = context.WithCancel(ctx)
				cancel()
				class("ctx:cancelled")
			case ctxExpired:
				ctx, cancel = context.WithDeadline(ctx, time.Unix(1, 0))
				class("ctx:expired")
			}
			armed := o.Fault != faultNone && s.plan != nil
			if armed {
				s.plan.arm(o.Fault, o.FaultPos)
			}
			r := s.updateCtx(ctx, id, cd.raw, proof)
			cancel()
			perturbed := o.Ctx != ctxLive
			if armed && s.plan.disarm() {
				perturbed = true
				class("fault:" + faultNames[o.Fault] + "(fired)")
			}
			if perturbed {
				switch {
				case r.ok:
					class("perturbed:success")
				case exp == expTOFU || exp == expAccept || exp == expReplay:
					class("perturbed:good-update-failed")
				default:
					class("perturbed:bad-update-refused")
				}
			}
			why := "refused-update-changed-state"
			switch exp {
			case expTOFU, expAccept:
				why = "accepted-update-not-stored"
				if !r.ok && perturbed {
					refused++
					why = "failed-update-changed-state"
					break
				}
				if !r.ok {
					v.Failf("valid-update-refused", "step %d: %s: update of log %d to tree %d size %d (held %d, proof %s, %d nodes) refused: %s", step, exp, li, ti, n, hs, proofNames[o.Proof], len(proof), r.note)
					break
				}
				accepted++
				held[li] = cd
				hist[li] = append(hist[li], cd)
				if sig, msg := s.checkCosigned(r.body, cd, logs[li], o.Tamper, o.Salt); sig != "" {
					v.Failf("update-"+sig, "step %d: accepted update of log %d: %s", step, li, msg)
				}
			case expReplay:
				why = "replay-changed-state"
				if !r.ok && perturbed {
					break
				}
				if !r.ok {
					v.Failf("replay-of-held-refused", "step %d: update of log %d with the held tree head (size %d, same root) answered with an error: %s", step, li, n, r.note)
					break
				}
				if !bytes.Equal(r.body, h.raw) {
					// a cosigned rendering of the held STH is equally "the held STH unchanged"
					if sig, msg := s.checkCosigned(r.body, h, logs[li], o.Tamper, o.Salt); sig != "" {
						v.Failf("replay-answer-not-held", "step %d: replay of size %d on log %d answered %q, held raw STH is %q (%s: %s)", step, n, li, r.body, h.raw, sig, msg)
					}
				}
			default:
				refused++
				if r.ok {
					v.Failf("accepted-"+exp[len("refuse-"):], "step %d: update of log %d (request id %q) to tree %d size %d (held %d, proof %s, sign mode %d, id field %d) succeeded: %q", step, li, id, ti, n, hs, proofNames[o.Proof], o.Sign, o.IDField, r.body)
					break
				}
				// Whatever the reason of the refusal: an answer in the "you are out of date" class (gRPC
				// FailedPrecondition / HTTP 409 - the class the witness uses for stale and inconsistent
				// submissions, whose body a feeder reads as the held STH) carries the held STH.
				if r.outdated && o.ReqID == reqKnown && h != nil && !bytes.Equal(r.body, h.raw) {
					v.Failf("conflict-answer-without-held-sth", "step %d: %s on log %d answered as a conflict (%s) with body %q, want the held raw STH %q", step, exp, li, r.note, r.body, h.raw)
				}
				if r.outdated {
					class("refusal-signalled-as-conflict:" + exp)
				}
				if (exp == expStale || exp == expConflict || exp == expInconsistent) && !perturbed {
					if !bytes.Equal(r.body, h.raw) {
						v.Failf("refusal-without-held-sth", "step %d: %s on log %d answered %q (%s), want the held raw STH %q", step, exp, li, r.body, r.note, h.raw)
					}
				}
			}
			if o.ReqID != reqKnown {
				sweep(step, why, o, -1)
			} else {
				sweep(step, why, o, li)
			}
		}
	}
	for k := range classes {
		v.Class(k)
	}
	v.NonTrivial = accepted >= 2 && refused >= 1
	return v
}

var Seq = harness.Define(harness.Opts{Name: "seq", Rule: ruleSeq, Quick: 400, Thorough: 3000, Crashy: true, MaxSample: 2500}, genSeq, checkSeq)
