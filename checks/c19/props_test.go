package c19

import (
	"testing"

	"verif/internal/harness"
)

func TestProps(t *testing.T) { harness.Main(t, "C19", Seq, Conc, Twin) }
