package c19

import (
	"bytes"
	"fmt"
	"sync"
	"testing"

	"pgregory.net/rapid"

	"verif/internal/harness"
)

// ConcUpdate is one Update of the concurrent burst. Sizes are indices into the case's palette so that
// the proofs of different workers chain (worker A: h0 -> s1, worker B: s1 -> s2).
type ConcUpdate struct {
	Tree   int // 0: the tree of the initial STH; k > 0: tree (k-1) mod family size
	Size   int // palette index
	From   int // 0: proof from the initial held size; k > 0: from palette[(k-1) mod (Size+1)]
	Proof  int
	PA, PB int
	Sign   int
	TS     uint64
}

// Worker issues its updates one after the other against one log, optionally reading in between.
type Worker struct {
	Log   int
	Ups   []ConcUpdate
	Reads bool // GetSTH after every update (monotonicity as seen by one client)
}

// ConcCase: initial state, then all workers start at once.
type ConcCase struct {
	Fam      Family
	Logs     []KeyRef
	Witness  KeyRef
	Foreign  KeyRef
	MaxConns int
	HTTP     bool
	InitHas  []bool // per log: is an initial STH accepted before the burst
	InitTree []int
	InitSize []int // mod tree length + 1
	Palette  []int // candidate sizes (mod tree length + 1 at run time)
	Workers  []Worker
	Tamper   int
	Salt     int
}

const ruleConc = "2-8 goroutines issue chained / competing / forked Updates at once (plus interleaved GetSTH) on 1-2 logs under -race; non-trivial = at least 2 successful updates and at least 1 refusal inside the burst"

func genConc(t *rapid.T) ConcCase {
	c := ConcCase{Fam: genFamily(t)}
	nlogs := rapid.IntRange(1, 2).Draw(t, "nlogs")
	c.Logs, c.Witness, c.Foreign = genKeys(t, nlogs)
	c.MaxConns = 1
	if rapid.IntRange(0, 3).Draw(t, "conns") == 0 {
		c.MaxConns = 0
	}
	c.HTTP = rapid.IntRange(0, 3).Draw(t, "http") == 0
	for i := 0; i < nlogs; i++ {
		c.InitHas = append(c.InitHas, rapid.IntRange(0, 4).Draw(t, "initHas") > 0)
		c.InitTree = append(c.InitTree, biased(t, len(c.Fam.Forks)+1, 6, "initTree"))
		c.InitSize = append(c.InitSize, rapid.IntRange(0, 12).Draw(t, "initSize"))
	}
	np := rapid.IntRange(2, 6).Draw(t, "palette")
	for i := 0; i < np; i++ {
		c.Palette = append(c.Palette, rapid.IntRange(0, 60).Draw(t, "size"))
	}
	nw := rapid.IntRange(2, 8).Draw(t, "workers")
	for i := 0; i < nw; i++ {
		w := Worker{Log: rapid.IntRange(0, nlogs-1).Draw(t, "log"), Reads: rapid.Bool().Draw(t, "reads")}
		nu := rapid.IntRange(1, 3).Draw(t, "nups")
		for j := 0; j < nu; j++ {
			u := ConcUpdate{
				Tree:  biased(t, 5, 7, "tree"),
				Size:  rapid.IntRange(0, np-1).Draw(t, "sizeIdx"),
				From:  biased(t, np+1, 5, "from"),
				Proof: biased(t, nProofKinds, 8, "proof"),
				PA:    rapid.IntRange(0, 40).Draw(t, "pa"),
				PB:    rapid.IntRange(0, 300).Draw(t, "pb"),
				Sign:  biased(t, nSignModes, 9, "sign"),
				TS:    genTS(t),
			}
			w.Ups = append(w.Ups, u)
		}
		c.Workers = append(c.Workers, w)
	}
	c.Tamper = rapid.IntRange(0, nTamper-1).Draw(t, "tamper")
	c.Salt = rapid.IntRange(0, 1<<20).Draw(t, "salt")
	return c
}

type concResult struct {
	cd    *cand
	reply reply
	read  *reply // GetSTH issued by the same worker right after the update
}

func checkConc(t *testing.T, c ConcCase) harness.Verdict {
	var v harness.Verdict
	fam := buildFamily(c.Fam)
	var logs []logID
	for _, k := range c.Logs {
		logs = append(logs, newLogID(k.key()))
	}
	s, err := newSUT(logs, c.Witness.key(), c.MaxConns, c.HTTP, false)
	if err != nil {
		v.Failf("setup", "cannot build the witness: %v", err)
		return v
	}
	defer s.close()
	if c.HTTP {
		v.Class("transport:http")
	} else {
		v.Class("transport:direct")
	}
	v.Class(fmt.Sprintf("conns:%d", c.MaxConns), fmt.Sprintf("workers:%d", len(c.Workers)), fmt.Sprintf("logs:%d", len(logs)))

	// initial state (sequential)
	init := make([]*cand, len(logs))
	for i := range logs {
		if !c.InitHas[i] {
			continue
		}
		ti := c.InitTree[i] % len(fam.trees)
		n := uint64(c.InitSize[i] % (fam.trees[ti].Size() + 1))
		cd := makeCand(fam, logs, c.Foreign.key(), i, ti, n, 1, signRight, idAbsent, c.Salt)
		r := s.update(logs[i].id, cd.raw, nil)
		if !r.ok {
			v.Failf("valid-update-refused", "initial trust-on-first-use update of log %d refused: %s", i, r.note)
			return v
		}
		init[i] = cd
	}

	// resolve every candidate before the burst (signing is not part of the race)
	type job struct {
		cd    *cand
		proof [][]byte
	}
	jobs := make([][]job, len(c.Workers))
	for wi, w := range c.Workers {
		li := w.Log % len(logs)
		h0 := 0
		baseTree := 0
		if init[li] != nil {
			h0 = int(init[li].size)
			baseTree = init[li].tree
		}
		for _, u := range w.Ups {
			ti := baseTree
			if u.Tree > 0 {
				ti = (u.Tree - 1) % len(fam.trees)
			}
			tl := fam.trees[ti].Size()
			n := c.Palette[u.Size%len(c.Palette)] % (tl + 1)
			from := h0
			if u.From > 0 {
				from = c.Palette[(u.From-1)%len(c.Palette)] % (tl + 1)
			}
			cd := makeCand(fam, logs, c.Foreign.key(), li, ti, uint64(n), u.TS, u.Sign, idAbsent, c.Salt+wi)
			jobs[wi] = append(jobs[wi], job{cd, buildProof(fam, u.Proof, u.PA, u.PB, from, ti, n)})
		}
	}

	results := make([][]concResult, len(c.Workers))
	start := make(chan struct{})
	var wg sync.WaitGroup
	for wi := range c.Workers {
		wi := wi
		li := c.Workers[wi].Log % len(logs)
		wg.Add(1)
		go func() {
			defer wg.Done()
			<-start
			for _, j := range jobs[wi] {
				res := concResult{cd: j.cd, reply: s.update(logs[li].id, j.cd.raw, j.proof)}
				if c.Workers[wi].Reads {
					r := s.getSTH(logs[li].id)
					res.read = &r
				}
				results[wi] = append(results[wi], res)
			}
		}()
	}
	close(start)
	wg.Wait()

	// judgement
	accepted, refusedN := 0, 0
	for li, l := range logs {
		fr := s.getSTH(l.id)
		// everything that can legitimately have been held at some instant: the initial STH and every
		// candidate whose Update reported success
		var everHeld []*cand
		if init[li] != nil {
			everHeld = append(everHeld, init[li])
		}
		for wi, w := range c.Workers {
			if w.Log%len(logs) != li {
				continue
			}
			for _, r := range results[wi] {
				if r.reply.ok {
					everHeld = append(everHeld, r.cd)
				}
			}
		}
		if len(everHeld) == 0 {
			if fr.ok {
				v.Failf("sth-from-nothing", "log %d: GetSTH = %q although no update succeeded", li, fr.body)
			}
		}
		var final *parsedSTH
		if len(everHeld) > 0 {
			if !fr.ok {
				v.Failf("getsth-failed", "log %d: GetSTH failed after the burst (%s) although updates succeeded", li, fr.note)
				continue
			}
			final, err = parseWire(fr.body)
			if err != nil {
				v.Failf("cosigned-unparsable", "log %d: final GetSTH: %v", li, err)
				continue
			}
			var fc *cand
			for _, e := range everHeld {
				if final.matches(e, l) == "" {
					fc = e
				}
			}
			if fc == nil {
				v.Failf("final-never-accepted", "log %d: final STH %q is neither the initial one nor a candidate whose update succeeded", li, fr.body)
			} else if sig, msg := s.checkCosigned(fr.body, fc, l, c.Tamper, c.Salt); sig != "" {
				v.Failf(sig, "log %d: final GetSTH: %s", li, msg)
			}
			if !verifyLogSig(l, final) {
				v.Failf("holds-sth-without-valid-log-signature", "log %d holds %q whose log signature does not verify", li, fr.body)
			}
			if init[li] != nil && !fam.extends(init[li].size, init[li].root[:], final.size, final.root) {
				v.Failf("held-not-extension", "log %d: final (size %d, %x) does not extend the initial (size %d, %x)", li, final.size, final.root, init[li].size, init[li].root)
			}
		}
		for wi, w := range c.Workers {
			if w.Log%len(logs) != li {
				continue
			}
			var last *parsedSTH
			for ui, r := range results[wi] {
				cd := r.cd
				if r.reply.ok {
					accepted++
					if !cd.sigValid {
						v.Failf("accepted-bad-signature", "log %d worker %d update %d: STH with an invalid log signature accepted", li, wi, ui)
					}
					if final != nil {
						if cd.size > final.size {
							v.Failf("success-above-final", "log %d worker %d update %d: update to size %d reported success but the final held size is %d", li, wi, ui, cd.size, final.size)
						} else if !fam.extends(cd.size, cd.root[:], final.size, final.root) {
							v.Failf("success-off-final-tree", "log %d worker %d update %d: update to (tree %d, size %d) reported success but the final STH (size %d, %x) is not on that tree", li, wi, ui, cd.tree, cd.size, final.size, final.root)
						}
					}
					if init[li] != nil && !fam.extends(init[li].size, init[li].root[:], cd.size, cd.root[:]) {
						v.Failf("success-not-extending-initial", "log %d worker %d update %d: update to (tree %d, size %d) reported success but does not extend the initial (tree %d, size %d)", li, wi, ui, cd.tree, cd.size, init[li].tree, init[li].size)
					}
					// the answer is the cosigned candidate, or (replay of the held head) a held STH with that head
					if sig, msg := s.checkCosigned(r.reply.body, cd, l, c.Tamper+wi+ui, c.Salt); sig != "" {
						okReplay := false
						for _, e := range everHeld {
							if bytes.Equal(r.reply.body, e.raw) && e.size == cd.size && e.root == cd.root {
								okReplay = true
							}
						}
						if !okReplay {
							v.Failf("update-"+sig, "log %d worker %d update %d: success answered %q: %s", li, wi, ui, r.reply.body, msg)
						}
					}
				} else {
					refusedN++
					if r.reply.conflict {
						known := false
						for _, e := range everHeld {
							if bytes.Equal(r.reply.body, e.raw) {
								known = true
							}
						}
						if !known {
							v.Failf("refusal-with-never-held-sth", "log %d worker %d update %d: refusal (%s) answered with %q, which was never held", li, wi, ui, r.reply.note, r.reply.body)
						}
					}
				}
				if r.read != nil && r.read.ok {
					p, err := parseWire(r.read.body)
					if err != nil {
						v.Failf("cosigned-unparsable", "log %d worker %d read %d: %v", li, wi, ui, err)
						continue
					}
					if !p.cosigned || !p.verifyCosig(s.wkey.Pub) {
						v.Failf("cosignature-invalid", "log %d worker %d read %d: %q", li, wi, ui, r.read.body)
					}
					if r.reply.ok && p.size < cd.size {
						v.Failf("held-size-decreased", "log %d worker %d: update to size %d succeeded, the following GetSTH shows size %d", li, wi, cd.size, p.size)
					}
					if last != nil {
						if p.size < last.size {
							v.Failf("held-size-decreased", "log %d worker %d: successive GetSTH calls show size %d then %d", li, wi, last.size, p.size)
						} else if !fam.extends(last.size, last.root, p.size, p.root) {
							v.Failf("held-not-extension", "log %d worker %d: successive GetSTH calls show (size %d, %x) then (size %d, %x)", li, wi, last.size, last.root, p.size, p.root)
						}
					}
					if final != nil && !fam.extends(p.size, p.root, final.size, final.root) {
						v.Failf("held-not-extension", "log %d worker %d: GetSTH during the burst showed (size %d, %x), the final STH is (size %d, %x)", li, wi, p.size, p.root, final.size, final.root)
					}
					last = p
				}
			}
		}
	}
	switch {
	case accepted == 0:
		v.Class("successes:0")
	case accepted == 1:
		v.Class("successes:1")
	case accepted <= 3:
		v.Class("successes:2-3")
	default:
		v.Class("successes:4+")
	}
	v.NonTrivial = accepted >= 2 && refusedN >= 1
	return v
}

var Conc = harness.Define(harness.Opts{Name: "conc", Rule: ruleConc, Quick: 250, Thorough: 1500, Crashy: true, MaxSample: 2500}, genConc, checkConc)
