package c19

import (
	"bytes"
	"fmt"
	"testing"

	"pgregory.net/rapid"

	"verif/internal/harness"
	"verif/internal/mtree"
)

// twin.go: two witness instances on one database file (rolling restart overlap, warm standby). The stored
// STH is the state the property speaks about, whoever wrote it: it must never shrink or leave its tree when
// instance A is held between reading the stored STH and writing its successor while instance B updates.

// TwinUp is one update, relative to the STH currently stored (as observed through GetSTH).
type TwinUp struct {
	Inst  int // 0 = instance A, 1 = instance B (sequential phases)
	Tree  int // 0: the tree of the stored STH; k > 0: tree (k-1) mod family size
	Mode  int // sizeGrow / sizeSame / sizeShrink
	D     int
	Proof int
	PA    int
	PB    int
	TS    uint64
}

// TwinCase: sequential warm-up through both instances, then A's update is paused at PauseAt while B issues
// its updates, then A is released; a sequential tail follows.
type TwinCase struct {
	Fam     Family
	Log     KeyRef
	Witness KeyRef
	BusyMs  int
	Pre     []TwinUp
	A       TwinUp
	PauseAt int // faultExec: after A's read, before its write; faultCommit: after A's write, before COMMIT
	B       []TwinUp
	Post    []TwinUp
	Tamper  int
	Salt    int
}

const ruleTwin = "two witness instances on one sqlite file: sequential updates through either instance, then instance A is paused between its read and its write (or before COMMIT) while instance B issues 1-3 updates; non-trivial = the pause point was reached"

func genTwinUp(t *rapid.T, inst int) TwinUp {
	return TwinUp{
		Inst:  inst,
		Tree:  biased(t, 5, 7, "tree"),
		Mode:  biased(t, 3, 7, "mode"),
		D:     rapid.IntRange(1, 9).Draw(t, "d"),
		Proof: biased(t, nProofKinds, 8, "proof"),
		PA:    rapid.IntRange(0, 40).Draw(t, "pa"),
		PB:    rapid.IntRange(0, 300).Draw(t, "pb"),
		TS:    genTS(t),
	}
}

func genTwin(t *rapid.T) TwinCase {
	c := TwinCase{Fam: genFamily(t)}
	c.Log = logPool[rapid.IntRange(0, len(logPool)-1).Draw(t, "logKey")]
	c.Witness = witnessPool[rapid.IntRange(0, len(witnessPool)-1).Draw(t, "witnessKey")]
	c.BusyMs = []int{0, 0, 5, 25}[rapid.IntRange(0, 3).Draw(t, "busy")]
	for i, n := 0, rapid.IntRange(0, 4).Draw(t, "npre"); i < n; i++ {
		c.Pre = append(c.Pre, genTwinUp(t, rapid.IntRange(0, 1).Draw(t, "inst")))
	}
	c.A = genTwinUp(t, 0)
	if rapid.IntRange(0, 4).Draw(t, "goodA") > 0 {
		// an update that passes A's checks against what A reads, so that A reaches its write
		c.A.Tree, c.A.Mode, c.A.Proof = 0, sizeGrow, pfCorrect
	}
	c.PauseAt = faultExec
	if rapid.IntRange(0, 3).Draw(t, "pauseAtCommit") == 0 {
		c.PauseAt = faultCommit
	}
	for i, n := 0, rapid.IntRange(1, 3).Draw(t, "nb"); i < n; i++ {
		c.B = append(c.B, genTwinUp(t, 1))
	}
	for i, n := 0, rapid.IntRange(0, 3).Draw(t, "npost"); i < n; i++ {
		c.Post = append(c.Post, genTwinUp(t, rapid.IntRange(0, 1).Draw(t, "inst")))
	}
	c.Tamper = rapid.IntRange(0, nTamper-1).Draw(t, "tamper")
	c.Salt = rapid.IntRange(0, 1<<20).Draw(t, "salt")
	return c
}

func checkTwin(t *testing.T, c TwinCase) harness.Verdict {
	var v harness.Verdict
	fam := buildFamily(c.Fam)
	l := newLogID(c.Log.key())
	logs := []logID{l}
	a, b, err := newTwins(logs, c.Witness.key(), c.BusyMs)
	if err != nil {
		v.Failf("setup", "cannot build the two witness instances: %v", err)
		return v
	}
	defer a.close()
	defer b.close()
	inst := []*sut{a, b}
	v.Class(fmt.Sprintf("busy-timeout-ms:%d", c.BusyMs))

	var sent []*cand
	var cur *cand // the stored STH as last observed
	salt := c.Salt

	// observe reads the stored STH through instance `via` and applies the ground-truth invariants against
	// the previous observation: known tree head, size never smaller, same tree.
	observe := func(via *sut, where string) *cand {
		r := via.getSTH(l.id)
		if !r.ok {
			if cur != nil {
				v.Failf("getsth-failed", "%s: GetSTH failed (%s) although size %d was stored", where, r.note, cur.size)
			}
			return cur
		}
		p, err := parseWire(r.body)
		if err != nil {
			v.Failf("cosigned-unparsable", "%s: %v", where, err)
			return cur
		}
		var got *cand
		for _, s := range sent {
			if p.matches(s, l) == "" {
				got = s
			}
		}
		if got == nil {
			v.Failf("holds-unknown-tree-head", "%s: stored STH %q is none of the STHs sent", where, r.body)
			return cur
		}
		if sig, msg := via.checkCosigned(r.body, got, l, c.Tamper, salt); sig != "" {
			v.Failf(sig, "%s: GetSTH: %s", where, msg)
		}
		if cur != nil {
			if got.size < cur.size {
				v.Failf("held-size-decreased", "%s: the stored STH went from size %d to size %d", where, cur.size, got.size)
			} else if !fam.extends(cur.size, cur.root[:], got.size, got.root[:]) {
				v.Failf("held-not-extension", "%s: the stored STH went from (tree %d, size %d) to (tree %d, size %d): not one tree", where, cur.tree, cur.size, got.tree, got.size)
			}
		}
		return got
	}

	// resolve builds the candidate and proof of an update against the stored STH `base`.
	type resolved struct {
		cd     *cand
		proof  [][]byte
		good   bool // must be accepted when issued without contention
		replay bool
	}
	resolve := func(u TwinUp, base *cand) resolved {
		ti := 0
		if u.Tree > 0 {
			ti = (u.Tree - 1) % len(fam.trees)
		} else if base != nil {
			ti = base.tree
		}
		o := Op{SizeMode: u.Mode, D: u.D}
		n := candSize(o, base, fam.trees[ti].Size())
		salt++
		cd := makeCand(fam, logs, nil, 0, ti, n, u.TS, signRight, idAbsent, salt)
		sent = append(sent, cd)
		hs := 0
		if base != nil {
			hs = int(base.size)
		}
		r := resolved{cd: cd, proof: buildProof(fam, u.Proof, u.PA, u.PB, hs, ti, int(n))}
		switch {
		case base == nil:
			r.good = true
		case n == base.size && cd.root == base.root:
			r.replay = true
		case n > base.size && mtree.VerifyConsistency(base.size, n, base.root[:], cd.root[:], r.proof) == nil:
			r.good = true
		}
		return r
	}

	// judgeReply: a success answer is the cosigned candidate (or, for a replay, the stored STH) and is what
	// is stored afterwards; a refusal leaves the stored STH alone. `after` is the observation that follows.
	judgeReply := func(where string, s *sut, rs resolved, r reply, before, after *cand) {
		switch {
		case r.ok && rs.replay:
			if !sameCand(after, before) {
				v.Failf("replay-changed-state", "%s: replay of the stored head changed the stored STH", where)
			}
		case r.ok:
			if sig, msg := s.checkCosigned(r.body, rs.cd, l, c.Tamper, salt); sig != "" {
				v.Failf("update-"+sig, "%s: success answered %q: %s", where, r.body, msg)
			}
			if !sameCand(after, rs.cd) {
				v.Failf("accepted-update-not-stored", "%s: update to (tree %d, size %d) reported success but the stored STH is %s", where, rs.cd.tree, rs.cd.size, describe(after))
			}
		default:
			if !sameCand(after, before) {
				v.Failf("refused-update-changed-state", "%s: update refused (%s) but the stored STH changed from %s to %s", where, r.note, describe(before), describe(after))
			}
		}
	}

	sequential := func(phase string, ups []TwinUp) {
		for i, u := range ups {
			if len(v.Violations) > 0 {
				return
			}
			where := fmt.Sprintf("%s %d (instance %c)", phase, i, 'A'+rune(u.Inst%2))
			s, other := inst[u.Inst%2], inst[1-u.Inst%2]
			rs := resolve(u, cur)
			r := s.update(l.id, rs.cd.raw, rs.proof)
			switch {
			case (rs.good || rs.replay) && !r.ok:
				v.Failf("valid-update-refused", "%s: uncontended valid update to (tree %d, size %d) from %s refused: %s", where, rs.cd.tree, rs.cd.size, describe(cur), r.note)
			case !rs.good && !rs.replay && r.ok:
				v.Failf("accepted-bad-update", "%s: update to (tree %d, size %d, proof %s) from %s succeeded", where, rs.cd.tree, rs.cd.size, proofNames[u.Proof], describe(cur))
			case !rs.good && !rs.replay && cur != nil && !bytes.Equal(r.body, cur.raw):
				v.Failf("refusal-without-held-sth", "%s: refusal answered %q, want the stored raw STH", where, r.body)
			}
			before := cur
			cur = observe(other, where+", read through the other instance") // cross-instance visibility
			judgeReply(where, s, rs, r, before, cur)
			if r.ok && !rs.replay {
				v.Class("sequential-success:instance-" + string('A'+rune(u.Inst%2)))
			}
		}
	}

	sequential("warm-up", c.Pre)
	if len(v.Violations) > 0 {
		return v
	}

	// the interleaving: A reads the stored STH, is held, B updates, A continues
	rsA := resolve(c.A, cur)
	a.plan.armPause(c.PauseAt)
	doneA := make(chan reply, 1)
	go func() { doneA <- a.update(l.id, rsA.cd.raw, rsA.proof) }()
	var rA reply
	paused := false
	select {
	case <-a.plan.paused:
		paused = true
	case rA = <-doneA:
	}
	beforeA := cur
	if paused {
		v.NonTrivial = true
		v.Class("pause:" + faultNames[c.PauseAt])
		bOK := 0
		for i, u := range c.B {
			where := fmt.Sprintf("while A is paused before %s: B update %d", faultNames[c.PauseAt], i)
			rs := resolve(u, cur)
			r := b.update(l.id, rs.cd.raw, rs.proof)
			if !rs.good && !rs.replay && r.ok {
				v.Failf("accepted-bad-update", "%s: update to (tree %d, size %d, proof %s) from %s succeeded", where, rs.cd.tree, rs.cd.size, proofNames[u.Proof], describe(cur))
			}
			before := cur
			cur = observe(b, where)
			judgeReply(where, b, rs, r, before, cur)
			if r.ok && !rs.replay {
				bOK++
			}
		}
		v.Class(fmt.Sprintf("B-successes-during-pause:%d", bOK))
		close(a.plan.resume)
		rA = <-doneA
	} else {
		v.Class("pause:not-reached")
		a.plan.pauseAt.Store(faultNone)
	}
	// A's answer against what is stored now (read through both instances; they must agree)
	mid := cur
	cur = observe(b, "after A was released, read through B")
	viaA := observe(a, "after A was released, read through A")
	if !sameCand(viaA, cur) {
		v.Failf("instances-disagree", "after A was released: B serves %s, A serves %s", describe(cur), describe(viaA))
	}
	switch {
	case rA.ok && !rsA.replay:
		v.Class("A-success")
		if sig, msg := a.checkCosigned(rA.body, rsA.cd, l, c.Tamper, salt); sig != "" {
			v.Failf("update-"+sig, "A's paused update: success answered %q: %s", rA.body, msg)
		}
		if !rsA.good {
			v.Failf("accepted-bad-update", "A's paused update to (tree %d, size %d) from %s succeeded", rsA.cd.tree, rsA.cd.size, describe(beforeA))
		}
		// what A cosigned must be on the history of the stored STH
		if cur == nil || rsA.cd.size > cur.size || !fam.extends(rsA.cd.size, rsA.cd.root[:], cur.size, cur.root[:]) {
			v.Failf("success-off-final-tree", "A's paused update to (tree %d, size %d) reported success but the stored STH is %s", rsA.cd.tree, rsA.cd.size, describe(cur))
		}
	case !rA.ok:
		v.Class("A-refused")
		if !sameCand(cur, mid) {
			v.Failf("refused-update-changed-state", "A's paused update was refused (%s) but the stored STH changed from %s to %s", rA.note, describe(mid), describe(cur))
		}
	}
	if len(v.Violations) > 0 {
		return v
	}
	sequential("tail", c.Post)
	return v
}

// sameCand compares stored STHs by content (deterministic RSA signatures make two candidates for one
// tree head byte-identical, so pointers do not identify them).
func sameCand(a, b *cand) bool {
	if a == nil || b == nil {
		return a == b
	}
	return bytes.Equal(a.raw, b.raw)
}

func describe(c *cand) string {
	if c == nil {
		return "nothing"
	}
	return fmt.Sprintf("(tree %d, size %d)", c.tree, c.size)
}

var Twin = harness.Define(harness.Opts{Name: "twin", Rule: ruleTwin, Quick: 150, Thorough: 1200, Crashy: true, MaxSample: 2500}, genTwin, checkTwin)
