package c12

import (
	"context"
	"fmt"
	"testing"
	"time"

	ct "github.com/google/certificate-transparency-go"
	"pgregory.net/rapid"

	"verif/internal/harness"
	"verif/internal/vt"
	"verif/internal/world"
)

// SessCase is a short history of calls on ONE client instance. A later answer may reuse the signature
// bytes, or the whole body, of an earlier one while the fields the signature covers differ: anything a
// client remembers between calls (a verified signature, a previous answer) must not replace verification.
type SessCase struct {
	KeyKind  string
	KeyIdx   int
	Temporal bool
	KeyPEM   int // as in Case
	KlogV    int
	NoDER    bool
	DecoyIdx int
	Siblings []Sibling
	Chain    world.ChainSpec
	Other    world.ChainSpec
	Ext      []byte
	Steps    []SessStep
}

// SessStep is one call.
type SessStep struct {
	Method    string // GetSTH | AddChain | AddPreChain
	UseOther  bool   // submissions: hand in Other instead of Chain
	Rekey     bool   // submissions: the final issuer in the chain is a same-name certificate with another key
	Timestamp uint64
	TreeSize  uint64
	Seed      uint32
	Ext       []byte
	Replay    int  // index+1 of an earlier step of the same method whose DigitallySigned bytes are reused (0 = fresh)
	Whole     bool // reuse that step's whole final body instead of only its signature
	Script    []Resp
	DeadlineS int
}

func genSess(t *rapid.T) SessCase {
	c := SessCase{KeyKind: rapid.SampledFrom([]string{"p256", "p256", "rsa2048", "rsa3072"}).Draw(t, "keykind"), KeyIdx: rapid.IntRange(0, 7).Draw(t, "keyidx")}
	genKeyOptions(t, &c.KeyPEM, &c.NoDER, &c.DecoyIdx, &c.Siblings)
	c.KlogV = rapid.SampledFrom([]int{0, 0, 1, 2}).Draw(t, "klogv")
	kind := rapid.SampledFrom([]string{"sth", "sth", "sth", "add", "add", "pre", "mixed"}).Draw(t, "kind")
	c.Chain = world.GenSpec(t, "chain")
	c.Other = world.GenSpec(t, "other")
	pre := kind == "pre" || (kind == "mixed" && rapid.Bool().Draw(t, "mixedpre"))
	if pre {
		c.Chain.Precert, c.Other.Precert = true, true
		c.Chain.IncludeRoot = c.Chain.IncludeRoot || len(c.Chain.Inters) == 0
		c.Other.IncludeRoot = c.Other.IncludeRoot || len(c.Other.Inters) == 0
	} else {
		c.Chain.Precert, c.Chain.PreIssuer = false, false
		c.Other.Precert, c.Other.PreIssuer = false, false
	}
	if c.Other.ID == c.Chain.ID {
		c.Other.ID++
	}
	c.Temporal = rapid.IntRange(0, 4).Draw(t, "temporal") == 0
	// small pools: equal values in two steps (an honest republication) and different ones both occur
	tsPool := []uint64{0, 1500000000000, 1500000000001, genTimestamp(t, "ts")}
	sizePool := []uint64{0, 7, 8, 1 << 33}
	n := rapid.IntRange(2, 4).Draw(t, "steps")
	for i := 0; i < n; i++ {
		st := SessStep{Timestamp: rapid.SampledFrom(tsPool).Draw(t, "sts"), TreeSize: rapid.SampledFrom(sizePool).Draw(t, "ssize"), Seed: uint32(rapid.IntRange(0, 2).Draw(t, "sseed"))}
		switch kind {
		case "sth":
			st.Method = "GetSTH"
		case "add":
			st.Method = "AddChain"
		case "pre":
			st.Method = "AddPreChain"
		default:
			st.Method = "GetSTH"
			if rapid.Bool().Draw(t, "mixedadd") {
				st.Method = "AddChain"
				if pre {
					st.Method = "AddPreChain"
				}
			}
		}
		if retrying(st.Method) {
			st.UseOther = rapid.IntRange(0, 2).Draw(t, "useother") == 0
			if rapid.IntRange(0, 2).Draw(t, "hasext") == 0 {
				st.Ext = []byte{byte(rapid.IntRange(0, 3).Draw(t, "extb"))}
			}
			st.DeadlineS = rapid.IntRange(1, 120).Draw(t, "deadline")
			st.Rekey = rapid.IntRange(0, 2).Draw(t, "rekey") == 0
		}
		// earlier steps of the same method that could be replayed
		var cands []int
		for j := 0; j < i; j++ {
			if c.Steps[j].Method == st.Method {
				cands = append(cands, j)
			}
		}
		if len(cands) > 0 && rapid.IntRange(0, 3).Draw(t, "replay") != 0 {
			st.Replay = rapid.SampledFrom(cands).Draw(t, "replayof") + 1
			st.Whole = rapid.IntRange(0, 3).Draw(t, "whole") == 0
			if rapid.Bool().Draw(t, "sameanswer") {
				// everything the signature covers directly is as in the replayed call: what differs (if
				// anything) is only what the client derives from the chain it hands in
				p := c.Steps[st.Replay-1]
				st.Timestamp, st.TreeSize, st.Seed, st.Ext, st.UseOther = p.Timestamp, p.TreeSize, p.Seed, p.Ext, p.UseOther
			}
		}
		ns := rapid.SampledFrom([]int{1, 1, 1, 1, 2}).Draw(t, "script")
		for k := 0; k < ns; k++ {
			var r Resp
			if k < ns-1 {
				r.Muts = append(r.Muts, genStep(t, st.Method))
			}
			// mostly truthful answers: the interesting part of a session is what is remembered between calls
			km := rapid.SampledFrom([]int{0, 0, 0, 0, 0, 1, 1, 2}).Draw(t, "nmuts")
			for len(r.Muts) < km {
				r.Muts = append(r.Muts, genMut(t, st.Method))
			}
			st.Script = append(st.Script, r)
		}
		c.Steps = append(c.Steps, st)
	}
	return c
}

func (c SessCase) stepCase(st SessStep) Case {
	sc := Case{Method: st.Method, KeyKind: c.KeyKind, KeyIdx: c.KeyIdx, Temporal: c.Temporal && retrying(st.Method), Chain: c.Chain, Other: c.Other,
		Timestamp: st.Timestamp, TreeSize: st.TreeSize, Seed: st.Seed, Ext: st.Ext, Script: st.Script, DeadlineS: st.DeadlineS,
		KeyPEM: c.KeyPEM, NoDER: c.NoDER, DecoyIdx: c.DecoyIdx, Siblings: c.Siblings, Rekey: st.Rekey}
	if st.UseOther {
		sc.Chain, sc.Other = c.Other, c.Chain
	}
	return sc
}

func checkSess(t *testing.T, c SessCase) (v harness.Verdict) {
	ct.AllowVerificationWithNonCompliantKeys = false
	harness.SetKlogVerbosity(c.KlogV)
	defer harness.SetKlogVerbosity(0)
	v.Class(fmt.Sprintf("klog-v:%d", c.KlogV))
	type stepRun struct {
		s      *scene
		script []*built
		nm     int
		out    outcome
		log    []served
		capHit bool
		ran    bool
	}
	runs := make([]*stepRun, len(c.Steps))
	bodies := make([][]byte, len(c.Steps))
	for i, st := range c.Steps {
		sc := c.stepCase(st)
		r := &stepRun{s: newScene(sc)}
		if st.Replay > 0 {
			r.s.replayDS = runs[st.Replay-1].s.lastDS
			r.nm++
			v.Class("replay:signature")
		}
		for k, rs := range st.Script {
			r.script = append(r.script, r.s.build(rs, k == len(st.Script)-1))
			r.nm += len(rs.Muts)
			for _, m := range rs.Muts {
				v.Class("mut:" + m.Kind)
			}
		}
		final := r.script[len(r.script)-1]
		if st.Replay > 0 && st.Whole {
			final.Body = clone(bodies[st.Replay-1])
			if final.ReadAt > len(final.Body) {
				final.ReadAt = len(final.Body)
			}
			v.Class("replay:whole-body")
		}
		bodies[i] = final.Body
		if st.Replay > 0 {
			p := c.Steps[st.Replay-1]
			same := p.Timestamp == st.Timestamp
			if st.Method == "GetSTH" {
				same = same && p.TreeSize == st.TreeSize && p.Seed == st.Seed
			} else {
				same = same && p.UseOther == st.UseOther && string(p.Ext) == string(st.Ext) && (p.Rekey == st.Rekey || st.Method == "AddChain")
				if p.Rekey != st.Rekey {
					v.Class("replay:across-rekeyed-issuer")
				}
			}
			switch {
			case st.Whole:
				v.Class("replay:whole-earlier-answer")
			case same:
				v.Class("replay:same-signed-fields")
			default:
				v.Class("replay:other-signed-fields")
				v.NonTrivial = true
			}
		}
		runs[i] = r
		v.Class("step:" + st.Method)
	}
	v.Class(fmt.Sprintf("steps:%d", len(c.Steps)), keyOptClass(c.KeyPEM, c.NoDER), fmt.Sprintf("siblings:%d", len(c.Siblings)))

	rt := &scriptRT{}
	var setup any
	res := vt.Run(t, 48*time.Hour, func(ctx context.Context) {
		cctx, cancel := context.WithCancel(ctx)
		defer cancel()
		rt.cancel = cancel
		var cl clients
		if setup = recovered(func() { cl = newClients(runs[0].s, rt); cl = sessClients(c, runs[0].s, rt, cl) }); setup != nil {
			return
		}
		for _, r := range runs {
			if cctx.Err() != nil {
				return // the attempt cap of an earlier call ended the session
			}
			rt.mu.Lock()
			rt.script, rt.n, rt.log = r.script, 0, nil
			rt.mu.Unlock()
			r.out = doCall(cctx, r.s, cl)
			r.ran = true
			rt.mu.Lock()
			r.log, r.capHit = rt.log, rt.n > attemptCap
			rt.mu.Unlock()
		}
	})
	if setup != nil {
		t.Fatalf("harness: client set-up panicked: %v", setup)
	}
	if res.TimedOut {
		v.Failf("no-return", "a session of %d calls did not finish within 48 h of virtual time", len(c.Steps))
		return v
	}
	for i, r := range runs {
		if !r.ran {
			v.Class("step-not-run")
			continue
		}
		before := len(v.Violations)
		judgeOutcome(t, &v, r.s, r.out, r.log, r.capHit, r.nm)
		for k := before; k < len(v.Violations); k++ {
			v.Violations[k].Msg = fmt.Sprintf("call %d of %d on one client: %s", i+1, len(c.Steps), v.Violations[k].Msg)
		}
		if r.out.err == nil && c.Steps[i].Replay > 0 {
			v.Class("replay:accepted")
		} else if c.Steps[i].Replay > 0 {
			v.Class("replay:refused")
		}
	}
	return v
}

// sessClients makes the temporal client (when asked for) share the session; GetSTH always goes to the
// plain LogClient.
func sessClients(c SessCase, s *scene, rt *scriptRT, cl clients) clients {
	if !c.Temporal || s.c.Temporal {
		return cl
	}
	tmp := *s
	tmp.c.Temporal = true
	t2 := newClients(&tmp, rt)
	cl.adder = t2.adder
	return cl
}

// Session is the multi-call half of C12.
var Session = harness.Define(harness.Opts{
	Name:  "session",
	Rule:  "2-4 calls (GetSTH, AddChain or AddPreChain, or a mix) on ONE client instance holding the log key; every call has its own truthful answer (timestamps / tree sizes / roots / extensions from small pools so that honest republications and changed values both occur; submissions alternate between two chains and between the issuer certificate and a same-name twin with another key) under 0-2 mutations, and three quarters of the later calls of a method are answered with the DigitallySigned bytes (a quarter of those: the whole body) of an earlier answer. Each call is judged by the per-call oracle of the client sub-property. Non-trivial: a replayed signature over different signed fields",
	Quick: 2500, Thorough: 10000,
	// a panic in a goroutine the client starts itself (TemporalLogClient.GetAcceptedRoots) cannot be recovered:
	// every case is persisted before it runs so that the driver can attribute the abort
	Crashy: true,
}, genSess, checkSess)
