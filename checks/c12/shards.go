package c12

import (
	"bytes"
	"context"
	"encoding/base64"
	"errors"
	"fmt"
	"io"
	"net/http"
	"sync"
	"testing"
	"time"

	ct "github.com/google/certificate-transparency-go"
	"github.com/google/certificate-transparency-go/client"
	"github.com/google/certificate-transparency-go/client/configpb"
	"github.com/google/certificate-transparency-go/jsonclient"
	"google.golang.org/protobuf/types/known/timestamppb"
	"pgregory.net/rapid"

	"verif/internal/harness"
	"verif/internal/vt"
	"verif/internal/world"
)

// ShardCase: GetAcceptedRoots of a TemporalLogClient with several shards, each shard answering on its
// own (own root set, own latency, own faults). The result is all or nothing: the union of every shard's
// roots, or an error - never the roots of the shards that happened to answer well.
type ShardCase struct {
	KeyKind string
	KeyIdx  int
	KlogV   int
	Shards  []ShardSpec
}

// ShardSpec is one shard's get-roots answer.
type ShardSpec struct {
	Roots   int // bit i set: world root i is accepted by this shard
	DelayMs int // virtual latency of the answer
	Muts    []Mut
}

func genShards(t *rapid.T) ShardCase {
	c := ShardCase{KeyKind: rapid.SampledFrom([]string{"p256", "rsa2048"}).Draw(t, "keykind"), KeyIdx: rapid.IntRange(0, 7).Draw(t, "keyidx"),
		KlogV: rapid.SampledFrom([]int{0, 0, 1}).Draw(t, "klogv")}
	n := rapid.IntRange(2, 4).Draw(t, "shards")
	for i := 0; i < n; i++ {
		sp := ShardSpec{Roots: rapid.IntRange(0, 15).Draw(t, "roots"), DelayMs: rapid.SampledFrom([]int{0, 1, 5, 20, 100, 1000}).Draw(t, "delay")}
		k := rapid.SampledFrom([]int{0, 0, 0, 0, 0, 1, 1, 2}).Draw(t, "nmuts")
		for len(sp.Muts) < k {
			sp.Muts = append(sp.Muts, genMut(t, "GetAcceptedRoots"))
		}
		c.Shards = append(c.Shards, sp)
	}
	return c
}

type shardRT struct {
	mu      sync.Mutex
	answers map[string]*built
	delays  map[string]time.Duration
	served  map[string]int
}

func (rt *shardRT) RoundTrip(req *http.Request) (*http.Response, error) {
	if req.Body != nil {
		io.Copy(io.Discard, req.Body)
		req.Body.Close()
	}
	host := req.URL.Host
	rt.mu.Lock()
	b, d := rt.answers[host], rt.delays[host]
	rt.served[host]++
	n := rt.served[host]
	rt.mu.Unlock()
	if b == nil || n > 20 {
		return nil, errors.New("harness: unexpected request to " + req.URL.String())
	}
	if !vt.Sleep(req.Context(), d) {
		return nil, req.Context().Err()
	}
	if b.NetErr {
		return nil, errScripted
	}
	h := http.Header{}
	for k, v := range b.Header {
		h.Set(k, v)
	}
	if b.Location != "" {
		h.Set("Location", b.Location)
	}
	var body io.ReadCloser = io.NopCloser(bytes.NewReader(b.Body))
	if b.ReadErr {
		body = &failingBody{r: bytes.NewReader(b.Body[:b.ReadAt]), err: errBody}
	}
	return &http.Response{Status: fmt.Sprintf("%d %s", b.Status, http.StatusText(b.Status)), StatusCode: b.Status, Proto: "HTTP/1.1", ProtoMajor: 1, ProtoMinor: 1,
		Header: h, Body: body, ContentLength: b.CL, Request: req}, nil
}

// shardVerdict is the reference reading of one shard's answer.
func shardVerdict(b *built) (roots [][]byte, bad string) {
	switch {
	case b.NetErr:
		return nil, "network error"
	case b.followedRedirect():
		return nil, "endless redirect"
	case b.Status != 200:
		return nil, "non-200 status"
	case b.ReadErr:
		return nil, "body read error"
	}
	var m mRoots
	if st := jsonState(b.Body, &m); st != "ok" {
		return nil, "JSON " + st
	}
	for _, c64 := range m.Certificates {
		der, err := base64.StdEncoding.DecodeString(c64)
		if err != nil {
			return nil, "bad base64"
		}
		roots = append(roots, der)
	}
	return roots, ""
}

func checkShards(t *testing.T, c ShardCase) (v harness.Verdict) {
	ct.AllowVerificationWithNonCompliantKeys = false
	harness.SetKlogVerbosity(c.KlogV)
	defer harness.SetKlogVerbosity(0)
	rt := &shardRT{answers: map[string]*built{}, delays: map[string]time.Duration{}, served: map[string]int{}}
	cfg := &configpb.TemporalLogConfig{}
	all := world.Roots()
	var answers []*built
	var key []byte
	for i, sp := range c.Shards {
		s := newScene(Case{Method: "GetAcceptedRoots", KeyKind: c.KeyKind, KeyIdx: c.KeyIdx})
		key = s.key.SPKI
		s.roots = nil
		for j, r := range all {
			if sp.Roots&(1<<j) != 0 {
				s.roots = append(s.roots, r.DER)
			}
		}
		b := s.build(Resp{Muts: sp.Muts}, true)
		if b.followedRedirect() {
			b.Location = ""
		}
		answers = append(answers, b)
		host := fmt.Sprintf("shard%d.example", i)
		rt.answers[host], rt.delays[host] = b, time.Duration(sp.DelayMs)*time.Millisecond
		sh := &configpb.LogShardConfig{Uri: "http://" + host + "/log", PublicKeyDer: key}
		if i > 0 {
			sh.NotAfterStart = timestamppb.New(time.Date(2020+i, 1, 1, 0, 0, 0, 0, time.UTC))
		}
		if i < len(c.Shards)-1 {
			sh.NotAfterLimit = timestamppb.New(time.Date(2021+i, 1, 1, 0, 0, 0, 0, time.UTC))
		}
		cfg.Shard = append(cfg.Shard, sh)
		for _, m := range sp.Muts {
			v.Class("mut:" + m.Kind)
		}
	}
	var got []ct.ASN1Cert
	var err error
	var panicked any
	res := vt.Run(t, 12*time.Hour, func(ctx context.Context) {
		panicked = recovered(func() {
			tlc, nerr := client.NewTemporalLogClient(cfg, &http.Client{Transport: rt})
			if nerr != nil {
				panic(fmt.Sprintf("harness: NewTemporalLogClient: %v", nerr))
			}
			got, err = tlc.GetAcceptedRoots(ctx)
		})
	})
	if res.TimedOut {
		v.Failf("no-return", "TemporalLogClient.GetAcceptedRoots over %d shards did not return", len(c.Shards))
		return v
	}
	if panicked != nil {
		if ps, ok := panicked.(string); ok && len(ps) > 8 && ps[:8] == "harness:" {
			t.Fatalf("%s", ps)
		}
		v.Failf("client-panic", "TemporalLogClient.GetAcceptedRoots panicked: %v", panicked)
		return v
	}
	var union [][]byte
	seen := map[string]bool{}
	var bad []int
	firstBadDelay, lastGoodDelay := -1, -1
	for i, b := range answers {
		roots, why := shardVerdict(b)
		if why != "" {
			bad = append(bad, i)
			v.Class("shard-bad:" + why)
			if firstBadDelay < 0 || c.Shards[i].DelayMs < firstBadDelay {
				firstBadDelay = c.Shards[i].DelayMs
			}
			continue
		}
		if c.Shards[i].DelayMs > lastGoodDelay {
			lastGoodDelay = c.Shards[i].DelayMs
		}
		for _, r := range roots {
			if !seen[string(r)] {
				seen[string(r)] = true
				union = append(union, r)
			}
		}
	}
	v.Class(fmt.Sprintf("shards:%d", len(c.Shards)), fmt.Sprintf("bad-shards:%d", len(bad)))
	v.NonTrivial = len(bad) > 0
	if len(bad) > 0 && len(bad) < len(c.Shards) {
		if firstBadDelay < lastGoodDelay {
			v.Class("bad-shard-answers-before-a-good-one")
		} else {
			v.Class("bad-shard-answers-last")
		}
	}
	if len(bad) > 0 {
		if err == nil {
			v.Failf("temporal-roots-partial", "shard(s) %v of %d failed their get-roots, yet GetAcceptedRoots returned %d roots and no error", bad, len(c.Shards), len(got))
			return v
		}
		v.Class("outcome:error")
		if got != nil {
			v.Failf("value-with-error", "GetAcceptedRoots returned %d roots together with the error %v", len(got), err)
		}
		var re jsonclient.RspError
		if errors.As(err, &re) {
			match := false
			for _, i := range bad {
				b := answers[i]
				if !b.NetErr && re.StatusCode == b.Status && bytes.Equal(re.Body, b.delivered()) {
					match = true
				}
			}
			if !match {
				v.Failf("rsperror-mismatch", "the RspError (%d, %q) is not what any failing shard served", re.StatusCode, head(re.Body, 60))
			}
		} else {
			net := false
			for _, i := range bad {
				net = net || answers[i].NetErr
			}
			if !net {
				v.Failf("plain-error", "every failing shard delivered a response, but the error is a %T (%v), not an RspError", err, err)
			}
		}
		return v
	}
	if err != nil {
		v.Class("all-shards-good-but-refused")
		return v
	}
	v.Class("outcome:success")
	gotSet := map[string]bool{}
	for _, r := range got {
		if gotSet[string(r.Data)] {
			v.Failf("value-mismatch:GetAcceptedRoots", "the union holds a root twice")
		}
		gotSet[string(r.Data)] = true
	}
	if len(gotSet) != len(union) {
		v.Failf("value-mismatch:GetAcceptedRoots", "the union holds %d roots, the shards served %d distinct ones", len(gotSet), len(union))
	}
	for _, r := range union {
		if !gotSet[string(r)] {
			v.Failf("value-mismatch:GetAcceptedRoots", "a root served by a shard is missing from the union")
			break
		}
	}
	return v
}

// Shards is the multi-shard get-roots part of C12.
var Shards = harness.Define(harness.Opts{
	Name:  "shards",
	Rule:  "TemporalLogClient.GetAcceptedRoots over 2-4 shards; every shard serves its own subset of the four world roots after its own virtual latency (0-1000 ms, so failing shards answer before, between and after healthy ones) under 0-2 mutations of the client catalogue (status, read / network error, body and JSON damage, broken base64, Content-Length ...). All or nothing: if any shard's answer is bad by the reference reading the call returns an error and nil (an RspError carrying what one failing shard served, unless only network errors failed); otherwise the de-duplicated union of all shards' roots. Non-trivial: at least one failing shard",
	Quick: 1500, Thorough: 8000,
	Crashy: true,
}, genShards, checkShards)
