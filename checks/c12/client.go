package c12

import (
	"bytes"
	"context"
	"encoding/base64"
	"encoding/json"
	"encoding/pem"
	"errors"
	"fmt"
	"io"
	"net/http"
	"os"
	"strings"
	"sync"
	"testing"
	"time"

	ct "github.com/google/certificate-transparency-go"
	"github.com/google/certificate-transparency-go/client"
	"github.com/google/certificate-transparency-go/client/configpb"
	"github.com/google/certificate-transparency-go/jsonclient"
	"pgregory.net/rapid"

	"verif/internal/harness"
	"verif/internal/rfc6962"
	"verif/internal/vt"
	"verif/internal/world"
)

// ---------------------------------------------------------------------------------------------
// generator

var commonMuts = []string{"status", "status", "status", "readerr", "neterr", "header", "content-length", "content-length", "location", "redirect",
	"body", "body", "body-trunc", "body-trunc", "body-append", "body-append", "body-prepend",
	"drop", "drop", "type", "type", "type", "dup", "dup-first", "extra", "keycase", "b64", "b64"}

var sigMuts = []string{"sig-foreign", "sig-foreign", "sig-decoy", "sig-decoy", "sig-flip", "sig-flip", "sig-empty", "ds-trunc", "ds-trailing", "ds-trailing",
	"alg-hash", "alg-hash", "alg-sig", "alg-sig", "sign-hash", "sign-version", "sign-type", "ts", "ts", "ts"}

var sthMuts = []string{"size", "size", "root-flip", "root-len", "root-len", "root-len"}

var sctMuts = []string{"ext", "ext", "other-cert", "other-cert", "other-type", "other-type", "id-foreign", "id-foreign", "id-decoy", "id-zero", "id-len", "id-len", "id-len", "sct-version", "sct-version"}

var arrMuts = []string{"elem-type", "elem-type", "elem-drop-field", "b64", "b64"}

var statusPool = []int{0, 1, 42, 99, 600, 601, 799, 999, 1000, 100, 101, 102, 199, 201, 202, 204, 206, 299, 300, 301, 302, 303, 304, 307, 308, 400, 401, 403, 404, 405, 408, 410, 413, 429, 499, 500, 501, 502, 503, 504, 599}

func catalogue(method string) []string {
	out := append([]string{}, commonMuts...)
	switch method {
	case "GetSTH":
		out = append(append(append(out, sigMuts...), sigMuts...), sthMuts...)
	case "AddChain", "AddPreChain":
		out = append(append(append(out, sigMuts...), sctMuts...), sctMuts...)
		out = append(out, "busy", "busy", "busy", "retry-after")
	default:
		out = append(out, arrMuts...)
	}
	return out
}

func genMut(t *rapid.T, method string) Mut {
	m := Mut{Kind: rapid.SampledFrom(catalogue(method)).Draw(t, "kind")}
	if harness.Thorough() && rapid.IntRange(0, 799).Draw(t, "hugebody") == 517 {
		// 32 MiB per case: affordable only now and then, and only in the thorough tier
		m.Kind = "body-huge-pad"
	}
	switch m.Kind {
	case "status":
		if rapid.IntRange(0, 2).Draw(t, "anystatus") == 0 {
			m.N = rapid.IntRange(0, 999).Draw(t, "status")
		} else {
			m.N = rapid.SampledFrom(statusPool).Draw(t, "statusp")
		}
	case "neterr", "sig-empty", "sign-type", "location", "id-zero", "other-cert", "other-type", "sig-decoy", "id-decoy":
	default:
		m.N = rapid.IntRange(0, 4095).Draw(t, "n")
		m.M = rapid.IntRange(0, 255).Draw(t, "m")
	}
	return m
}

func genStep(t *rapid.T, method string) Mut {
	if !retrying(method) {
		return Mut{Kind: "redirect", N: rapid.IntRange(0, 4).Draw(t, "rcode"), M: rapid.IntRange(0, 2).Draw(t, "rhop")}
	}
	switch rapid.IntRange(0, 10).Draw(t, "step") {
	case 7, 8, 9, 10:
		// a busy server: 503 / 429 with a Retry-After of 0, negative, past, present, garbage, small ...
		return Mut{Kind: "busy", N: rapid.IntRange(0, 1).Draw(t, "busy"), M: rapid.IntRange(0, len(retryAfterVals)-1).Draw(t, "retryafter")}
	case 0:
		return Mut{Kind: "status", N: 408}
	case 1:
		return Mut{Kind: "status", N: 429}
	case 2:
		return Mut{Kind: "status", N: 503}
	case 3:
		return Mut{Kind: "neterr"}
	case 4:
		return Mut{Kind: "body", N: rapid.IntRange(0, 9).Draw(t, "garbage")}
	case 5:
		return Mut{Kind: "readerr", N: rapid.IntRange(0, 4095).Draw(t, "rerr")}
	}
	return Mut{Kind: "redirect", N: rapid.IntRange(0, 4).Draw(t, "rcode"), M: rapid.IntRange(0, 2).Draw(t, "rhop")}
}

// genKeyOptions draws how the client under test is given the log key (DER only, PEM only, both equal,
// PEM of the decoy key under the DER of the log key) and 0-2 clients built before it from the same two keys.
func genKeyOptions(t *rapid.T, keyPEM *int, noDER *bool, decoyIdx *int, sibs *[]Sibling) {
	switch rapid.IntRange(0, 5).Draw(t, "keyopt") {
	case 0, 1:
	case 2:
		*keyPEM, *noDER = 1, true
	case 3:
		*keyPEM = 1
	default:
		*keyPEM = 2
	}
	*decoyIdx = rapid.IntRange(0, 3).Draw(t, "decoy")
	n := rapid.SampledFrom([]int{0, 0, 1, 1, 2}).Draw(t, "siblings")
	for i := 0; i < n; i++ {
		sb := Sibling{PEM: rapid.IntRange(0, 2).Draw(t, "sibpem"), DER: rapid.IntRange(0, 2).Draw(t, "sibder")}
		if sb.PEM == 0 && sb.DER == 0 {
			sb.PEM = 2
		}
		*sibs = append(*sibs, sb)
	}
}

func genCase(t *rapid.T) Case {
	c := Case{Method: rapid.SampledFrom([]string{"GetSTH", "GetSTH", "GetSTH", "AddChain", "AddChain", "AddPreChain", "AddPreChain", "GetSTHConsistency", "GetProofByHash", "GetRawEntries", "GetEntries", "GetEntries", "GetEntryAndProof", "GetAcceptedRoots"}).Draw(t, "method")}
	// p384 / p521 / rsa1024 log keys need ct.AllowVerificationWithNonCompliantKeys (set per case)
	c.KeyKind = rapid.SampledFrom([]string{"p256", "p256", "p256", "rsa2048", "rsa2048", "rsa3072", "p384", "p521", "rsa1024"}).Draw(t, "keykind")
	c.KeyIdx = rapid.IntRange(0, 7).Draw(t, "keyidx")
	genKeyOptions(t, &c.KeyPEM, &c.NoDER, &c.DecoyIdx, &c.Siblings)
	c.KlogV = rapid.SampledFrom([]int{0, 0, 1, 2, 5}).Draw(t, "klogv")
	c.Timestamp = genTimestamp(t, "ts")
	c.TreeSize = rapid.SampledFrom([]uint64{0, 1, 2, 7, 1 << 20, 1<<32 + 3, 1<<63 - 1, 1<<64 - 1}).Draw(t, "size")
	c.Seed = rapid.Uint32().Draw(t, "seed")
	c.NHashes = rapid.IntRange(0, 4).Draw(t, "nhashes")
	switch c.Method {
	case "AddChain", "AddPreChain":
		c.Chain = world.GenSpec(t, "chain")
		c.Other = world.GenSpec(t, "other")
		if c.Method == "AddPreChain" {
			c.Chain.Precert, c.Other.Precert = true, true
			c.Chain.PoisonPos = rapid.IntRange(0, 6).Draw(t, "pp1")
			c.Other.PoisonPos = rapid.IntRange(0, 6).Draw(t, "pp2")
			// the client needs the final issuer in the chain to compute the issuer key hash
			c.Chain.IncludeRoot = c.Chain.IncludeRoot || len(c.Chain.Inters) == 0
		} else {
			c.Chain.Precert, c.Chain.PreIssuer = false, false
			c.Other.Precert, c.Other.PreIssuer = false, false
		}
		if c.Other.ID == c.Chain.ID {
			c.Other.ID++
		}
		c.Ext = genExt(t, "ext")
		c.Temporal = rapid.IntRange(0, 3).Draw(t, "temporal") == 0
		c.DeadlineS = rapid.IntRange(1, 300).Draw(t, "deadline")
		c.EmptyChain = rapid.IntRange(0, 39).Draw(t, "emptychain") == 0
		if rapid.IntRange(0, 5).Draw(t, "chainedit") == 0 {
			// a caller whose chain elements are not one certificate each
			c.ChainEdits = append(c.ChainEdits, ChainEdit{Kind: rapid.SampledFrom([]string{"concat", "concat", "merge", "merge", "split", "empty-insert", "empty-replace"}).Draw(t, "cekind"),
				At: rapid.IntRange(0, 2).Draw(t, "ceat"), N: rapid.IntRange(0, 2000).Draw(t, "cen")})
		}
	case "GetRawEntries", "GetEntries":
		maxEntries := 3
		if harness.Thorough() {
			maxEntries = 6
		}
		n := rapid.IntRange(0, maxEntries).Draw(t, "nentries")
		for i := 0; i < n; i++ {
			c.Entries = append(c.Entries, genEntrySpec(t, fmt.Sprintf("e%d", i), 2))
		}
		if rapid.IntRange(0, 5).Draw(t, "bigbatch") == 0 {
			// a large reply: the generated entries plus copies of one small well-formed entry
			c.Fill = rapid.IntRange(60, 260).Draw(t, "fill")
			c.FillPos = rapid.IntRange(0, 2).Draw(t, "fillpos")
		}
		c.A = rapid.SampledFrom([]uint64{0, 0, 1, 5, 1 << 40, 1<<63 - 400}).Draw(t, "start")
		c.B = c.A + uint64(rapid.IntRange(0, 3).Draw(t, "span")) + uint64(c.Fill)
		if rapid.IntRange(0, 24).Draw(t, "badrange") == 0 {
			c.A, c.B = 5, 2
		}
	case "GetEntryAndProof":
		c.Entries = []EntrySpec{genEntrySpec(t, "e0", 2)}
		c.A, c.B = rapid.Uint64Range(0, 100).Draw(t, "index"), rapid.Uint64Range(0, 200).Draw(t, "tsize")
	case "GetAcceptedRoots":
		c.Temporal = rapid.IntRange(0, 3).Draw(t, "temporal") == 0
	default:
		c.A, c.B = rapid.Uint64Range(0, 100).Draw(t, "a"), rapid.Uint64Range(0, 1<<40).Draw(t, "b")
	}
	n := rapid.SampledFrom([]int{1, 1, 1, 1, 1, 1, 1, 2, 2, 3}).Draw(t, "script")
	for i := 0; i < n; i++ {
		var r Resp
		if i < n-1 {
			r.Muts = append(r.Muts, genStep(t, c.Method))
		}
		k := rapid.SampledFrom([]int{0, 0, 1, 1, 1, 1, 1, 2, 2, 2, 3, 3}).Draw(t, "nmuts")
		for len(r.Muts) < k {
			r.Muts = append(r.Muts, genMut(t, c.Method))
		}
		c.Script = append(c.Script, r)
	}
	return c
}

// ---------------------------------------------------------------------------------------------
// scripted round tripper

type served struct {
	b      *built
	method string
	path   string
}

type scriptRT struct {
	mu     sync.Mutex
	script []*built
	n      int
	log    []served
	cancel context.CancelFunc
}

const attemptCap = 400

type failingBody struct {
	r   io.Reader
	err error
}

func (f *failingBody) Read(p []byte) (int, error) {
	n, err := f.r.Read(p)
	if err == io.EOF {
		return n, f.err
	}
	return n, err
}
func (f *failingBody) Close() error { return nil }

var errScripted = errors.New("scripted network error: connection reset by peer")
var errBody = errors.New("scripted body error: unexpected EOF")

func (rt *scriptRT) RoundTrip(req *http.Request) (*http.Response, error) {
	if req.Body != nil {
		io.Copy(io.Discard, req.Body)
		req.Body.Close()
	}
	if err := req.Context().Err(); err != nil {
		return nil, err
	}
	rt.mu.Lock()
	i := rt.n
	rt.n++
	if i >= len(rt.script) {
		i = len(rt.script) - 1
	}
	b := rt.script[i]
	rt.log = append(rt.log, served{b: b, method: req.Method, path: req.URL.Path})
	over := rt.n > attemptCap
	rt.mu.Unlock()
	if over {
		rt.cancel() // counter-driven stop; never reached by the generated scripts
		return nil, context.Canceled
	}
	if b.NetErr {
		return nil, errScripted
	}
	h := http.Header{}
	for k, v := range b.Header {
		h.Set(k, v)
	}
	if b.Location != "" {
		h.Set("Location", b.Location)
	}
	var body io.ReadCloser = io.NopCloser(bytes.NewReader(b.Body))
	if b.ReadErr {
		body = &failingBody{r: bytes.NewReader(b.Body[:b.ReadAt]), err: errBody}
	}
	return &http.Response{
		Status: fmt.Sprintf("%d %s", b.Status, http.StatusText(b.Status)), StatusCode: b.Status,
		Proto: "HTTP/1.1", ProtoMajor: 1, ProtoMinor: 1,
		Header: h, Body: body, ContentLength: b.CL, Request: req,
	}, nil
}

type nopLogger struct{}

func (nopLogger) Printf(string, ...interface{}) {}

// ---------------------------------------------------------------------------------------------
// the call

type outcome struct {
	err      error
	panicked any
	nilValue bool
	sth      *ct.SignedTreeHead
	sct      *ct.SignedCertificateTimestamp
	hashes   [][]byte
	proof    *ct.GetProofByHashResponse
	raw      *ct.GetEntriesResponse
	entries  []ct.LogEntry
	eap      *ct.GetEntryAndProofResponse
	roots    []ct.ASN1Cert
}

func asn1Chain(ders [][]byte) []ct.ASN1Cert {
	out := make([]ct.ASN1Cert, len(ders))
	for i, d := range ders {
		out[i] = ct.ASN1Cert{Data: d}
	}
	return out
}

const logURI = "http://log.example/prefix"

func keyOptClass(keyPEM int, noDER bool) string {
	switch {
	case noDER:
		return "keyopt:pem-only"
	case keyPEM == 1:
		return "keyopt:pem+der-same"
	case keyPEM == 2:
		return "keyopt:pem-decoy+der"
	}
	return "keyopt:der-only"
}

type clients struct {
	lc    *client.LogClient
	adder client.AddLogClient
}

// newClients builds the client(s) under test: they hold the log key.
func newClients(s *scene, rt *scriptRT) clients {
	hc := &http.Client{Transport: rt}
	pemOf := func(which int) string {
		switch which {
		case 1:
			return string(pem.EncodeToMemory(&pem.Block{Type: "PUBLIC KEY", Bytes: s.key.SPKI}))
		case 2:
			return string(pem.EncodeToMemory(&pem.Block{Type: "PUBLIC KEY", Bytes: s.decoyKey().SPKI}))
		}
		return ""
	}
	derOf := func(which int) []byte {
		switch which {
		case 1:
			return s.key.SPKI
		case 2:
			return s.decoyKey().SPKI
		}
		return nil
	}
	// other clients of the same process, built first from overlapping key material
	for _, sb := range s.c.Siblings {
		if _, err := client.New("http://sibling.example/log", hc, jsonclient.Options{PublicKey: pemOf(sb.PEM), PublicKeyDER: derOf(sb.DER), Logger: nopLogger{}}); err != nil {
			panic(fmt.Sprintf("harness: sibling client.New: %v", err))
		}
	}
	// PublicKeyDER takes precedence over PublicKey (documented on Options.ParsePublicKey): in every
	// combination generated the client under test is configured with s.key.
	opts := jsonclient.Options{PublicKey: pemOf(s.c.KeyPEM), PublicKeyDER: s.key.SPKI, Logger: nopLogger{}}
	if s.c.NoDER {
		opts.PublicKey, opts.PublicKeyDER = pemOf(1), nil
	}
	lc, err := client.New(logURI, hc, opts)
	if err != nil {
		panic(fmt.Sprintf("harness: client.New: %v", err))
	}
	if lc.Verifier == nil {
		panic("harness: client holds no verifier")
	}
	cl := clients{lc: lc, adder: lc}
	if s.c.Temporal {
		tlc, err := client.NewTemporalLogClient(&configpb.TemporalLogConfig{Shard: []*configpb.LogShardConfig{{Uri: logURI, PublicKeyDer: s.key.SPKI}}}, hc)
		if err != nil {
			panic(fmt.Sprintf("harness: NewTemporalLogClient: %v", err))
		}
		cl.adder = tlc
	}
	return cl
}

func doCall(ctx context.Context, s *scene, cl clients) (o outcome) {
	defer func() {
		if r := recover(); r != nil {
			o.panicked = r
		}
	}()
	c := s.c
	lc, adder := cl.lc, cl.adder
	switch c.Method {
	case "GetSTH":
		o.sth, o.err = lc.GetSTH(ctx)
		o.nilValue = o.sth == nil
	case "AddChain", "AddPreChain":
		cctx, cancel := context.WithTimeout(ctx, time.Duration(c.DeadlineS)*time.Second)
		defer cancel()
		submit := asn1Chain(s.submission())
		if c.EmptyChain {
			submit = nil
		}
		if c.Method == "AddChain" {
			o.sct, o.err = adder.AddChain(cctx, submit)
		} else {
			o.sct, o.err = adder.AddPreChain(cctx, submit)
		}
		o.nilValue = o.sct == nil
	case "GetSTHConsistency":
		o.hashes, o.err = lc.GetSTHConsistency(ctx, c.A, c.B)
		o.nilValue = o.hashes == nil
	case "GetProofByHash":
		h := hash32(c.Seed, 99)
		o.proof, o.err = lc.GetProofByHash(ctx, h[:], c.B)
		o.nilValue = o.proof == nil
	case "GetRawEntries":
		o.raw, o.err = lc.GetRawEntries(ctx, int64(c.A), int64(c.B))
		o.nilValue = o.raw == nil
	case "GetEntries":
		o.entries, o.err = lc.GetEntries(ctx, int64(c.A), int64(c.B))
		o.nilValue = o.entries == nil
	case "GetEntryAndProof":
		o.eap, o.err = lc.GetEntryAndProof(ctx, c.A, c.B)
		o.nilValue = o.eap == nil
	case "GetAcceptedRoots":
		o.roots, o.err = adder.GetAcceptedRoots(ctx)
		o.nilValue = o.roots == nil
	}
	return o
}

// ---------------------------------------------------------------------------------------------
// mirrors of the RFC 6962 s4 JSON messages (field names from the RFC), decoded with encoding/json

type mSTH struct {
	TreeSize  uint64 `json:"tree_size"`
	Timestamp uint64 `json:"timestamp"`
	Root      []byte `json:"sha256_root_hash"`
	Sig       []byte `json:"tree_head_signature"`
}

type mSCT struct {
	Version    uint64 `json:"sct_version"`
	ID         []byte `json:"id"`
	Timestamp  uint64 `json:"timestamp"`
	Extensions string `json:"extensions"`
	Signature  []byte `json:"signature"`
}

type mConsistency struct {
	Consistency [][]byte `json:"consistency"`
}

type mProof struct {
	LeafIndex int64    `json:"leaf_index"`
	AuditPath [][]byte `json:"audit_path"`
}

type mLeaf struct {
	LeafInput []byte `json:"leaf_input"`
	ExtraData []byte `json:"extra_data"`
}

type mEntries struct {
	Entries []mLeaf `json:"entries"`
}

type mEntryAndProof struct {
	LeafInput []byte   `json:"leaf_input"`
	ExtraData []byte   `json:"extra_data"`
	AuditPath [][]byte `json:"audit_path"`
}

type mRoots struct {
	Certificates []string `json:"certificates"`
}

// jsonState classifies a body: "ok" (one JSON value, nothing but white space after it), "trailing"
// (a decodable value followed by something else), "bad".
func jsonState(body []byte, into any) string {
	if json.Unmarshal(body, into) == nil {
		return "ok"
	}
	dec := json.NewDecoder(bytes.NewReader(body))
	if dec.Decode(into) == nil {
		return "trailing"
	}
	return "bad"
}

// ---------------------------------------------------------------------------------------------
// oracle

func checkClient(t *testing.T, c Case) (v harness.Verdict) {
	ct.AllowVerificationWithNonCompliantKeys = c.KeyKind == "p384" || c.KeyKind == "p521" || c.KeyKind == "rsa1024"
	defer func() { ct.AllowVerificationWithNonCompliantKeys = false }()
	harness.SetKlogVerbosity(c.KlogV)
	defer harness.SetKlogVerbosity(0)
	s := newScene(c)
	v.Class("key:"+c.KeyKind, fmt.Sprintf("klog-v:%d", c.KlogV))
	rt := &scriptRT{}
	nm := 0
	for i, r := range c.Script {
		rt.script = append(rt.script, s.build(r, i == len(c.Script)-1))
		nm += len(r.Muts)
		for _, m := range r.Muts {
			v.Class("mut:" + m.Kind)
		}
	}
	for _, e := range c.Entries {
		nm += len(e.Muts)
		if e.Base != "world" {
			nm++
		}
	}
	v.Class("method:" + c.Method)
	if c.Temporal {
		v.Class("via-temporal-client")
	}
	v.Class(keyOptClass(c.KeyPEM, c.NoDER), fmt.Sprintf("siblings:%d", len(c.Siblings)))
	if c.Fill > 0 {
		v.Class("getentries:big-batch", fmt.Sprintf("getentries:count%%4=%d", len(s.entries)%4))
	}
	if c.Rekey {
		v.Class("rekeyed-issuer")
	}
	for _, e := range c.ChainEdits {
		v.Class("chain-edit:" + e.Kind)
		nm++
	}
	if c.EmptyChain {
		v.Class("empty-chain")
		nm++
	}
	if c.Method == "GetRawEntries" || c.Method == "GetEntries" {
		if int64(c.B) < int64(c.A) {
			v.Class("bad-range-argument")
			nm++
		}
	}
	v.NonTrivial = nm >= 1

	var out outcome
	var cl clients
	res := vt.Run(t, 12*time.Hour, func(ctx context.Context) {
		cctx, cancel := context.WithCancel(ctx)
		defer cancel()
		rt.cancel = cancel
		if p := recovered(func() { cl = newClients(s, rt) }); p != nil {
			out.panicked = p
			return
		}
		out = doCall(cctx, s, cl)
	})
	if res.TimedOut {
		v.Failf("no-return", "%s did not return within 12 h of virtual time (caller deadline %d s)", c.Method, c.DeadlineS)
		return v
	}
	judgeOutcome(t, &v, s, out, rt.log, rt.n > attemptCap, nm)
	return v
}

// judgeOutcome is the per-call oracle: s describes the call and its truthful answer, log what the round
// tripper served during the call, nm the number of mutations (0 = everything truthful).
func judgeOutcome(t *testing.T, v *harness.Verdict, s *scene, out outcome, log []served, capHit bool, nm int) {
	c := s.c
	if out.panicked != nil {
		if ps, ok := out.panicked.(string); ok && strings.HasPrefix(ps, "harness:") {
			t.Fatalf("%s", ps)
		}
		if c.EmptyChain && c.Method == "AddChain" && len(log) > 0 && log[len(log)-1].b.Status == 200 {
			v.Failf("addchain-empty-chain-panic", "AddChain with an empty chain panicked once the server answered %d: %v", log[len(log)-1].b.Status, out.panicked)
			return
		}
		v.Failf("client-panic", "%s panicked: %v", c.Method, out.panicked)
		return
	}
	if len(log) > 1 {
		v.Class("multi-attempt")
	}
	if capHit {
		v.Class("attempt-cap")
	}
	var last *built
	if len(log) > 0 {
		last = log[len(log)-1].b
	}

	if out.err != nil {
		v.Class("outcome:error", "error:"+c.Method)
		if nm == 0 {
			v.Class("truthful-refused:" + c.Method)
			if os.Getenv("C12_DEBUG") != "" {
				fmt.Fprintf(os.Stderr, "TRUTHFUL-REFUSED %s A=%d B=%d: %v\n", c.Method, c.A, c.B, out.err)
			}
		}
		if !out.nilValue {
			v.Failf("value-with-error", "%s returned a non-nil value together with the error %v", c.Method, out.err)
		}
		if last == nil || last.NetErr {
			v.Class("error:no-response")
			return
		}
		if !s.isFinal(last) || (retrying(c.Method) && log[len(log)-1].method != http.MethodPost) {
			v.Class("error:after-retryable")
			return
		}
		var re jsonclient.RspError
		if !errors.As(out.err, &re) {
			var probe mEntries
			if c.Method == "GetEntries" && last.Status == 200 && !last.ReadErr && jsonState(last.Body, &probe) != "bad" {
				v.Failf("getentries-plain-error", "GetEntries got 200 with %d entries of which one does not decode, and returned a plain %T (%v) instead of an RspError carrying status and body", len(probe.Entries), out.err, out.err)
			} else {
				v.Failf("plain-error", "%s was answered %d with %d body bytes but returned %T (%v), not an RspError", c.Method, last.Status, len(last.delivered()), out.err, out.err)
			}
			return
		}
		v.Class("error:rsperror")
		if re.StatusCode != last.Status || !bytes.Equal(re.Body, last.delivered()) {
			v.Failf("rsperror-mismatch", "%s was answered %d / %q but the RspError carries %d / %q", c.Method, last.Status, head(last.delivered(), 80), re.StatusCode, head(re.Body, 80))
		}
		if re.Err == nil {
			v.Failf("rsperror-empty", "%s returned an RspError without a cause", c.Method)
		}
		return
	}

	// success
	v.Class("outcome:success", "success:"+c.Method)
	if nm == 0 {
		v.Class("truthful-accepted")
	}
	if last == nil || last.NetErr {
		v.Failf("success-without-response", "%s succeeded although no response was delivered", c.Method)
		return
	}
	if last.Status != 200 {
		v.Failf("non-200-accepted", "%s succeeded on status %d", c.Method, last.Status)
		return
	}
	if last.ReadErr {
		v.Failf("partial-body-accepted", "%s succeeded although the body broke after %d bytes", c.Method, last.ReadAt)
		return
	}
	body := last.Body
	okJSON := func(into any) bool {
		switch jsonState(body, into) {
		case "ok":
			return true
		case "trailing":
			v.Class("json-trailing-accepted")
			v.Failf("get-json-trailing-data-accepted", "%s succeeded on a body that continues after the JSON value: ...%q", c.Method, tail(body, 24))
			return true // go on judging the value against the decodable prefix
		}
		v.Failf("malformed-json-accepted", "%s succeeded on a body that is not JSON for the message: %q", c.Method, head(body, 80))
		return false
	}
	switch c.Method {
	case "GetSTH":
		var m mSTH
		if !okJSON(&m) {
			return
		}
		s.judgeSTH(v, out.sth, m)
	case "AddChain", "AddPreChain":
		var m mSCT
		if !okJSON(&m) {
			return
		}
		s.judgeSCT(v, out.sct, m)
	case "GetSTHConsistency":
		var m mConsistency
		if okJSON(&m) && !eqList(out.hashes, m.Consistency) {
			v.Failf("value-mismatch:GetSTHConsistency", "returned %d nodes, body holds %d", len(out.hashes), len(m.Consistency))
		}
	case "GetProofByHash":
		var m mProof
		if okJSON(&m) && (out.proof.LeafIndex != m.LeafIndex || !eqList(out.proof.AuditPath, m.AuditPath)) {
			v.Failf("value-mismatch:GetProofByHash", "returned index %d / %d nodes, body holds %d / %d", out.proof.LeafIndex, len(out.proof.AuditPath), m.LeafIndex, len(m.AuditPath))
		}
	case "GetRawEntries":
		var m mEntries
		if okJSON(&m) {
			same := len(out.raw.Entries) == len(m.Entries)
			for i := 0; same && i < len(m.Entries); i++ {
				same = eqB(out.raw.Entries[i].LeafInput, m.Entries[i].LeafInput) && eqB(out.raw.Entries[i].ExtraData, m.Entries[i].ExtraData)
			}
			if !same {
				v.Failf("value-mismatch:GetRawEntries", "returned entries differ from the body (%d vs %d)", len(out.raw.Entries), len(m.Entries))
			}
		}
	case "GetEntryAndProof":
		var m mEntryAndProof
		if okJSON(&m) && (!eqB(out.eap.LeafInput, m.LeafInput) || !eqB(out.eap.ExtraData, m.ExtraData) || !eqList(out.eap.AuditPath, m.AuditPath)) {
			v.Failf("value-mismatch:GetEntryAndProof", "returned entry / proof differ from the body")
		}
	case "GetAcceptedRoots":
		var m mRoots
		if okJSON(&m) {
			var want [][]byte
			for _, c64 := range m.Certificates {
				der, err := base64.StdEncoding.DecodeString(c64)
				if err != nil {
					v.Failf("roots-bad-base64-accepted", "GetAcceptedRoots succeeded although certificate %q is not base64", head([]byte(c64), 40))
					return
				}
				want = append(want, der)
			}
			if c.Temporal {
				// the temporal client documents the union over its shards: duplicates are dropped
				seen := map[string]bool{}
				var uniq [][]byte
				for _, w := range want {
					if !seen[string(w)] {
						seen[string(w)] = true
						uniq = append(uniq, w)
					}
				}
				want = uniq
			}
			if !eqList(certsData(out.roots), want) {
				v.Failf("value-mismatch:GetAcceptedRoots", "returned %d roots, body holds %d", len(out.roots), len(want))
			}
		}
	case "GetEntries":
		var m mEntries
		if okJSON(&m) {
			if len(out.entries) != len(m.Entries) {
				v.Failf("value-mismatch:GetEntries", "returned %d entries, body holds %d", len(out.entries), len(m.Entries))
				return
			}
			for i, e := range m.Entries {
				r := refDecodeEntry(e.LeafInput, e.ExtraData)
				idx := int64(c.A) + int64(i)
				switch {
				case r.lenient:
					v.Class("getentries:version!=0")
				case !r.ok:
					v.Failf("getentries-accepts-invalid", "GetEntries returned an entry for leaf_input %x... / extra_data %x...: %s", head(e.LeafInput, 24), head(e.ExtraData, 24), r.why)
				case r.fatal:
					v.Failf("getentries-accepts-unparsable-cert", "GetEntries returned entry %d although its certificate does not parse: %v", i, r.certErr)
				default:
					if why := logEntryMatches(&out.entries[i], r, e.LeafInput, idx); why != "" {
						v.Failf("getentries-inconsistent", "GetEntries entry %d: %s", i, why)
					}
				}
			}
		}
	}
}

func tail(b []byte, n int) []byte {
	if len(b) > n {
		return b[len(b)-n:]
	}
	return b
}

// isFinal: was this answer handed to the client code as the final word on the call? For the plain GET
// methods every delivered response is. For the retrying submissions the retry rule of the client (C13's
// subject) decides: 408 / 429 / 503, a 200 whose body does not parse, a broken body and a redirect that
// turns the POST into a GET (whatever the target then answers) are retried, so the call can also end on
// the caller's deadline.
func (s *scene) isFinal(b *built) bool {
	if b.NetErr || b.followedRedirect() {
		return false
	}
	if !retrying(s.c.Method) {
		return true
	}
	if b.ReadErr {
		return false
	}
	switch b.Status {
	case 408, 429, 503:
		return false
	case 200:
		var m struct {
			Version    uint64 `json:"sct_version"`
			ID         []byte `json:"id"`
			Timestamp  uint64 `json:"timestamp"`
			Extensions string `json:"extensions"`
			Signature  []byte `json:"signature"`
		}
		return json.Unmarshal(b.Body, &m) == nil
	}
	return true
}

func (s *scene) judgeSTH(v *harness.Verdict, sth *ct.SignedTreeHead, m mSTH) {
	if sth == nil {
		v.Failf("nil-success", "GetSTH returned (nil, nil)")
		return
	}
	if len(m.Root) != 32 {
		v.Failf("sth-root-length-accepted", "GetSTH succeeded on a root hash of %d bytes", len(m.Root))
	}
	ds, rest, err := rfc6962.DecodeDS(m.Sig)
	switch {
	case err != nil:
		v.Failf("sth-bad-signature-encoding-accepted", "GetSTH succeeded although tree_head_signature is no DigitallySigned: %v", err)
	case len(rest) != 0:
		v.Failf("sth-trailing-data-accepted", "GetSTH succeeded although %d bytes follow the DigitallySigned", len(rest))
	}
	got := sth.TreeHeadSignature
	if sth.Version != 0 || sth.TreeSize != m.TreeSize || sth.Timestamp != m.Timestamp || (len(m.Root) == 32 && !bytes.Equal(sth.SHA256RootHash[:], m.Root)) ||
		(err == nil && (uint8(got.Algorithm.Hash) != ds.Hash || uint8(got.Algorithm.Signature) != ds.Sig || !eqB(got.Signature, ds.Signature))) {
		v.Failf("sth-value-mismatch", "GetSTH returned %+v, body says size %d timestamp %d root %x", sth, m.TreeSize, m.Timestamp, m.Root)
	}
	in, _ := rfc6962.STHSignatureInput(0, sth.Timestamp, sth.TreeSize, [32]byte(sth.SHA256RootHash))
	if !refVerify(s.key.Pub, uint8(got.Algorithm.Hash), uint8(got.Algorithm.Signature), got.Signature, in) {
		v.Failf("sth-unverified", "GetSTH returned an STH (size %d, timestamp %d, alg %d/%d) whose signature does not verify under the configured %s key", sth.TreeSize, sth.Timestamp, got.Algorithm.Hash, got.Algorithm.Signature, s.key.Kind)
	}
	if sth.Timestamp == 0 {
		v.Class("success:sth-timestamp-0")
	}
}

func (s *scene) judgeSCT(v *harness.Verdict, sct *ct.SignedCertificateTimestamp, m mSCT) {
	c := s.c
	if sct == nil {
		v.Failf("nil-success", "%s returned (nil, nil)", c.Method)
		return
	}
	if c.EmptyChain {
		v.Failf("sct-unverified", "%s returned an SCT for an empty chain", c.Method)
		return
	}
	// The id is not covered by the signature. Handing back another id, or accepting a response whose id
	// is present but is not exactly the hash of the configured key (31 / 33 bytes sharing its prefix), is
	// the same missing comparison. A response without any id (absent, null, "") is indistinguishable from
	// an empty one after JSON decoding; the statement is silent on it as long as the SCT handed back
	// carries the right id, so that is only counted.
	if sct.LogID.KeyID != s.logID || (len(m.ID) > 0 && !bytes.Equal(m.ID, s.logID[:])) {
		v.Failf("sct-logid-unchecked", "%s returned an SCT with log id %x (response id: %d bytes %x); the configured key's id is %x", c.Method, sct.LogID.KeyID[:8], len(m.ID), head(m.ID, 8), s.logID[:8])
	} else if len(m.ID) == 0 {
		v.Class("success:sct-id-absent-filled-in")
	}
	if sct.SCTVersion != 0 || m.Version != 0 {
		v.Failf("sct-version-accepted", "%s returned an SCT of version %d (response: %d)", c.Method, sct.SCTVersion, m.Version)
	}
	ext, xerr := base64.StdEncoding.DecodeString(m.Extensions)
	if xerr != nil {
		v.Failf("sct-bad-extensions-accepted", "%s succeeded although extensions %q is not base64", c.Method, m.Extensions)
	}
	ds, rest, err := rfc6962.DecodeDS(m.Signature)
	switch {
	case err != nil:
		v.Failf("sct-bad-signature-encoding-accepted", "%s succeeded although signature is no DigitallySigned: %v", c.Method, err)
	case len(rest) != 0:
		v.Failf("sct-trailing-data-accepted", "%s succeeded although %d bytes follow the DigitallySigned", c.Method, len(rest))
	}
	got := sct.Signature
	if sct.Timestamp != m.Timestamp || (xerr == nil && !eqB(sct.Extensions, ext)) ||
		(err == nil && (uint8(got.Algorithm.Hash) != ds.Hash || uint8(got.Algorithm.Signature) != ds.Sig || !eqB(got.Signature, ds.Signature))) {
		v.Failf("sct-value-mismatch", "%s returned timestamp %d ext %x, body says %d / %q", c.Method, sct.Timestamp, sct.Extensions, m.Timestamp, m.Extensions)
	}
	if len(sct.Extensions) > 0xffff {
		v.Failf("sct-unverified", "extensions longer than 65535 bytes")
		return
	}
	entry, why := s.expectedEntry()
	if why != "" {
		v.Failf("sct-unverified", "%s returned an SCT although %s: no entry exists that it could verify for", c.Method, why)
		return
	}
	in, ierr := rfc6962.SCTSignatureInput(0, sct.Timestamp, entry, sct.Extensions)
	if ierr != nil {
		panic(ierr)
	}
	if !refVerify(s.key.Pub, uint8(got.Algorithm.Hash), uint8(got.Algorithm.Signature), got.Signature, in) {
		v.Failf("sct-unverified", "%s returned an SCT (timestamp %d, ext %x, alg %d/%d) whose signature does not verify for the submitted chain and entry type under the configured %s key", c.Method, sct.Timestamp, sct.Extensions, got.Algorithm.Hash, got.Algorithm.Signature, s.key.Kind)
	}
	if len(sct.Extensions) == 0 {
		v.Class("success:sct-no-extensions")
	} else {
		v.Class("success:sct-extensions")
	}
}

// Client is the client half of C12.
var Client = harness.Define(harness.Opts{
	Name:  "client",
	Rule:  "one call of one LogClient method (GetSTH, AddChain, AddPreChain - a quarter of the submissions and get-roots through a one-shard TemporalLogClient -, GetSTHConsistency, GetProofByHash, GetRawEntries, GetEntries, GetEntryAndProof, GetAcceptedRoots) by a client given its key as PublicKeyDER, as PEM PublicKey, as both, or as DER under the PEM of a decoy key (DER has precedence), with 0-2 other clients built before it in the same process from the same two keys, holding a P-256 / RSA-2048 / RSA-3072 log key (or, with AllowVerificationWithNonCompliantKeys, P-384 / P-521 / RSA-1024), against a scripted round tripper serving 1-3 answers (the last repeats); each answer is the truthful one (signed with the pool key over internal/rfc6962 inputs; chains and entries from internal/world) under 0-3 mutations (status 0..1000, body read error, network error, odd headers, Content-Length 0 / short / long / 2^31 / 2^48 / 2^50 / 2^62 / 2^63-1 / invalid modelled as net/http delivers it, redirects, body replaced / truncated / extended, JSON fields dropped / wrongly typed / duplicated / re-cased / with broken base64, root hash or id of 0/31/33 bytes, foreign / decoy-key / flipped / empty signature, DigitallySigned truncated or followed by bytes, algorithm octets relabelled, other hash, timestamp / size / root / extensions changed after signing, signed version or signature type changed, SCT for another certificate / the other entry type, foreign or zero log id, sct_version != 0, undecodable entries, error bodies of 513-1700 octets, get-entries replies of 60-263 entries). A sixth of the submissions hand in a chain whose elements are not one certificate each (a second certificate inside an element, two elements merged, one split, empty elements); the klog -v level is 0, 1, 2 or 5. Runs under virtual time; submissions carry a virtual deadline. Non-trivial: >= 1 mutation",
	Quick: 8000, Thorough: 20000,
	// a panic in a goroutine the client starts itself (TemporalLogClient.GetAcceptedRoots) cannot be recovered:
	// every case is persisted before it runs so that the driver can attribute the abort
	Crashy: true,
}, genCase, checkClient)
