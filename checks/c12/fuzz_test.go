package c12

import (
	"crypto/sha256"
	"encoding/pem"
	"os"
	"path/filepath"
	"strings"
	"testing"

	cttestdata "github.com/google/certificate-transparency-go/testdata"

	"verif/internal/harness"
	"verif/internal/preref"
	"verif/internal/rfc6962"
)

func pemCerts(text []byte) (out [][]byte) {
	for {
		var blk *pem.Block
		blk, text = pem.Decode(text)
		if blk == nil {
			return out
		}
		if blk.Type == "CERTIFICATE" {
			out = append(out, blk.Bytes)
		}
	}
}

// seedEntries builds well-formed (leaf_input, extra_data) pairs around the certificates of the
// repository's testdata with the reference encoder, plus a few hostile constants.
func seedEntries(f *testing.F) {
	repo := os.Getenv("VERIF_REPO")
	if repo == "" {
		repo = "/repo"
	}
	var ders [][]byte
	files, _ := filepath.Glob(filepath.Join(repo, "trillian", "testdata", "*.cert"))
	chains, _ := filepath.Glob(filepath.Join(repo, "trillian", "testdata", "*.chain"))
	for _, fn := range append(files, chains...) {
		if b, err := os.ReadFile(fn); err == nil {
			ders = append(ders, pemCerts(b)...)
		}
	}
	for _, s := range []string{cttestdata.CACertPEM, cttestdata.TestCertPEM, cttestdata.TestPreCertPEM, cttestdata.TestEmbeddedCertPEM} {
		ders = append(ders, pemCerts([]byte(s))...)
	}
	if len(ders) > 16 {
		ders = ders[:16]
	}
	for i, der := range ders {
		issuer := ders[(i+1)%len(ders)]
		if leaf, err := rfc6962.EncodeLeaf(rfc6962.Leaf{Timestamp: uint64(1400000000000 + i), Entry: rfc6962.Entry{Type: rfc6962.X509Entry, Cert: der}}); err == nil {
			if extra, err := rfc6962.EncodeChain([][]byte{issuer}); err == nil {
				f.Add(leaf, extra, int64(i))
				f.Add(leaf, []byte{0, 0, 0}, int64(-1))
				f.Add(leaf, rawVector([][]byte{{}}), int64(i))         // a chain of one zero-length certificate
				f.Add(leaf, rawVector([][]byte{issuer, {}}), int64(i)) // ... or one after a real certificate
			}
		}
		func() {
			defer func() { recover() }() // a testdata blob the TLV reader cannot split is simply not a seed
			tbs := preref.TBSOf(der)
			if len(tbs) == 0 {
				return
			}
			leaf, err := rfc6962.EncodeLeaf(rfc6962.Leaf{Timestamp: 1, Entry: rfc6962.Entry{Type: rfc6962.PrecertEntry, TBS: tbs, IssuerKeyHash: sha256.Sum256(preref.SPKIOf(issuer))}, Extensions: []byte{1, 2}})
			if err != nil {
				return
			}
			if extra, err := rfc6962.EncodePrecertChainEntry(der, [][]byte{issuer}); err == nil {
				f.Add(leaf, extra, int64(1)<<40)
			}
			// a certificate only the relaxed ASN.1 rules accept, alone and followed by a stray byte
			lax := laxify(der, false, 1+i%3)
			for _, c := range [][]byte{lax, append(clone(lax), 0)} {
				if l2, err := rfc6962.EncodeLeaf(rfc6962.Leaf{Timestamp: 2, Entry: rfc6962.Entry{Type: rfc6962.X509Entry, Cert: c}}); err == nil {
					f.Add(l2, []byte{0, 0, 0}, int64(i))
				}
			}
		}()
	}
	f.Add([]byte{}, []byte{}, int64(0))
	f.Add([]byte{0, 0, 0, 0, 0, 0, 0, 0, 0, 0, 0x80, 0, 0, 0, 1, 'x', 0, 0}, []byte{0, 0, 0}, int64(3))
	f.Add([]byte{0, 0, 0, 0, 0, 0, 0, 0, 0, 0, 0, 0, 0, 0, 0, 0, 0}, []byte{0, 0, 0}, int64(3))
	f.Add([]byte{1, 0, 0, 0, 0, 0, 0, 0, 0, 0, 0, 0, 0, 0, 1, 0x30, 0, 0}, []byte{0, 0, 3, 0, 0, 0}, int64(9))
}

// FuzzEntryDecoder: ct.RawLogEntryFromLeaf / ct.LogEntryFromLeaf are total and never return an entry
// inconsistent with (leaf_input, extra_data); the oracle (judgeEntry) is the one the rapid property uses.
func FuzzEntryDecoder(f *testing.F) {
	harness.SilenceKlog()
	seedEntries(f)
	f.Fuzz(func(t *testing.T, leaf, extra []byte, index int64) {
		if len(leaf) > 1<<16 || len(extra) > 1<<16 {
			return
		}
		var v harness.Verdict
		judgeEntry(&v, leaf, extra, index)
		if len(v.Violations) > 0 {
			var sb strings.Builder
			for _, x := range v.Violations {
				sb.WriteString("[" + x.Sig + "] " + x.Msg + "\n")
			}
			t.Fatalf("C12 entry decoder: %s", sb.String())
		}
	})
}
