package c12

import (
	"testing"

	"github.com/google/certificate-transparency-go/x509"
	"verif/internal/world"
)

func TestTmpLax(t *testing.T) {
	b := world.Build(world.ChainSpec{ID: 5, LeafKind: "p256", Precert: true, Inters: []string{"p256"}})
	for shape := 0; shape <= 3; shape++ {
		c := laxify(b.Leaf.DER, false, shape)
		_, err := x509.ParseCertificate(c)
		_, err2 := x509.ParseCertificate(append(c, 7))
		tb := laxify(b.Entry().TBS, true, shape)
		_, err3 := x509.ParseTBSCertificate(tb)
		_, err4 := x509.ParseTBSCertificate(append(tb, 7))
		t.Logf("shape %d: cert err=%v fatal=%v | +stray fatal=%v | tbs err=%v fatal=%v | +stray fatal=%v", shape, err, x509.IsFatal(err), x509.IsFatal(err2), err3, x509.IsFatal(err3), x509.IsFatal(err4))
	}
}
