package c12

import (
	"bytes"
	"crypto"
	"crypto/ecdsa"
	"crypto/ed25519"
	"crypto/md5"
	"crypto/rand"
	"crypto/rsa"
	"crypto/sha1"
	"crypto/sha256"
	"crypto/sha512"
	"encoding/base64"
	"encoding/binary"
	"encoding/json"
	"fmt"
	"hash"
	"strconv"
	"strings"

	"verif/internal/derx"
	"verif/internal/keys"
	"verif/internal/pki"
	"verif/internal/rfc6962"
	"verif/internal/world"
)

// Mut is one mutation of a truthful response. N and M are operands whose meaning depends on Kind.
type Mut struct {
	Kind string
	N    int
	M    int
}

// Resp is one scripted answer: the truthful response for the call under 0-3 mutations.
type Resp struct {
	Muts []Mut
}

// Case is one call of one client method against a scripted server.
type Case struct {
	Method     string
	KeyKind    string
	KeyIdx     int
	Temporal   bool // AddChain / AddPreChain / GetAcceptedRoots through a one-shard TemporalLogClient
	EmptyChain bool // the caller submits no certificate at all
	// How the client is given its key, and which other clients exist in the process before it.
	// KeyPEM: 0 = Options.PublicKey unset, 1 = PEM of the log key, 2 = PEM of the decoy key (only together
	// with PublicKeyDER, which takes precedence by the documented rule). NoDER: PublicKeyDER unset (then KeyPEM is 1).
	KeyPEM     int
	NoDER      bool
	DecoyIdx   int             // the decoy key: same kind as the log key, another pool entry
	Siblings   []Sibling       // clients built in the same process before the client under test
	Fill       int             // get-entries: pad the reply to about this many entries with copies of a small well-formed entry
	FillPos    int             // where the generated entries sit among the padding: 0 = at the end, 1 = at the start, 2 = in the middle
	Rekey      bool            // submissions: the final issuer certificate of the chain is replaced by one with the same subject and another key
	KlogV      int             // the process-wide klog -v level while the call runs (0 = default)
	ChainEdits []ChainEdit     // submissions: the caller's chain elements are not one certificate each
	Chain      world.ChainSpec // the submission
	Other      world.ChainSpec // "another certificate"
	Entries    []EntrySpec     // get-entries / get-entry-and-proof payload
	Timestamp  uint64
	TreeSize   uint64
	Seed       uint32 // root hash and proof nodes derive from it
	Ext        []byte // SCT extensions
	NHashes    int
	A, B       uint64 // call arguments
	Script     []Resp // served in order; the last one repeats for ever
	DeadlineS  int    // caller deadline (virtual seconds) for the retrying methods
}

// ChainEdit damages the element structure of the submitted chain (the DER stream may stay the same).
// Kind: "concat" (element At is followed, inside the element, by another whole certificate), "merge"
// (elements At and At+1 become one element), "split" (element At is cut into two elements after N
// bytes), "empty-insert" (an empty element before At), "empty-replace".
type ChainEdit struct {
	Kind string
	At   int
	N    int
}

// Sibling is another client's key configuration: 0 = unset, 1 = the log key, 2 = the decoy key.
type Sibling struct {
	PEM int
	DER int
}

var methods = []string{"GetSTH", "AddChain", "AddPreChain", "GetSTHConsistency", "GetProofByHash", "GetRawEntries", "GetEntries", "GetEntryAndProof", "GetAcceptedRoots"}

func retrying(method string) bool { return method == "AddChain" || method == "AddPreChain" }

// ---------------------------------------------------------------------------------------------
// crypto helpers (standard library only)

func hashFor(code uint8) (crypto.Hash, bool) {
	switch code {
	case 1:
		return crypto.MD5, true
	case 2:
		return crypto.SHA1, true
	case 3:
		return crypto.SHA224, true
	case 4:
		return crypto.SHA256, true
	case 5:
		return crypto.SHA384, true
	case 6:
		return crypto.SHA512, true
	}
	return 0, false
}

func digest(h crypto.Hash, data []byte) []byte {
	var w hash.Hash
	switch h {
	case crypto.MD5:
		w = md5.New()
	case crypto.SHA1:
		w = sha1.New()
	case crypto.SHA224:
		w = sha256.New224()
	case crypto.SHA256:
		w = sha256.New()
	case crypto.SHA384:
		w = sha512.New384()
	case crypto.SHA512:
		w = sha512.New()
	}
	w.Write(data)
	return w.Sum(nil)
}

func sigCodeFor(k *keys.Key) uint8 {
	switch k.Pub.(type) {
	case *rsa.PublicKey:
		return 1
	case *ecdsa.PublicKey:
		return 3
	}
	return 7 // ed25519 (RFC 8422 code point; not a TLS 1.2 SignatureAlgorithm the verifier knows)
}

func signWith(k *keys.Key, hashCode uint8, data []byte) []byte {
	if _, ok := k.Pub.(ed25519.PublicKey); ok {
		s, err := k.Signer.Sign(rand.Reader, data, crypto.Hash(0))
		if err != nil {
			panic(err)
		}
		return s
	}
	h, ok := hashFor(hashCode)
	if !ok {
		h = crypto.SHA256
	}
	s, err := k.Signer.Sign(rand.Reader, digest(h, data), h)
	if err != nil {
		panic(err)
	}
	return s
}

// refVerify: does sig verify under pub over data with the algorithms the DigitallySigned names?
// Bytes after a complete ECDSA-Sig-Value are ignored (exact signature syntax is C05's subject).
func refVerify(pub crypto.PublicKey, hashCode, sigCode uint8, sig, data []byte) bool {
	h, ok := hashFor(hashCode)
	if !ok {
		return false
	}
	d := digest(h, data)
	switch p := pub.(type) {
	case *rsa.PublicKey:
		return sigCode == 1 && rsa.VerifyPKCS1v15(p, h, d, sig) == nil
	case *ecdsa.PublicKey:
		if sigCode != 3 {
			return false
		}
		if ecdsa.VerifyASN1(p, d, sig) {
			return true
		}
		if n := derTLVLen(sig); n > 0 && n < len(sig) {
			return ecdsa.VerifyASN1(p, d, sig[:n])
		}
	}
	return false
}

// derTLVLen returns the length of the first DER TLV of b (0 when it cannot be read).
func derTLVLen(b []byte) int {
	if len(b) < 2 {
		return 0
	}
	l := int(b[1])
	if l < 0x80 {
		return 2 + l
	}
	n := l & 0x7f
	if n == 0 || n > 2 || len(b) < 2+n {
		return 0
	}
	l = 0
	for _, x := range b[2 : 2+n] {
		l = l<<8 | int(x)
	}
	return 2 + n + l
}

func hash32(seed uint32, i int) [32]byte {
	var b [8]byte
	binary.BigEndian.PutUint32(b[:4], seed)
	binary.BigEndian.PutUint32(b[4:], uint32(i))
	return sha256.Sum256(b[:])
}

// ---------------------------------------------------------------------------------------------
// JSON assembly (by hand: duplicate keys, wrong types and broken base64 must be expressible)

type jf struct {
	K     string
	V     string   // raw JSON value
	Elems []string // raw JSON elements when IsArr
	IsArr bool
}

func (f jf) raw() string {
	if f.IsArr {
		return "[" + strings.Join(f.Elems, ",") + "]"
	}
	return f.V
}

func jstr(s string) string { b, _ := json.Marshal(s); return string(b) }
func jb64(b []byte) string { return jstr(base64.StdEncoding.EncodeToString(b)) }
func jnum(u uint64) string { return strconv.FormatUint(u, 10) }

func jobj(fs []jf) string {
	var sb strings.Builder
	sb.WriteByte('{')
	for i, f := range fs {
		if i > 0 {
			sb.WriteByte(',')
		}
		sb.WriteString(jstr(f.K))
		sb.WriteByte(':')
		sb.WriteString(f.raw())
	}
	sb.WriteByte('}')
	return sb.String()
}

var wrongTypes = []string{"null", `"x"`, "12", "-1", "1.5", "true", "[]", "{}", "18446744073709551616", `"12"`, "[1,2]", "1e3", `[null]`, `["!"]`, `{"a":1}`}

// breakB64 damages a raw JSON string holding base64.
func breakB64(raw string, variant int) string {
	var s string
	if json.Unmarshal([]byte(raw), &s) != nil {
		return raw
	}
	switch variant % 6 {
	case 0:
		s += "*"
	case 1:
		if len(s) > 0 {
			s = s[:len(s)-1]
		} else {
			s = "="
		}
	case 2:
		s = "-_" + s
	case 3:
		s = "%%%"
	case 4:
		s = s + "\n" // line breaks are legal inside standard base64 for Go's decoder: still the same bytes
	case 5:
		s = strings.TrimRight(s, "=") // missing padding
		if len(s)%4 == 0 {
			s += "A"
		}
	}
	return jstr(s)
}

// ---------------------------------------------------------------------------------------------
// a built (resolved) response

type built struct {
	Status   int
	Header   map[string]string
	Body     []byte
	ReadErr  bool // the body reader fails after ReadAt bytes
	ReadAt   int
	NetErr   bool  // RoundTrip itself fails
	CL       int64 // Response.ContentLength as net/http's transport would set it (-1 = not announced)
	Location string
}

// followedRedirect: net/http follows these when a Location is present.
func (b *built) followedRedirect() bool {
	switch b.Status {
	case 301, 302, 303, 307, 308:
		return b.Location != ""
	}
	return false
}

func (b *built) delivered() []byte {
	if b.ReadErr {
		return b.Body[:b.ReadAt]
	}
	return b.Body
}

// scene is everything a case resolves to before the call is made.
type scene struct {
	twin     *pki.Cert // Rekey: the certificate standing in for the final issuer (same subject, other key)
	twinAt   int       // its position in the submitted chain
	replayDS []byte    // when set, the response carries these DigitallySigned bytes (an earlier answer's) instead of a fresh signature
	lastDS   []byte    // the DigitallySigned bytes of the answer built last
	c        Case
	key      *keys.Key
	logID    [32]byte
	chain    *world.Built // submission
	other    *world.Built
	entries  [][2][]byte // (leaf_input, extra_data)
	roots    [][]byte
}

func newScene(c Case) *scene {
	s := &scene{c: c, key: keys.Pick(c.KeyKind, c.KeyIdx)}
	s.logID = sha256.Sum256(s.key.SPKI)
	if retrying(c.Method) {
		s.chain = world.Build(c.Chain)
		s.other = world.Build(c.Other)
	}
	for _, e := range c.Entries {
		l, x := buildEntry(e)
		s.entries = append(s.entries, [2][]byte{l, x})
	}
	if c.Fill > 0 && (c.Method == "GetEntries" || c.Method == "GetRawEntries") {
		l, x := buildEntry(EntrySpec{Base: "world", Spec: world.ChainSpec{ID: 4242, LeafKind: "p256"}, Timestamp: 1500000000000})
		pad := make([][2][]byte, c.Fill)
		for i := range pad {
			pad[i] = [2][]byte{l, x}
		}
		switch c.FillPos {
		case 0:
			s.entries = append(pad, s.entries...)
		case 1:
			s.entries = append(s.entries, pad...)
		default:
			s.entries = append(append(append([][2][]byte{}, pad[:c.Fill/2]...), s.entries...), pad[c.Fill/2:]...)
		}
	}
	if c.Rekey && s.chain != nil {
		s.twin, s.twinAt = rekeyedIssuer(s.chain)
	}
	if c.Method == "GetAcceptedRoots" {
		for _, r := range world.Roots() {
			s.roots = append(s.roots, r.DER)
		}
	}
	return s
}

// rekeyedIssuer issues a twin of the chain's final issuer certificate: same subject, validity and
// extensions, another key of the same kind (a re-keyed CA). It returns the twin and its chain position.
func rekeyedIssuer(b *world.Built) (*pki.Cert, int) {
	at := 1
	if b.PreIssuer != nil {
		at = 2
	}
	if at >= len(b.Path) {
		return nil, 0
	}
	orig := b.Path[at]
	t := orig.Tmpl
	for i := 1; i < 64; i++ {
		if k := keys.Pick(orig.Key.Kind, i+7); k.Name != orig.Key.Name {
			t.Key = k
			break
		}
	}
	return pki.Issue(orig.Parent, t, orig.Label+"/rekeyed"), at
}

// submission is the DER chain the caller hands in.
func (s *scene) submission() [][]byte {
	out := append([][]byte{}, s.chain.Submit...)
	if s.twin != nil {
		for len(out) <= s.twinAt {
			out = append(out, s.chain.Full[len(out)]) // the issuer has to be present to be replaced
		}
		out[s.twinAt] = s.twin.DER
	}
	for _, e := range s.c.ChainEdits {
		if len(out) == 0 {
			break
		}
		at := e.At % len(out)
		switch e.Kind {
		case "concat":
			extra := s.other.Leaf.DER
			if e.N%2 == 0 && at+1 < len(out) {
				extra = out[at+1]
			}
			out[at] = append(clone(out[at]), extra...)
		case "merge":
			if at+1 < len(out) {
				out[at] = append(clone(out[at]), out[at+1]...)
				out = append(out[:at+1], out[at+2:]...)
			} else {
				out[at] = append(clone(out[at]), s.other.Leaf.DER...)
			}
		case "split":
			if len(out[at]) > 1 {
				k := 1 + e.N%(len(out[at])-1)
				a, b := clone(out[at][:k]), clone(out[at][k:])
				out = append(append(append([][]byte{}, out[:at]...), a, b), out[at+1:]...)
			}
		case "empty-insert":
			out = append(append(append([][]byte{}, out[:at]...), []byte{}), out[at:]...)
		case "empty-replace":
			out[at] = []byte{}
		}
	}
	return out
}

// expectedEntry is the entry the SCT handed back has to verify for, derived from the bytes that were
// actually submitted: an x509 entry holds chain[0] as it was sent; a precert entry exists only when the
// precertificate and the certificates naming its final issuer are each exactly one DER value.
func (s *scene) expectedEntry() (rfc6962.Entry, string) {
	if len(s.c.ChainEdits) == 0 {
		return s.entryFor(s.c.Method, s.chain), ""
	}
	sub := s.submission()
	single := func(b []byte) bool {
		_, rest, err := derx.Parse(b)
		return err == nil && len(rest) == 0
	}
	if s.c.Method == "AddChain" {
		if len(sub[0]) == 0 {
			return rfc6962.Entry{}, "element 0 of the submitted chain is empty"
		}
		return rfc6962.Entry{Type: rfc6962.X509Entry, Cert: sub[0]}, ""
	}
	need := 2
	if s.chain.PreIssuer != nil {
		need = 3
	}
	for i := 0; i < need; i++ {
		if i >= len(sub) || !single(sub[i]) {
			return rfc6962.Entry{}, fmt.Sprintf("element %d of the submitted chain is not one certificate", i)
		}
	}
	// the elements that define the entry are intact certificates: they must also be the ones the
	// unedited chain has at these positions (an edit may have shifted others into their place)
	plain := *s
	pc := s.c
	pc.ChainEdits = nil
	plain.c = pc
	ref := plain.submission()
	for i := 0; i < need; i++ {
		if i >= len(ref) || !bytes.Equal(ref[i], sub[i]) {
			return rfc6962.Entry{}, fmt.Sprintf("element %d of the submitted chain is not the certificate the entry is defined by", i)
		}
	}
	return s.entryFor(s.c.Method, s.chain), ""
}

// entryFor is the RFC 6962 entry an honest log signs for the submission through this method.
func (s *scene) entryFor(method string, b *world.Built) rfc6962.Entry {
	if method == "AddPreChain" {
		e := b.Entry() // generator keeps AddPreChain submissions to precertificates
		if s.twin != nil && b == s.chain {
			// RFC 6962 s3.2: issuer_key_hash is the hash of the key of the certificate that was handed in as
			// the final issuer; the TBS (names, extensions) is the same for both certificates of that name.
			e.IssuerKeyHash = sha256.Sum256(s.twin.Key.SPKI)
		}
		return e
	}
	return rfc6962.Entry{Type: rfc6962.X509Entry, Cert: b.Leaf.DER}
}

// wrongTypeEntry is an entry of the other type for the same submission.
func (s *scene) wrongTypeEntry(method string, b *world.Built) rfc6962.Entry {
	if method == "AddPreChain" {
		return rfc6962.Entry{Type: rfc6962.X509Entry, Cert: b.Leaf.DER}
	}
	return rfc6962.Entry{Type: rfc6962.PrecertEntry, TBS: b.Leaf.TBS, IssuerKeyHash: b.Issuer.SPKIHash()}
}

var foreignKinds = []string{"p256", "rsa2048", "p384", "ed25519", "rsa3072"}

// decoyKey is a second key of the log key's kind: the one other clients in the process, or the
// lower-precedence option of this client, are configured with.
func (s *scene) decoyKey() *keys.Key {
	for i := 0; i < 64; i++ {
		k := keys.Pick(s.key.Kind, s.c.KeyIdx+1+s.c.DecoyIdx+i)
		if k.Name != s.key.Name {
			return k
		}
	}
	panic("harness: no decoy key of kind " + s.key.Kind)
}

func (s *scene) foreignKey(n int) *keys.Key {
	kind := s.key.Kind
	if n%3 == 0 {
		kind = foreignKinds[(n/3)%len(foreignKinds)]
	}
	for i := 0; i < 64; i++ {
		k := keys.Pick(kind, n/3+1+i)
		if k.Name != s.key.Name {
			return k
		}
	}
	return keys.Pick("p384", n)
}

// sigPlan is how the DigitallySigned of a response comes about.
type sigPlan struct {
	key       *keys.Key
	signHash  uint8
	hashCode  uint8
	sigCode   uint8
	relabelH  bool
	relabelS  bool
	flips     []int
	empty     bool
	truncDS   int
	trailing  []byte
	signVer   uint8
	signType  uint8
	typeSwap  bool
	verChange bool
}

func (p *sigPlan) ds(input []byte) []byte {
	if p.verChange {
		input = clone(input)
		input[0] = p.signVer
	}
	if p.typeSwap {
		input = clone(input)
		input[1] ^= 1
	}
	sig := signWith(p.key, p.signHash, input)
	for _, f := range p.flips {
		if len(sig) > 0 {
			sig[(f/8)%len(sig)] ^= 1 << (f % 8)
		}
	}
	if p.empty {
		sig = nil
	}
	hc, sc := p.signHash, sigCodeFor(p.key)
	if p.relabelH {
		hc = p.hashCode
	}
	if p.relabelS {
		sc = p.sigCode
	}
	ds, err := rfc6962.EncodeDS(rfc6962.DigitallySigned{Hash: hc, Sig: sc, Signature: sig})
	if err != nil {
		panic(err)
	}
	if p.truncDS > 0 {
		n := p.truncDS
		if n > len(ds) {
			n = len(ds)
		}
		ds = ds[:len(ds)-n]
	}
	return append(ds, p.trailing...)
}

var hashRelabel = []uint8{0, 1, 2, 3, 5, 6, 7, 255, 4}
var sigRelabel = []uint8{0, 1, 2, 3, 4, 7, 255}
var signHashes = []uint8{2, 3, 5, 6, 1}

func (p *sigPlan) apply(s *scene, m Mut) bool {
	switch m.Kind {
	case "sig-foreign":
		p.key = s.foreignKey(m.N)
	case "sig-decoy":
		p.key = s.decoyKey()
	case "sig-flip":
		p.flips = append(p.flips, m.N)
	case "sig-empty":
		p.empty = true
	case "ds-trunc":
		p.truncDS = m.N%3 + 1
	case "ds-trailing":
		p.trailing = append(p.trailing, make([]byte, m.N%3+1)...)
		for i := range p.trailing {
			p.trailing[i] = byte(m.M + i)
		}
	case "alg-hash":
		p.relabelH, p.hashCode = true, hashRelabel[m.N%len(hashRelabel)]
	case "alg-sig":
		p.relabelS, p.sigCode = true, sigRelabel[m.N%len(sigRelabel)]
	case "sign-hash":
		p.signHash = signHashes[m.N%len(signHashes)]
	case "sign-version":
		p.verChange, p.signVer = true, uint8(m.N%3+1)
	case "sign-type":
		p.typeSwap = true
	default:
		return false
	}
	return true
}

func tweakU64(v uint64, n int) uint64 {
	switch n % 6 {
	case 0:
		return 0
	case 1:
		return v + 1
	case 2:
		return v - 1
	case 3:
		return 1<<64 - 1
	case 4:
		return v ^ 1<<40
	}
	return v + 1000
}

// fields builds the truthful JSON fields for the call, with the semantic (signature-level) mutations
// of the response applied.
func (s *scene) fields(muts []Mut) []jf {
	c := s.c
	switch c.Method {
	case "GetSTH":
		root := hash32(c.Seed, 0)
		p := &sigPlan{key: s.key, signHash: 4}
		ts, size, sroot := c.Timestamp, c.TreeSize, root[:]
		for _, m := range muts {
			if p.apply(s, m) {
				continue
			}
			switch m.Kind {
			case "ts":
				ts = tweakU64(ts, m.N)
			case "size":
				size = tweakU64(size, m.N)
			case "root-flip":
				if len(sroot) > 0 {
					sroot = clone(sroot)
					sroot[(m.N/8)%len(sroot)] ^= 1 << (m.N % 8)
				}
			case "root-len":
				switch m.N % 5 {
				case 0:
					sroot = nil
				case 1:
					sroot = clone(root[:31])
				case 2:
					sroot = append(clone(root[:]), byte(m.M))
				case 3:
					// a short hash whose zero-padded form is what the log signed
					root[31] = 0
					sroot = clone(root[:31])
				case 4:
					root = [32]byte{}
					sroot = nil
				}
			}
		}
		in, _ := rfc6962.STHSignatureInput(0, c.Timestamp, c.TreeSize, root)
		return []jf{{K: "tree_size", V: jnum(size)}, {K: "timestamp", V: jnum(ts)}, {K: "sha256_root_hash", V: jb64(sroot)}, {K: "tree_head_signature", V: jb64(s.signature(p, in))}}
	case "AddChain", "AddPreChain":
		p := &sigPlan{key: s.key, signHash: 4}
		entry := s.entryFor(c.Method, s.chain)
		ts, ext, id, ver := c.Timestamp, c.Ext, s.logID[:], "0"
		for _, m := range muts {
			if p.apply(s, m) {
				continue
			}
			switch m.Kind {
			case "ts":
				ts = tweakU64(ts, m.N)
			case "ext":
				switch m.N % 3 {
				case 0:
					ext = append(clone(ext), byte(m.M))
				case 1:
					ext = nil
					if len(c.Ext) == 0 {
						ext = []byte{byte(m.M)}
					}
				case 2:
					ext = append([]byte{byte(m.M)}, ext...)
				}
			case "other-cert":
				entry = s.entryFor(c.Method, s.other)
			case "other-type":
				entry = s.wrongTypeEntry(c.Method, s.chain)
			case "id-foreign":
				h := sha256.Sum256(s.foreignKey(m.N).SPKI)
				id = h[:]
			case "id-decoy":
				h := sha256.Sum256(s.decoyKey().SPKI)
				id = h[:]
			case "id-zero":
				id = make([]byte, 32)
			case "id-len":
				switch m.N % 3 {
				case 0:
					id = nil
				case 1:
					id = clone(s.logID[:31])
				case 2:
					id = append(clone(s.logID[:]), byte(m.M))
				}
			case "sct-version":
				ver = []string{"1", "2", "255", "256", "-1", "4294967296"}[m.N%6]
				if m.M%2 == 0 && m.N%6 < 3 {
					// the log really signed that version octet
					p.verChange, p.signVer = true, []uint8{1, 2, 255}[m.N%6]
				}
			}
		}
		in, err := rfc6962.SCTSignatureInput(0, c.Timestamp, entry, c.Ext)
		if err != nil {
			panic(err)
		}
		return []jf{{K: "sct_version", V: ver}, {K: "id", V: jb64(id)}, {K: "timestamp", V: jnum(ts)}, {K: "extensions", V: jb64(ext)}, {K: "signature", V: jb64(s.signature(p, in))}}
	case "GetSTHConsistency":
		return []jf{{K: "consistency", IsArr: true, Elems: s.hashes(c.NHashes)}}
	case "GetProofByHash":
		return []jf{{K: "leaf_index", V: jnum(c.TreeSize % (1 << 62))}, {K: "audit_path", IsArr: true, Elems: s.hashes(c.NHashes)}}
	case "GetRawEntries", "GetEntries":
		var elems []string
		for _, e := range s.entries {
			elems = append(elems, jobj([]jf{{K: "leaf_input", V: jb64(e[0])}, {K: "extra_data", V: jb64(e[1])}}))
		}
		return []jf{{K: "entries", IsArr: true, Elems: elems}}
	case "GetEntryAndProof":
		e := s.entries[0]
		return []jf{{K: "leaf_input", V: jb64(e[0])}, {K: "extra_data", V: jb64(e[1])}, {K: "audit_path", IsArr: true, Elems: s.hashes(c.NHashes)}}
	case "GetAcceptedRoots":
		var elems []string
		for _, r := range s.roots {
			elems = append(elems, jb64(r))
		}
		return []jf{{K: "certificates", IsArr: true, Elems: elems}}
	}
	panic("unknown method " + c.Method)
}

// signature yields the DigitallySigned of the answer: freshly made, or replayed from an earlier answer.
func (s *scene) signature(p *sigPlan, in []byte) []byte {
	ds := p.ds(in)
	if s.replayDS != nil {
		ds = clone(s.replayDS)
	}
	s.lastDS = ds
	return ds
}

func (s *scene) hashes(n int) []string {
	out := []string{}
	for i := 0; i < n; i++ {
		h := hash32(s.c.Seed, i+1)
		out = append(out, jb64(h[:]))
	}
	return out
}

var bigPage = "<html><head><title>503 Service Temporarily Unavailable</title></head><body>" + strings.Repeat("<p>The log is over quota, please come back later.</p>\n", 30) + "</body></html>"

var bodyVariants = []string{" ", "\n", "\t\r\n  ", bigPage, bigPage[:513], bigPage[:600], "{\"error\":\"" + strings.Repeat("x", 700) + "\"", "", "null", "[]", "{}", `"x"`, "0", "<html><body>502 Bad Gateway</body></html>", "{", "\x00\x00\x00", "true"}

var oddHeaders = [][2]string{
	{"Content-Type", "text/html; charset=utf-16"}, {"Retry-After", "1"}, {"Retry-After", "soon"}, {"Content-Length", "3"},
	{"Content-Encoding", "gzip"}, {"Transfer-Encoding", "chunked"}, {"X-Padding", strings.Repeat("p", 5000)}, {"Connection", "close"},
	{"Retry-After", "Mon, 01 Jan 2001 00:00:00 GMT"}, {"Content-Type", ""},
}

var redirectCodes = []int{301, 302, 303, 307, 308}

// retryAfterVals: what a busy server may put into Retry-After (virtual time starts at 2000-01-01 UTC, so
// the 1990 date is past, the 2000-01-01 date is "now" for a first attempt).
var retryAfterVals = []string{"0", "-1", "-30", "Mon, 01 Jan 1990 00:00:00 GMT", "Sat, 01 Jan 2000 00:00:00 GMT", "soon", "1", "2", "0.5",
	"99999999999999999999", "9223372037", " 0", "+0", "00", "", "Sat, 01 Jan 2000 00:00:03 GMT", "-9223372036854775808"}

// build resolves one scripted answer. last: the answer repeats for ever.
func (s *scene) build(r Resp, last bool) *built {
	b := &built{Status: 200, CL: -1, Header: map[string]string{"Content-Type": "application/json"}}
	fs := s.fields(r.Muts)
	// JSON-level edits
	for _, m := range r.Muts {
		if len(fs) == 0 {
			break
		}
		i := m.N % len(fs)
		switch m.Kind {
		case "drop":
			fs = append(append([]jf{}, fs[:i]...), fs[i+1:]...)
		case "type":
			fs[i] = jf{K: fs[i].K, V: wrongTypes[m.M%len(wrongTypes)]}
		case "dup":
			fs = append(fs, jf{K: fs[i].K, V: wrongTypes[m.M%len(wrongTypes)]})
		case "dup-first":
			fs = append([]jf{{K: fs[i].K, V: wrongTypes[m.M%len(wrongTypes)]}}, fs...)
		case "extra":
			fs = append(fs, jf{K: "unexpected_field", V: wrongTypes[m.M%len(wrongTypes)]})
		case "keycase":
			fs[i].K = strings.ToUpper(fs[i].K)
		case "b64":
			if fs[i].IsArr {
				if len(fs[i].Elems) > 0 {
					j := m.M % len(fs[i].Elems)
					e := fs[i].Elems[j]
					if strings.HasPrefix(e, "{") {
						// an entries element: damage leaf_input (even) or extra_data (odd)
						var o struct {
							L string `json:"leaf_input"`
							X string `json:"extra_data"`
						}
						json.Unmarshal([]byte(e), &o)
						if m.M%2 == 0 {
							e = jobj([]jf{{K: "leaf_input", V: breakB64(jstr(o.L), m.M/2)}, {K: "extra_data", V: jstr(o.X)}})
						} else {
							e = jobj([]jf{{K: "leaf_input", V: jstr(o.L)}, {K: "extra_data", V: breakB64(jstr(o.X), m.M/2)}})
						}
					} else {
						e = breakB64(e, m.M/2)
					}
					fs[i].Elems = append([]string{}, fs[i].Elems...)
					fs[i].Elems[j] = e
				}
			} else {
				fs[i].V = breakB64(fs[i].V, m.M)
			}
		case "elem-type":
			if fs[i].IsArr && len(fs[i].Elems) > 0 {
				j := m.M % len(fs[i].Elems)
				fs[i].Elems = append([]string{}, fs[i].Elems...)
				fs[i].Elems[j] = wrongTypes[(m.M/4)%len(wrongTypes)]
			}
		case "elem-drop-field":
			if fs[i].IsArr && len(fs[i].Elems) > 0 && strings.HasPrefix(fs[i].Elems[0], "{") {
				j := m.M % len(fs[i].Elems)
				var o struct {
					L string `json:"leaf_input"`
					X string `json:"extra_data"`
				}
				json.Unmarshal([]byte(fs[i].Elems[j]), &o)
				fs[i].Elems = append([]string{}, fs[i].Elems...)
				if m.M%2 == 0 {
					fs[i].Elems[j] = jobj([]jf{{K: "extra_data", V: jstr(o.X)}})
				} else {
					fs[i].Elems[j] = jobj([]jf{{K: "leaf_input", V: jstr(o.L)}})
				}
			}
		}
	}
	body := jobj(fs)
	// body-level edits
	for _, m := range r.Muts {
		switch m.Kind {
		case "body":
			body = bodyVariants[m.N%len(bodyVariants)]
		case "body-trunc":
			if len(body) > 0 {
				body = body[:m.N%len(body)]
			}
		case "body-append":
			body += []string{"xyz", "}", "{}", " \n\t ", body, "\x00", ",", "]"}[m.N%8]
		case "body-huge-pad":
			// more than 32 MiB of white space after the JSON value (legal by itself), then possibly something else
			body += strings.Repeat(" ", 32<<20+m.N%4096) + []string{"xyz", "{}", "", "\n"}[m.M%4]
		case "body-prepend":
			body = []string{"\xef\xbb\xbf", " \r\n", ")]}'\n", "[", "x"}[m.N%5] + body
		}
	}
	b.Body = []byte(body)
	// transport-level edits
	for _, m := range r.Muts {
		switch m.Kind {
		case "status":
			b.Status = m.N
		case "readerr":
			b.ReadErr = true
			b.ReadAt = m.N % (len(b.Body) + 1)
		case "neterr":
			b.NetErr = true
		case "header":
			h := oddHeaders[m.N%len(oddHeaders)]
			b.Header[h[0]] = h[1]
		case "busy":
			b.Status = []int{503, 429}[m.N%2]
			b.Header["Retry-After"] = retryAfterVals[m.M%len(retryAfterVals)]
		case "retry-after":
			b.Header["Retry-After"] = retryAfterVals[m.M%len(retryAfterVals)]
		case "location":
			b.Location = "/elsewhere/ct/v1/x"
		case "redirect":
			b.Status = redirectCodes[m.N%len(redirectCodes)]
			b.Location = fmt.Sprintf("/hop%d/ct/v1/again", m.M%3)
		}
	}
	if b.ReadAt > len(b.Body) {
		b.ReadAt = len(b.Body)
	}
	// A Content-Length header as net/http's transport treats it: a value that is not a non-negative int64
	// fails the round trip; otherwise Response.ContentLength carries it, a longer body is cut at it and a
	// shorter one ends in an unexpected EOF.
	for _, m := range r.Muts {
		if m.Kind != "content-length" || b.NetErr {
			continue
		}
		var cl int64
		switch m.N % 10 {
		case 0:
			cl = 0
		case 1:
			cl = int64(len(b.Body)) - 1
		case 2:
			cl = int64(len(b.Body)) + 1
		case 3:
			cl = 1 << 50
		case 4:
			cl = 1 << 62
		case 5:
			cl = 1<<63 - 1
		case 6:
			cl = int64(len(b.Body)) // honest
		case 7:
			cl = 1<<31 + int64(m.M)
		case 8:
			b.Header["Content-Length"] = []string{"-1", "abc", "18446744073709551616", "1 1", ""}[m.M%5]
			b.NetErr = true
			continue
		case 9:
			cl = 1<<48 + int64(m.M)
		}
		if cl < 0 {
			cl = 0
		}
		b.CL = cl
		b.Header["Content-Length"] = strconv.FormatInt(cl, 10)
		switch have := int64(len(b.delivered())); {
		case cl < have:
			b.Body = b.Body[:cl]
			if b.ReadAt > len(b.Body) {
				b.ReadAt = len(b.Body)
				b.ReadErr = false
			}
		case cl > have && !b.ReadErr:
			b.ReadErr, b.ReadAt = true, len(b.Body)
		}
	}
	if last {
		// Keep the endless tail inside the statement: a GET that is redirected for ever ends inside net/http
		// (no response reaches the client code), and an endless run of 408s ("retry at once") never lets
		// virtual time advance - retry pacing is C13's subject.
		if b.followedRedirect() && !retrying(s.c.Method) {
			b.Location = ""
		}
		if retrying(s.c.Method) && b.Status == 408 {
			b.Status = 503
		}
	}
	return b
}
