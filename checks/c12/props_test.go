package c12

import (
	"testing"

	"verif/internal/harness"
)

func TestProps(t *testing.T) { harness.Main(t, "C12", Client, Session, Shards, Decoder) }
