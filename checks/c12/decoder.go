package c12

import (
	"bytes"
	"fmt"
	"io"
	"log"
	"math/big"
	"testing"

	ct "github.com/google/certificate-transparency-go"
	cttls "github.com/google/certificate-transparency-go/tls"
	"github.com/google/certificate-transparency-go/x509"
	"pgregory.net/rapid"

	"verif/internal/derx"
	"verif/internal/harness"
	"verif/internal/keys"
	"verif/internal/pki"
	"verif/internal/rfc6962"
	"verif/internal/world"
)

func init() { log.SetOutput(io.Discard) } // the code under test logs retries, trailing signature bytes, key warnings

// EntrySpec describes one get-entries element (leaf_input, extra_data) as data.
type EntrySpec struct {
	Base      string          // "world" | "nonfatal" | "badcert" | "laxcert" | "random"
	Spec      world.ChainSpec // world / nonfatal / badcert: the chain around the leaf
	Timestamp uint64
	Ext       []byte
	R1, R2    []byte // random: leaf_input / extra_data; badcert: certificate / TBS bytes
	Shape     int    // laxcert: 0 = as issued, 1-3 = a shape only the relaxed ASN.1 rules accept (see laxify)
	Stray     []byte // laxcert: bytes following the certificate / TBS inside its vector
	Muts      []TMut
}

// TMut is one byte-level or structure-level edit of an encoded entry.
type TMut struct {
	Kind string
	Part int // 0 = leaf_input, 1 = extra_data
	Pos  int
	Val  int
}

var tmutKinds = []string{"setbyte", "trunc", "append", "insert", "delete", "version", "leaftype", "entrytype", "len+", "len-", "swapextra", "emptyextra", "dropextra",
	// structure-aware edits of extra_data: every enclosing length is re-computed, so only the element rule itself is at stake
	"chain-zero-insert", "chain-zero-insert", "chain-zero-replace", "chain-one-empty", "chain-empty", "precert-zero", "chain-many", "chain-tiny"}

var entryTypeVals = []int{0, 1, 2, 0x8000, 0xffff, 0x0100}

func genTMut(t *rapid.T) TMut {
	return TMut{Kind: rapid.SampledFrom(tmutKinds).Draw(t, "tk"), Part: rapid.IntRange(0, 1).Draw(t, "tpart"), Pos: rapid.IntRange(0, 4000).Draw(t, "tpos"), Val: rapid.IntRange(0, 255).Draw(t, "tval")}
}

func genTimestamp(t *rapid.T, label string) uint64 {
	switch rapid.IntRange(0, 9).Draw(t, label+".k") {
	case 0, 1:
		return 0
	case 2:
		return rapid.SampledFrom([]uint64{1, 1<<32 - 1, 1 << 32, 1<<53 + 1, 1<<63 - 1, 1 << 63, 1<<64 - 1}).Draw(t, label+".edge")
	default:
		return rapid.Uint64Range(1400000000000, 1900000000000).Draw(t, label+".ms")
	}
}

func genExt(t *rapid.T, label string) []byte {
	if rapid.IntRange(0, 2).Draw(t, label+".has") != 2 {
		return nil
	}
	return rapid.SliceOfN(rapid.Byte(), 1, 12).Draw(t, label)
}

func genEntrySpec(t *rapid.T, label string, maxMuts int) EntrySpec {
	e := EntrySpec{Timestamp: genTimestamp(t, label+".ts"), Ext: genExt(t, label+".ext")}
	switch k := rapid.IntRange(0, 21).Draw(t, label+".base"); {
	case k < 11:
		e.Base = "world"
		e.Spec = world.GenSpec(t, label)
	case k < 13:
		e.Base = "nonfatal"
		e.Spec = world.GenSpec(t, label)
	case k < 16:
		e.Base = "laxcert"
		e.Spec = world.GenSpec(t, label)
		e.Shape = rapid.IntRange(0, 3).Draw(t, label+".shape")
		if rapid.IntRange(0, 3).Draw(t, label+".hasstray") != 0 {
			e.Stray = rapid.SliceOfN(rapid.Byte(), 1, 3).Draw(t, label+".stray")
		}
	case k < 18:
		e.Base = "badcert"
		e.Spec = world.GenSpec(t, label)
		e.R1 = rapid.SliceOfN(rapid.Byte(), 1, 40).Draw(t, label+".cert")
	default:
		e.Base = "random"
		e.R1 = rapid.SliceOfN(rapid.Byte(), 0, 80).Draw(t, label+".leaf")
		e.R2 = rapid.SliceOfN(rapid.Byte(), 0, 40).Draw(t, label+".extra")
	}
	n := 0
	if maxMuts > 0 {
		n = rapid.SampledFrom([]int{0, 0, 1, 1, 1, 2, 3}).Draw(t, label+".nm")
		if n > maxMuts {
			n = maxMuts
		}
	}
	for i := 0; i < n; i++ {
		e.Muts = append(e.Muts, genTMut(t))
	}
	return e
}

// nonFatalLeaf issues an end-entity certificate that the lenient parser accepts with a non-fatal
// complaint (a subjectAltName iPAddress of five octets).
func nonFatalLeaf(b *world.Built, precert bool) *pki.Cert {
	lk := keys.Pick("p256", int(b.Spec.ID))
	cn := fmt.Sprintf("nf-%d", b.Spec.ID)
	t := pki.Template{Serial: new(big.Int).SetUint64(uint64(b.Spec.ID)<<8 | 2), Subject: pki.CN(cn), NotBefore: pki.Epoch.AddDate(0, -1, 0), NotAfter: pki.Epoch.AddDate(1, 0, 0), Key: lk,
		Exts: []pki.Ext{pki.KeyUsage(pki.KUDigitalSignature), pki.EKU(pki.OIDEKUServerAuth),
			{OID: pki.OIDExtSAN, Value: derx.Seq(derx.TLV(0x82, []byte(cn+".example.com")), derx.TLV(0x87, []byte{10, 0, 0, 1, byte(b.Spec.ID)}))}}}
	if precert {
		t.Exts = append(t.Exts, pki.Poison())
	}
	return pki.Issue(b.Issuer, t, cn)
}

// buildEntry resolves a spec into (leaf_input, extra_data).
func buildEntry(e EntrySpec) (leaf, extra []byte) {
	switch e.Base {
	case "random":
		leaf, extra = clone(e.R1), clone(e.R2)
	default:
		b := world.Build(e.Spec)
		ent := b.Entry()
		full := b.Full
		switch e.Base {
		case "nonfatal":
			// a leaf with a non-fatal parse complaint, directly under the issuing CA (no pre-issuer rewrite)
			c := nonFatalLeaf(b, b.Spec.Precert)
			chain := [][]byte{c.DER}
			for _, p := range b.Path[1:] {
				if p == b.PreIssuer {
					continue
				}
				chain = append(chain, p.DER)
			}
			full = chain
			if b.Spec.Precert {
				// the TBS keeps its poison: the decoder only parses it, and an unknown critical extension is not fatal
				ent = rfc6962.Entry{Type: rfc6962.PrecertEntry, TBS: c.TBS, IssuerKeyHash: b.Issuer.SPKIHash()}
			} else {
				ent = rfc6962.Entry{Type: rfc6962.X509Entry, Cert: c.DER}
			}
		case "laxcert":
			if b.Spec.Precert {
				ent.TBS = append(laxify(ent.TBS, true, e.Shape), e.Stray...)
			} else {
				ent.Cert = append(laxify(ent.Cert, false, e.Shape), e.Stray...)
			}
		case "badcert":
			if b.Spec.Precert {
				ent.TBS = clone(e.R1)
			} else {
				ent.Cert = clone(e.R1)
			}
		}
		var err error
		leaf, err = rfc6962.EncodeLeaf(rfc6962.Leaf{Timestamp: e.Timestamp, Entry: ent, Extensions: e.Ext})
		if err != nil {
			panic(err)
		}
		if ent.Type == rfc6962.PrecertEntry {
			extra, err = rfc6962.EncodePrecertChainEntry(full[0], full[1:])
		} else {
			extra, err = rfc6962.EncodeChain(full[1:])
		}
		if err != nil {
			panic(err)
		}
	}
	for _, m := range e.Muts {
		leaf, extra = applyTMut(m, leaf, extra)
	}
	return leaf, extra
}

func clone(b []byte) []byte { return append([]byte{}, b...) }

func applyTMut(m TMut, leaf, extra []byte) ([]byte, []byte) {
	part := &leaf
	if m.Part == 1 {
		part = &extra
	}
	p := *part
	switch m.Kind {
	case "setbyte":
		if len(p) > 0 {
			p = clone(p)
			p[m.Pos%len(p)] = byte(m.Val)
		}
	case "trunc":
		if len(p) > 0 {
			p = clone(p[:m.Pos%len(p)])
		}
	case "append":
		p = append(clone(p), bytes.Repeat([]byte{byte(m.Val)}, m.Val%3+1)...)
	case "insert":
		i := m.Pos % (len(p) + 1)
		p = append(append(clone(p[:i]), byte(m.Val)), p[i:]...)
	case "delete":
		if len(p) > 0 {
			i := m.Pos % len(p)
			p = append(clone(p[:i]), p[i+1:]...)
		}
	case "version":
		if len(leaf) > 0 {
			leaf = clone(leaf)
			leaf[0] = byte(m.Val%3 + 1)
		}
		return leaf, extra
	case "leaftype":
		if len(leaf) > 1 {
			leaf = clone(leaf)
			leaf[1] = byte(m.Val%3 + 1)
		}
		return leaf, extra
	case "entrytype":
		if len(leaf) > 11 {
			leaf = clone(leaf)
			x := entryTypeVals[m.Val%len(entryTypeVals)]
			leaf[10], leaf[11] = byte(x>>8), byte(x)
		}
		return leaf, extra
	case "len+", "len-":
		// the three-byte length that opens extra_data, or the certificate length inside an x509 leaf
		off := 0
		if m.Part == 0 {
			off = 12
		}
		if len(p) >= off+3 {
			p = clone(p)
			l := int(p[off])<<16 | int(p[off+1])<<8 | int(p[off+2])
			if m.Kind == "len+" {
				l += m.Val%3 + 1
			} else {
				l -= m.Val%3 + 1
			}
			if l < 0 {
				l = 0
			}
			p[off], p[off+1], p[off+2] = byte(l>>16), byte(l>>8), byte(l)
		}
	case "swapextra":
		// the extra_data shape of the other entry type
		if c, rest, err := rfc6962.DecodeChain(extra); err == nil && len(rest) == 0 && len(c) > 0 {
			extra, _ = rfc6962.EncodePrecertChainEntry(c[0], c[1:])
		} else if pc, ch, rest, err := rfc6962.DecodePrecertChainEntry(extra); err == nil && len(rest) == 0 {
			extra, _ = rfc6962.EncodeChain(append([][]byte{pc}, ch...))
		}
		return leaf, extra
	case "chain-zero-insert", "chain-zero-replace", "chain-one-empty", "chain-empty", "precert-zero", "chain-many", "chain-tiny":
		return leaf, restructureExtra(m, leaf, extra)
	case "emptyextra":
		return leaf, []byte{0, 0, 0}
	case "dropextra":
		return leaf, nil
	}
	*part = p
	return leaf, extra
}

func u24b(n int) []byte { return []byte{byte(n >> 16), byte(n >> 8), byte(n)} }

// rawVector encodes opaque elems<0..2^24-1> with three-byte prefixes and NO check of the element minimum.
func rawVector(elems [][]byte) []byte {
	var body []byte
	for _, e := range elems {
		body = append(append(body, u24b(len(e))...), e...)
	}
	return append(u24b(len(body)), body...)
}

// restructureExtra re-builds extra_data (of the shape the leaf's entry type calls for) around an edited
// element list; all lengths stay consistent. When extra_data does not decode the edit starts from an
// empty chain (and a one-byte pre_certificate).
func restructureExtra(m TMut, leaf, extra []byte) []byte {
	precert := len(leaf) > 11 && leaf[10] == 0 && leaf[11] == 1
	var pre []byte
	var chain [][]byte
	if precert {
		p, ch, rest, err := rfc6962.DecodePrecertChainEntry(extra)
		if err == nil && len(rest) == 0 {
			pre, chain = p, ch
		} else {
			pre = []byte{0x30}
		}
	} else if ch, rest, err := rfc6962.DecodeChain(extra); err == nil && len(rest) == 0 {
		chain = ch
	}
	chain = append([][]byte{}, chain...)
	switch m.Kind {
	case "chain-zero-insert":
		i := m.Pos % (len(chain) + 1)
		chain = append(append(append([][]byte{}, chain[:i]...), []byte{}), chain[i:]...)
	case "chain-zero-replace":
		if len(chain) == 0 {
			chain = [][]byte{{}}
		} else {
			chain[m.Pos%len(chain)] = []byte{}
		}
	case "chain-one-empty":
		chain = [][]byte{{}}
	case "chain-empty":
		chain = nil // legal: certificate_chain<0..2^24-1>
	case "precert-zero":
		pre = []byte{} // illegal for a precert entry: ASN.1Cert<1..2^24-1>; no effect on an x509 entry
	case "chain-many":
		n := 50 + m.Val*4
		el := []byte{0x30, 0x00}
		if len(chain) > 0 && len(chain[0]) < 600 {
			el = chain[0]
		}
		chain = nil
		for i := 0; i < n; i++ {
			chain = append(chain, el)
		}
		if m.Pos%3 == 0 {
			chain[m.Pos%len(chain)] = []byte{} // one empty element hidden among many
		}
	case "chain-tiny":
		n := m.Val%5 + 1
		chain = nil
		for i := 0; i < n; i++ {
			chain = append(chain, []byte{byte(m.Val + i)}) // one-byte elements: the legal minimum
		}
	}
	if precert {
		return append(append(u24b(len(pre)), pre...), rawVector(chain)...)
	}
	return rawVector(chain)
}

// refEntry is the reference reading of (leaf_input, extra_data).
type refEntry struct {
	ok      bool
	why     string
	lenient bool // version octet other than v1: the statement does not say; either outcome is accepted
	leaf    rfc6962.Leaf
	cert    []byte // x509: the certificate; precert: the submitted precertificate from extra_data
	chain   [][]byte
	fatal   bool  // the lenient parser refuses the certificate / TBSCertificate outright
	certErr error // its complaint, fatal or not
	stray   int   // bytes after the DER value inside the certificate / TBS vector (always fatal)
}

func refDecodeEntry(leafIn, extra []byte) (r refEntry) {
	data := leafIn
	if len(data) > 0 && data[0] != 0 {
		data = clone(data)
		data[0] = 0
		r.lenient = true
	}
	l, rest, err := rfc6962.DecodeLeaf(data)
	if err != nil {
		r.why = "leaf_input: " + err.Error()
		return r
	}
	if len(rest) != 0 {
		r.why = fmt.Sprintf("leaf_input: %d trailing bytes", len(rest))
		return r
	}
	if r.lenient {
		l.Version = leafIn[0]
	}
	r.leaf = l
	var xrest []byte
	switch l.Entry.Type {
	case rfc6962.X509Entry:
		r.cert = l.Entry.Cert
		r.chain, xrest, err = rfc6962.DecodeChain(extra)
	case rfc6962.PrecertEntry:
		r.cert, r.chain, xrest, err = rfc6962.DecodePrecertChainEntry(extra)
	}
	if err != nil {
		r.why = "extra_data: " + err.Error()
		return r
	}
	if len(xrest) != 0 {
		r.why = fmt.Sprintf("extra_data: %d trailing bytes", len(xrest))
		return r
	}
	r.ok = true
	// The certificate parser is a component (C11's subject), not the decoder under test.
	if l.Entry.Type == rfc6962.X509Entry {
		_, r.certErr = x509.ParseCertificate(l.Entry.Cert)
	} else {
		_, r.certErr = x509.ParseTBSCertificate(l.Entry.TBS)
	}
	r.fatal = x509.IsFatal(r.certErr)
	// Independent of the parser: a certificate / TBSCertificate vector holds exactly one DER value. Bytes
	// after it mean the parsed certificate cannot cover what leaf_input holds, whichever rules (strict or
	// relaxed) the parser needed for the value itself.
	body := l.Entry.Cert
	if l.Entry.Type == rfc6962.PrecertEntry {
		body = l.Entry.TBS
	}
	if _, rest, err := derx.Parse(body); err == nil && len(rest) > 0 {
		r.stray = len(rest)
		r.fatal = true
		if r.certErr == nil || !x509.IsFatal(r.certErr) {
			r.certErr = fmt.Errorf("%d bytes follow the DER value inside the certificate vector (parser said: %v)", len(rest), r.certErr)
		}
	}
	return r
}

// hasZeroElement: extra_data is consistent in all its lengths but holds a certificate of length 0
// (evidence class only).
func hasZeroElement(leaf, extra []byte) bool {
	walk := func(b []byte) (elems [][]byte, rest []byte, ok bool) {
		if len(b) < 3 {
			return nil, nil, false
		}
		n := int(b[0])<<16 | int(b[1])<<8 | int(b[2])
		if n > len(b)-3 {
			return nil, nil, false
		}
		in, rest := b[3:3+n], b[3+n:]
		for len(in) > 0 {
			if len(in) < 3 {
				return nil, nil, false
			}
			l := int(in[0])<<16 | int(in[1])<<8 | int(in[2])
			if l > len(in)-3 {
				return nil, nil, false
			}
			elems = append(elems, in[3:3+l])
			in = in[3+l:]
		}
		return elems, rest, true
	}
	zero := false
	if len(leaf) > 11 && leaf[10] == 0 && leaf[11] == 1 {
		if len(extra) < 3 {
			return false
		}
		n := int(extra[0])<<16 | int(extra[1])<<8 | int(extra[2])
		if n > len(extra)-3 {
			return false
		}
		zero = n == 0
		extra = extra[3+n:]
	}
	elems, rest, ok := walk(extra)
	if !ok || len(rest) != 0 {
		return false
	}
	for _, e := range elems {
		zero = zero || len(e) == 0
	}
	return zero
}

func eqB(a, b []byte) bool { return bytes.Equal(a, b) } // nil == empty

func eqList(a, b [][]byte) bool {
	if len(a) != len(b) {
		return false
	}
	for i := range a {
		if !eqB(a[i], b[i]) {
			return false
		}
	}
	return true
}

func certsData(cs []ct.ASN1Cert) [][]byte {
	out := make([][]byte, len(cs))
	for i, c := range cs {
		out[i] = c.Data
	}
	return out
}

func head(b []byte, n int) []byte {
	if len(b) > n {
		return b[:n]
	}
	return b
}

// leafMatches compares a decoded MerkleTreeLeaf field by field with the reference and re-encodes it.
func leafMatches(got ct.MerkleTreeLeaf, want rfc6962.Leaf, leafIn []byte) string {
	if uint8(got.Version) != want.Version || uint8(got.LeafType) != want.LeafType || got.TimestampedEntry == nil {
		return "version / leaf type / absent timestamped entry"
	}
	te := got.TimestampedEntry
	if te.Timestamp != want.Timestamp || uint16(te.EntryType) != want.Entry.Type || !eqB(te.Extensions, want.Extensions) {
		return fmt.Sprintf("timestamp %d type %d ext %x, want %d / %d / %x", te.Timestamp, te.EntryType, te.Extensions, want.Timestamp, want.Entry.Type, want.Extensions)
	}
	switch want.Entry.Type {
	case rfc6962.X509Entry:
		if te.X509Entry == nil || te.PrecertEntry != nil || te.JSONEntry != nil || !eqB(te.X509Entry.Data, want.Entry.Cert) {
			return "x509_entry differs"
		}
	case rfc6962.PrecertEntry:
		if te.PrecertEntry == nil || te.X509Entry != nil || te.JSONEntry != nil || te.PrecertEntry.IssuerKeyHash != want.Entry.IssuerKeyHash || !eqB(te.PrecertEntry.TBSCertificate, want.Entry.TBS) {
			return "precert_entry differs"
		}
	}
	back, err := cttls.Marshal(got)
	if err != nil {
		return "tls.Marshal(entry.Leaf): " + err.Error()
	}
	if !bytes.Equal(back, leafIn) {
		return fmt.Sprintf("tls.Marshal(entry.Leaf) = %x..., leaf_input = %x...", head(back, 24), head(leafIn, 24))
	}
	return ""
}

// logEntryMatches judges a returned LogEntry against the reference reading (which accepted).
func logEntryMatches(le *ct.LogEntry, r refEntry, leafIn []byte, index int64) string {
	if le.Index != index {
		return fmt.Sprintf("index %d, want %d", le.Index, index)
	}
	if why := leafMatches(le.Leaf, r.leaf, leafIn); why != "" {
		return why
	}
	if !eqList(certsData(le.Chain), r.chain) {
		return fmt.Sprintf("chain of %d certificates differs from extra_data (%d)", len(le.Chain), len(r.chain))
	}
	if len(le.JSONData) != 0 {
		return "JSONData set"
	}
	switch r.leaf.Entry.Type {
	case rfc6962.X509Entry:
		if le.X509Cert == nil || le.Precert != nil {
			return "x509 entry without X509Cert (or with Precert)"
		}
		if !eqB(le.X509Cert.Raw, r.leaf.Entry.Cert) {
			return "X509Cert.Raw differs from the certificate in leaf_input"
		}
	case rfc6962.PrecertEntry:
		if le.Precert == nil || le.X509Cert != nil || le.Precert.TBSCertificate == nil {
			return "precert entry without Precert / TBSCertificate (or with X509Cert)"
		}
		if !eqB(le.Precert.Submitted.Data, r.cert) {
			return "Precert.Submitted differs from the pre_certificate in extra_data"
		}
		if le.Precert.IssuerKeyHash != r.leaf.Entry.IssuerKeyHash {
			return "Precert.IssuerKeyHash differs"
		}
		if !eqB(le.Precert.TBSCertificate.RawTBSCertificate, r.leaf.Entry.TBS) {
			return "Precert.TBSCertificate.RawTBSCertificate differs from the TBS in leaf_input"
		}
	}
	return ""
}

func recovered(f func()) (p any) {
	defer func() { p = recover() }()
	f()
	return nil
}

// judgeEntry runs both decoders on (leaf_input, extra_data) and judges them. Shared by the rapid
// sub-property, the GetEntries oracle and the native fuzz target.
func judgeEntry(v *harness.Verdict, leafIn, extra []byte, index int64) {
	r := refDecodeEntry(leafIn, extra)
	var rle *ct.RawLogEntry
	var rerr error
	var le *ct.LogEntry
	var lerr error
	in := func() *ct.LeafEntry { return &ct.LeafEntry{LeafInput: clone(leafIn), ExtraData: clone(extra)} }
	if p := recovered(func() { rle, rerr = ct.RawLogEntryFromLeaf(index, in()) }); p != nil {
		v.Failf("decoder-panic", "RawLogEntryFromLeaf panicked on leaf_input %x / extra_data %x: %v", leafIn, extra, p)
		return
	}
	if p := recovered(func() { le, lerr = ct.LogEntryFromLeaf(index, in()) }); p != nil {
		v.Failf("decoder-panic", "LogEntryFromLeaf panicked on leaf_input %x / extra_data %x: %v", leafIn, extra, p)
		return
	}
	if (rerr != nil) != (rle == nil) {
		v.Failf("decoder-partial", "RawLogEntryFromLeaf returned entry==nil:%v together with err=%v", rle == nil, rerr)
	}
	if lerr != nil && le != nil && x509.IsFatal(lerr) {
		v.Failf("decoder-partial", "LogEntryFromLeaf returned an entry together with the fatal error %v", lerr)
	}
	if lerr == nil && le == nil {
		v.Failf("decoder-partial", "LogEntryFromLeaf returned (nil, nil)")
		return
	}
	if r.lenient {
		v.Class("entry:version!=0")
		if rerr != nil {
			if le != nil {
				v.Failf("decoder-incoherent", "RawLogEntryFromLeaf refuses (%v) what LogEntryFromLeaf accepts", rerr)
			}
			return // refusing an unknown version is fine
		}
	}
	if !r.ok {
		v.Class("entry:ref-refuses")
		if hasZeroElement(leafIn, extra) {
			v.Class("entry:zero-length-element")
		}
		if rle != nil {
			v.Failf("entry-accepts-invalid", "RawLogEntryFromLeaf accepted leaf_input %x... (%d) / extra_data %x... (%d): %s", head(leafIn, 24), len(leafIn), head(extra, 24), len(extra), r.why)
		}
		if le != nil {
			v.Failf("entry-accepts-invalid", "LogEntryFromLeaf accepted leaf_input %x... (%d) / extra_data %x... (%d): %s", head(leafIn, 24), len(leafIn), head(extra, 24), len(extra), r.why)
		}
		return
	}
	v.Class("entry:ref-accepts", fmt.Sprintf("entry:type%d", r.leaf.Entry.Type))
	if rle == nil {
		v.Failf("entry-refuses-valid", "RawLogEntryFromLeaf refused a well-formed entry (leaf %d bytes, extra %d bytes): %v", len(leafIn), len(extra), rerr)
	} else {
		why := leafMatches(rle.Leaf, r.leaf, leafIn)
		if why == "" && (rle.Index != index || !eqB(rle.Cert.Data, r.cert) || !eqList(certsData(rle.Chain), r.chain)) {
			why = fmt.Sprintf("index %d want %d, cert %d bytes want %d, chain %d want %d", rle.Index, index, len(rle.Cert.Data), len(r.cert), len(rle.Chain), len(r.chain))
		}
		if why != "" {
			v.Failf("entry-inconsistent", "RawLogEntryFromLeaf: %s", why)
		}
	}
	switch {
	case r.fatal:
		v.Class("entry:cert-fatal")
		if r.stray > 0 {
			v.Class("entry:cert-stray-bytes")
		}
		if le != nil {
			v.Failf("entry-accepts-unparsable-cert", "LogEntryFromLeaf returned an entry although the certificate does not parse: %v", r.certErr)
		}
	default:
		if r.certErr != nil {
			v.Class("entry:cert-nonfatal")
		} else {
			v.Class("entry:cert-clean")
		}
		if le == nil {
			v.Failf("entry-refuses-valid", "LogEntryFromLeaf refused a well-formed entry whose certificate parses (complaint: %v): %v", r.certErr, lerr)
		} else if why := logEntryMatches(le, r, leafIn, index); why != "" {
			v.Failf("entry-inconsistent", "LogEntryFromLeaf: %s", why)
		}
	}
}

// DecCase is one input of the entry decoder sub-property.
type DecCase struct {
	Entry EntrySpec
	Index int64
}

func genDec(t *rapid.T) DecCase {
	return DecCase{Entry: genEntrySpec(t, "e", 3), Index: rapid.SampledFrom([]int64{0, 1, 7, 1 << 31, 1<<62 + 5, 1<<63 - 1, -1}).Draw(t, "index")}
}

func checkDec(t *testing.T, c DecCase) (v harness.Verdict) {
	leaf, extra := buildEntry(c.Entry)
	v.Class("base:" + c.Entry.Base)
	if c.Entry.Base == "laxcert" {
		v.Class(fmt.Sprintf("laxcert:shape%d:stray%v", c.Entry.Shape, len(c.Entry.Stray) > 0))
	}
	for _, m := range c.Entry.Muts {
		v.Class("tmut:" + m.Kind)
	}
	v.NonTrivial = len(c.Entry.Muts) > 0 || c.Entry.Base != "world"
	judgeEntry(&v, leaf, extra, c.Index)
	return v
}

// Decoder is the entry-decoder half of C12.
var Decoder = harness.Define(harness.Opts{
	Name:  "decoder",
	Rule:  "(leaf_input, extra_data) built by the reference encoder from a generated PKI chain (x509 or precert, with / without pre-issuer; a leaf with a non-fatal parse complaint; a leaf / TBS in a shape only the relaxed ASN.1 rules accept - non-minimal serial INTEGER, Latin-1 in a PrintableString, zero-length OID - or as issued, followed by 0-3 stray bytes inside its vector; 1-40 random bytes in place of the certificate / TBS) or 0-80 + 0-40 random bytes, under 0-3 edits (set / insert / delete byte, truncate, append, version / leaf type / entry type codes incl. 0x8000, length fields +-1..3, extra_data of the other entry type, empty / absent extra_data, and structure-aware edits of extra_data with all enclosing lengths re-computed: a zero-length certificate inserted / substituted / as the only element / hidden among 50-1070 elements, zero-length pre_certificate, empty chain (legal), one-byte elements (legal minimum)); ct.RawLogEntryFromLeaf and ct.LogEntryFromLeaf judged against internal/rfc6962 (accept <=> both parts decode completely and, for LogEntryFromLeaf, the certificate parse is non-fatal and nothing follows the DER value inside its vector; on accept tls.Marshal(entry.Leaf) == leaf_input, chain / submitted precertificate / index equal the reference). Non-trivial: >= 1 edit or a base other than a clean chain",
	Quick: 6000, Thorough: 20000,
}, genDec, checkDec)

// laxify rewrites a certificate (or a bare TBSCertificate) into a shape that only the relaxed ASN.1
// rules accept: 1 = serialNumber INTEGER with a superfluous leading zero octet, 2 = a Latin-1 octet
// inside the subject's PrintableString, 3 = an extra extension whose OID has no content octets. The
// signature is not re-made: the entry decoder never checks it.
func laxify(der []byte, isTBS bool, shape int) []byte {
	n := derx.MustParse(der).Clone()
	tbs := n
	if !isTBS {
		tbs = n.Children[0]
	}
	base := 0
	if tbs.Children[0].Tag() == 0xa0 {
		base = 1
	}
	switch shape {
	case 1:
		s := tbs.Children[base]
		s.Content = append([]byte{0}, s.Content...)
	case 2:
		done := false
		tbs.Children[base+4].Walk(func(x *derx.Node) {
			if !done && x.Tag() == derx.TagPrintable && len(x.Content) > 0 {
				x.Content[0] = 0xe9
				done = true
			}
		})
	case 3:
		for _, k := range tbs.Children {
			if k.Tag() == 0xa3 && len(k.Children) == 1 {
				k.Children[0].Children = append(k.Children[0].Children, derx.MustParse(derx.Seq(derx.TLV(derx.TagOID), derx.Octets([]byte{5, 0}))))
			}
		}
	}
	return n.Encode()
}
