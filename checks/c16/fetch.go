package c16

import (
	"bytes"
	"context"
	"fmt"
	"sort"
	"sync"
	"sync/atomic"
	"testing"
	"time"

	ct "github.com/google/certificate-transparency-go"
	"github.com/google/certificate-transparency-go/scanner"
	"pgregory.net/rapid"

	"verif/internal/harness"
	"verif/internal/vt"
)

// expectation is the oracle's view of one run: which indices may be delivered and whether all must be.
type expectation struct {
	first   int64 // tree size of the first answered get-sth (-1: none)
	lo, hi  int64 // deliveries must lie in [lo, hi)
	mustAll bool  // every index of [lo, hi) must have been delivered (exactly once)
}

func expect(c *Case, o *outcome) expectation {
	e := expectation{first: o.firstSTH, lo: c.Start}
	if c.Continuous {
		e.hi = c.finalSize()
		e.mustAll = o.stopIssued && o.stopAt >= o.completeBy
	} else {
		// The first STH an object sees fixes EndIndex for every later call on it (Prepare caches it).
		e.hi = c.End
		if c.End == 0 || c.End > e.first {
			e.hi = e.first
		}
		e.mustAll = !o.stopIssued
	}
	if e.hi < e.lo {
		e.hi = e.lo
	}
	if e.first < 0 {
		e.hi, e.mustAll = e.lo, false
	}
	return e
}

// judgeTermination covers the clauses "Run / Scan return" and the breaches seen at the log's side.
// It reports whether the delivery oracles still make sense.
func judgeTermination(c *Case, o *outcome, v *harness.Verdict, what string) bool {
	for _, a := range o.aborts {
		v.Failf(a.Sig, "%s", a.Msg)
	}
	if o.raced {
		v.Failf("data-race", "the race detector reported a data race during this case (see WARNING: DATA RACE in the test log); %s (call %d) returned at %v, stop kind %d issued=%v at %v", what, o.phase, o.returnedAt, o.spec.StopKind, o.stopIssued, o.stopAt)
	}
	if o.deadlock != "" {
		v.Failf("hang-after-cancel", "%s did not return even after its context was cancelled: %s", what, o.deadlock)
		return false
	}
	if o.timedOut {
		f := o.fake
		switch {
		case o.phase == 0 && o.spec.StopKind == stopStop && o.stopIssued && c.Continuous && (f.firstSTH < 0 || o.stopAt <= f.firstSTHAt):
			v.Failf("stop-during-prepare-ignored", "Fetcher.Stop() was called at %v while Run was still fetching its first STH (answered at %v); the stop was lost and the continuous Run never returned (watchdog after %v of virtual time)",
				o.stopAt, f.firstSTHAt, c.bound()+3*time.Hour+o.planStop)
		case o.stopIssued:
			v.Failf("no-return-after-stop", "%s (call %d) did not return after stop kind %d issued at %v (watchdog)", what, o.phase, o.spec.StopKind, o.stopAt)
		default:
			v.Failf("non-termination", "%s (call %d) did not return although the range [%d, ...) was finite and never stopped (watchdog)", what, o.phase, c.Start)
		}
		return false
	}
	if !o.returned {
		v.Failf("non-termination", "%s did not return", what)
		return false
	}
	if c.Continuous && !o.stopIssued && len(o.aborts) == 0 && o.firstSTH >= 0 && o.returnedAt < o.planStop {
		// continuous mode "carries on with newly published entries": it ends by Stop / cancel only,
		// whatever (finite) error bursts its get-sth polls meet
		v.Failf("continuous-returned-unstopped", "%s (call %d, started at %v, Stop before first Run: %v) in continuous mode returned %v at %v although neither Stop nor cancel had been issued (planned for %v); get-sth calls %d of which %d failed", what, o.phase, o.startAt, c.PreStop, o.err, o.returnedAt, o.planStop, o.fake.sthCalls, o.fake.sthErrs)
		return false
	}
	if o.late > 0 {
		v.Failf("callback-after-return", "%d callbacks began after %s had returned", o.late, what)
	}
	return len(o.aborts) == 0
}

type batchRec struct {
	phase   int
	start   int64
	entries []ct.LeafEntry
}

func genFetch(t *rapid.T) Case {
	c := genCase(t, false)
	// Thorough tier only, rare - about 1 case in 5000 - (a case moves some 60 MB): a log that answers a very large batch in full,
	// so that one get-entries body read by the real client exceeds 16 MiB (about 2.5 KB of JSON per entry).
	// (two interior values must be hit: rapid favours the ends of a range, so a single "1 in n" draw is not rare)
	if harness.Thorough() && rapid.IntRange(0, 59).Draw(t, "bigBodyA") == 37 && rapid.IntRange(0, 49).Draw(t, "bigBodyB") == 23 {
		n := rapid.Int64Range(7000, 7600).Draw(t, "bigBodySize")
		c = Case{
			Init: n, Batch: int(n) + rapid.IntRange(0, 3000).Draw(t, "bigBodyBatchExtra"), Fetchers: rapid.IntRange(1, 2).Draw(t, "bigBodyFetchers"),
			Plans: []Plan{{LatMs: rapid.Int64Range(0, 50).Draw(t, "bigBodyLat")}}, CbLatMs: []int64{0}, Route: routeHTTP,
			PoolSeed: c.PoolSeed, PoolStride: c.PoolStride,
		}
	}
	return c
}

func checkFetch(t *testing.T, c Case) (v harness.Verdict) {
	c.normalise()
	log := buildLog(c.finalSize(), c.PoolSeed, c.PoolStride)
	var mu sync.Mutex
	var got []batchRec
	late := make([]int64, 2)
	var warm []*warmResult
	outs := runCase(t, "fetch", &c, log, func(f *fakeLog, st *runState) (func(ctx context.Context) error, func()) {
		for _, w := range c.Warm {
			warm = append(warm, runWarm(w, log))
		}
		fe := scanner.NewFetcher(clientFor(&c, f), fetcherOptions(&c))
		run := func(ctx context.Context) error {
			return fe.Run(ctx, func(b scanner.EntryBatch) {
				ph := int(st.phase.Load())
				if st.returned.Load() {
					atomic.AddInt64(&late[ph], 1)
				}
				mu.Lock()
				got = append(got, batchRec{phase: ph, start: b.Start, entries: b.Entries})
				mu.Unlock()
				if st.callbackMustStop() {
					fe.Stop() // on the worker's own goroutine
				}
				if d := c.cbLat(b.Start); d > 0 {
					vt.Sleep(context.Background(), d)
				}
			})
		}
		return run, fe.Stop
	})
	classify(&c, outs, &v)
	for i, w := range warm {
		w.judge(i, &v)
	}
	for _, o := range outs {
		o.late = late[o.phase]
		var mine []batchRec
		for _, b := range got {
			if b.phase == o.phase {
				mine = append(mine, b)
			}
		}
		judgeFetchPhase(&c, o, log, mine, &v)
	}
	return v
}

// fetcherOptions builds the options of the main object: a literal, or the package defaults modified only
// through the documented fields that differ from them (EndIndex 0 = tree size, StartIndex 0, one-shot).
func fetcherOptions(c *Case) *scanner.FetcherOptions {
	if !c.Defaults {
		return &scanner.FetcherOptions{BatchSize: c.Batch, ParallelFetch: c.Fetchers, StartIndex: c.Start, EndIndex: c.End, Continuous: c.Continuous}
	}
	opts := scanner.DefaultFetcherOptions()
	opts.BatchSize = c.Batch
	opts.ParallelFetch = c.Fetchers
	if c.Start != 0 {
		opts.StartIndex = c.Start
	}
	if c.End != 0 {
		opts.EndIndex = c.End
	}
	if c.Continuous {
		opts.Continuous = true
	}
	return opts
}

// judgeFetchPhase applies the delivery oracles to one Run call: exactly-once and completeness hold per call.
func judgeFetchPhase(c *Case, o *outcome, log []truth, got []batchRec, v *harness.Verdict) {
	ok := judgeTermination(c, o, v, "Fetcher.Run")
	e := expect(c, o)
	tag := fmt.Sprintf("call %d: ", o.phase)

	if o.returned && !o.timedOut {
		switch {
		case e.first < 0 && o.err == nil:
			v.Failf("prepare-error-swallowed", "%sno get-sth was ever answered but Run returned nil", tag)
		case e.first >= 0 && o.err != nil && len(o.aborts) == 0:
			v.Failf("run-error", "%sRun returned %v although get-sth was answered", tag, o.err)
		}
	}
	count := map[int64]int{}
	below, beyond, wrong, dups := 0, 0, 0, 0
	var firstMsg = map[string]string{}
	note := func(k, msg string) {
		if _, ok := firstMsg[k]; !ok {
			firstMsg[k] = msg
		}
	}
	for _, b := range got {
		for j, le := range b.entries {
			idx := b.start + int64(j)
			count[idx]++
			if count[idx] == 2 {
				dups++
				note("dup", fmt.Sprintf("index %d delivered more than once", idx))
			}
			switch {
			case idx < e.lo:
				below++
				note("below", fmt.Sprintf("index %d delivered, below StartIndex %d", idx, e.lo))
			case idx >= e.hi:
				beyond++
				note("beyond", fmt.Sprintf("index %d delivered, outside [%d, %d)", idx, e.lo, e.hi))
			}
			if idx < 0 || idx >= int64(len(log)) {
				wrong++
				note("wrong", fmt.Sprintf("index %d delivered but the log never had it", idx))
			} else if !bytes.Equal(le.LeafInput, log[idx].Leaf) || !bytes.Equal(le.ExtraData, log[idx].Extra) {
				wrong++
				note("wrong", fmt.Sprintf("index %d delivered with bytes the log did not serve for it (batch start %d, position %d)", idx, b.start, j))
			}
		}
	}
	if dups > 0 {
		v.Failf("duplicate-delivery", "%s%d indices delivered more than once; first: %s", tag, dups, firstMsg["dup"])
	}
	if wrong > 0 {
		v.Failf("wrong-bytes", "%s%d deliveries with the wrong bytes; first: %s", tag, wrong, firstMsg["wrong"])
	}
	if below > 0 {
		if c.Continuous && e.first >= 0 && c.Start > e.first {
			v.Failf("continuous-start-beyond-tree", "%scontinuous fetch with StartIndex %d beyond the tree size %d at start-up delivered %d indices below StartIndex; first: %s", tag, c.Start, e.first, below, firstMsg["below"])
		} else {
			v.Failf("delivered-below-start", "%s%d deliveries below StartIndex; first: %s", tag, below, firstMsg["below"])
		}
	}
	if beyond > 0 {
		v.Failf("delivered-beyond-range", "%s%d deliveries beyond the range; first: %s", tag, beyond, firstMsg["beyond"])
	}
	if ok && e.mustAll {
		missing := 0
		for i := e.lo; i < e.hi; i++ {
			if count[i] == 0 {
				missing++
				note("missing", fmt.Sprintf("index %d of [%d, %d) never delivered", i, e.lo, e.hi))
			}
		}
		if missing > 0 {
			v.Failf("missing-delivery", "%s%d indices never delivered (Run started at %v, returned at %v, stop issued=%v at %v, Stop before first Run: %v); first: %s", tag, missing, o.startAt, o.returnedAt, o.stopIssued, o.stopAt, c.PreStop, firstMsg["missing"])
		}
	}
	if ok && (o.spec.StopKind == stopStop || o.spec.StopKind == stopInCallback) && o.stopIssued && below == 0 && len(count) > 0 {
		// graceful stop: "Run will try to finish all the started fetches" - what was delivered has no holes
		idx := make([]int64, 0, len(count))
		for i := range count {
			idx = append(idx, i)
		}
		sort.Slice(idx, func(a, b int) bool { return idx[a] < idx[b] })
		if idx[0] != e.lo || idx[len(idx)-1] != e.lo+int64(len(idx))-1 {
			v.Failf("gap-after-stop", "%safter a graceful Stop the delivered indices are not the contiguous run from %d: %d distinct indices between %d and %d", tag, e.lo, len(idx), idx[0], idx[len(idx)-1])
		}
	}
	pre := ""
	if o.phase > 0 {
		pre = "again-"
	}
	if e.mustAll {
		v.Class(pre + "oracle:complete")
	} else {
		v.Class(pre + "oracle:partial")
	}
	v.Class(fmt.Sprintf("%sdelivered:%s", pre, bucket(int64(len(count)))))
	v.Class(fmt.Sprintf("%srange:%s", pre, bucket(e.hi-e.lo)))
}

func bucket(n int64) string {
	switch {
	case n == 0:
		return "0"
	case n <= 10:
		return "1-10"
	case n <= 50:
		return "11-50"
	case n <= 150:
		return "51-150"
	}
	return ">150"
}

// classify adds the class labels and the non-trivial rule shared by both sub-properties.
func classify(c *Case, outs []*outcome, v *harness.Verdict) {
	o := outs[0]
	f := o.fake
	if f == nil {
		return
	}
	if c.PreStop {
		v.Class("reuse:stop-before-first-run")
	}
	if c.Route == routeHTTP {
		v.Class("route:real-client-over-http")
		if f.maxBody > 16<<20 {
			v.Class("route:get-entries-body>16MiB")
		}
	} else {
		v.Class("route:interface")
	}
	if c.Defaults {
		v.Class("options:from-package-defaults", fmt.Sprintf("options:earlier-default-fetches=%d", len(c.Warm)))
		for _, w := range c.Warm {
			if f.firstSTH >= 0 && w.Size < f.firstSTH && c.End == 0 {
				v.Class("options:earlier-default-fetch-on-smaller-log,end=0")
				break
			}
		}
	} else {
		v.Class("options:literal")
	}
	if len(outs) > 1 {
		a := outs[1]
		first := "completed"
		if o.stopIssued {
			first = fmt.Sprintf("stopped-kind%d", o.spec.StopKind)
		}
		second := "never-stopped"
		switch {
		case a.spec.StopKind != stopNever && !a.stopIssued:
			second = "stop-after-return"
		case a.spec.StopKind != stopNever && a.spec.StopAtMs < 0:
			second = "stopped-after-settling"
		case a.spec.StopKind != stopNever:
			second = "stopped-midway"
		}
		v.Class("reuse:second-call", "reuse:first-"+first+",second-"+second)
	} else if c.Again != nil {
		v.Class("reuse:second-call-not-reached")
	}
	grew := f.grewAfter
	v.NonTrivial = f.shortReads > 0 || len(f.errs) > 0 || f.sthErrs > 0 || c.Fetchers >= 2 || grew
	if c.Continuous {
		v.Class("mode:continuous")
	} else {
		v.Class("mode:one-shot")
	}
	switch {
	case c.StopKind == stopNever:
		v.Class("stop:never")
	case !o.stopIssued:
		v.Class("stop:after-return")
	case c.StopKind == stopInCallback && o.stopAt < o.planStop:
		v.Class("stop:from-inside-callback")
	case c.StopKind == stopInCallback:
		v.Class("stop:from-inside-callback-not-reached")
	case c.StopAtMs < 0:
		v.Class(fmt.Sprintf("stop:kind%d-after-settling", c.StopKind))
	default:
		v.Class(fmt.Sprintf("stop:kind%d-midway", c.StopKind))
	}
	if f.shortReads > 0 {
		v.Class("log:short-read")
	}
	for k := range f.errs {
		v.Class(fmt.Sprintf("log:get-entries-err-kind%d", k))
	}
	if f.sthErrs > 0 {
		v.Class("log:get-sth-err")
	}
	for k := range f.sthPollErrs {
		v.Class(fmt.Sprintf("log:get-sth-poll-err-kind%d", k))
	}
	if f.firstSTH < 0 {
		v.Class("log:no-sth-answered")
	}
	if grew {
		v.Class("log:growth-seen")
	}
	if len(c.Steps) > 0 {
		v.Class("log:grows")
	}
	if f.maxInflight >= 2 {
		v.Class("parallel:requests-overlap")
	}
	if c.Fetchers >= 2 {
		v.Class("fetchers:2+")
	} else {
		v.Class("fetchers:1")
	}
	switch {
	case c.Start == 0:
		v.Class("start:0")
	case f.firstSTH >= 0 && c.Start > f.firstSTH:
		v.Class("start:beyond-tree")
		short := false
		for _, st := range c.Steps {
			if st.Size > f.firstSTH && st.Size <= c.Start {
				short = true
			}
		}
		if short && c.Continuous && c.finalSize() > c.Start {
			v.Class("start:approached-in-short-steps")
			if o.stopIssued && o.stopAt >= o.completeBy {
				v.Class("start:approached-in-short-steps-and-passed-before-stop")
			}
		}
	case f.firstSTH >= 0 && c.Start == f.firstSTH:
		v.Class("start:at-tree-size")
	default:
		v.Class("start:inside")
	}
	switch {
	case c.End == 0:
		v.Class("end:0")
	case f.firstSTH >= 0 && c.End > f.firstSTH:
		v.Class("end:beyond-tree")
	case c.End < c.Start:
		v.Class("end:below-start")
	default:
		v.Class("end:inside")
	}
	if c.Batch == 1 {
		v.Class("batch:1")
	} else if c.Batch <= 4 {
		v.Class("batch:2-4")
	} else if c.Batch > 50 {
		v.Class("batch:near-max-int")
		if c.Start > 0 {
			v.Class("batch:near-max-int,start>0")
		}
	} else {
		v.Class("batch:5-50")
	}
}
