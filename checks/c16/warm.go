package c16

import (
	"bytes"
	"context"
	"fmt"
	"sync"
	"time"

	"github.com/google/certificate-transparency-go/scanner"

	"verif/internal/harness"
)

// Warm describes an earlier, independent fetch made in the same process before the case's main object is
// built: a Fetcher run directly on the options returned by scanner.DefaultFetcherOptions() (modified
// only through its documented fields) against a log that publishes the first Size entries of the
// generated log, one-shot, never stopped. Fetchers and scanners built from the package defaults are
// independent objects: each must deliver its own range, whatever ran before it.
type Warm struct {
	Size     int64
	Batch    int // 0: keep the default batch size
	Fetchers int // 0: keep the default
	Start    int64
}

type warmResult struct {
	spec       Warm
	size       int64
	err        error
	count      map[int64]int
	wrongBytes int
	aborts     []harness.Violation
	timedOut   bool
}

// runWarm must be called inside the bubble.
func runWarm(w Warm, log []truth) *warmResult {
	r := &warmResult{spec: w, size: min(max(w.Size, 0), int64(len(log))), count: map[int64]int{}}
	wc := &Case{Init: r.size, Plans: []Plan{{}}, CbLatMs: []int64{0}}
	ctx, cancel := context.WithTimeout(context.Background(), 6*time.Hour)
	defer cancel()
	var mu sync.Mutex
	fake := newFakeLog(wc, log, func(sig, msg string) {
		mu.Lock()
		r.aborts = append(r.aborts, harness.Violation{Sig: sig, Msg: "earlier fetch: " + msg})
		mu.Unlock()
		cancel()
	})
	opts := scanner.DefaultFetcherOptions()
	if w.Batch > 0 {
		opts.BatchSize = w.Batch
	}
	if w.Fetchers > 0 {
		opts.ParallelFetch = w.Fetchers
	}
	if w.Start > 0 {
		opts.StartIndex = w.Start
	}
	fe := scanner.NewFetcher(fake, opts)
	r.err = fe.Run(ctx, func(b scanner.EntryBatch) {
		mu.Lock()
		defer mu.Unlock()
		for j, le := range b.Entries {
			idx := b.Start + int64(j)
			r.count[idx]++
			if idx < 0 || idx >= int64(len(log)) || !bytes.Equal(le.LeafInput, log[idx].Leaf) || !bytes.Equal(le.ExtraData, log[idx].Extra) {
				r.wrongBytes++
			}
		}
	})
	r.timedOut = ctx.Err() == context.DeadlineExceeded
	return r
}

// judge: a one-shot, never-stopped fetch built from the package defaults delivers exactly [Start, size).
func (r *warmResult) judge(n int, v *harness.Verdict) {
	tag := fmt.Sprintf("earlier fetch %d (DefaultFetcherOptions, log of %d entries, start %d): ", n, r.size, r.spec.Start)
	for _, a := range r.aborts {
		v.Failf(a.Sig, "%s", a.Msg)
	}
	if r.timedOut {
		v.Failf("non-termination", "%sRun had not returned after 6 h of virtual time", tag)
		return
	}
	if r.err != nil {
		v.Failf("run-error", "%sRun returned %v", tag, r.err)
	}
	if r.wrongBytes > 0 {
		v.Failf("wrong-bytes", "%s%d deliveries with the wrong bytes", tag, r.wrongBytes)
	}
	missing, dups, outside := 0, 0, 0
	for idx, k := range r.count {
		if k > 1 {
			dups++
		}
		if idx < r.spec.Start || idx >= r.size {
			outside++
		}
	}
	for i := r.spec.Start; i < r.size; i++ {
		if r.count[i] == 0 {
			missing++
		}
	}
	if dups > 0 {
		v.Failf("duplicate-delivery", "%s%d indices delivered more than once", tag, dups)
	}
	if outside > 0 {
		v.Failf("delivered-beyond-range", "%s%d indices outside [%d, %d) delivered", tag, outside, r.spec.Start, r.size)
	}
	if missing > 0 && len(r.aborts) == 0 {
		v.Failf("missing-delivery", "%s%d indices of [%d, %d) never delivered", tag, missing, r.spec.Start, r.size)
	}
}
