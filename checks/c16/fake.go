package c16

import (
	"context"
	"errors"
	"fmt"
	"io"
	"net"
	"net/url"
	"sync"
	"time"

	ct "github.com/google/certificate-transparency-go"
	"github.com/google/certificate-transparency-go/jsonclient"
	"google.golang.org/grpc/codes"
	"google.golang.org/grpc/status"

	"verif/internal/vt"
)

// Error kinds a scripted log can answer with.
const (
	errNone        = 0
	err429         = 1  // jsonclient.RspError 429
	err503         = 2  // jsonclient.RspError 503
	err500         = 3  // jsonclient.RspError 500
	errNet         = 4  // *url.Error{*net.OpError}
	errEOF         = 5  // io.ErrUnexpectedEOF (connection dropped mid-body)
	errTimeout     = 6  // *url.Error wrapping context.DeadlineExceeded (http.Client timeout)
	errUnavailable = 7  // gRPC-status Unavailable: the only kind trillian's backoff.Retry itself retries (with pauses)
	errCanceled    = 8  // transport error wrapping context.Canceled (a proxy / dialer gave up), not the caller's context
	errCutBody     = 9  // HTTP 200 whose JSON body is cut off (connection reset mid-response): the real client reports RspError{200}
	errGarbled     = 10 // HTTP 200 with a body that is not JSON (an intermediary's error page)
	nErrKinds      = 10
)

const fakeURI = "https://log.verif.example/c16"

const (
	cutBody     = `{"entries":[{"leaf_input":"AAAAAAF0aW1lc3RhbXA","extra_da`
	garbledBody = "<html><body><h1>502 upstream hiccup</h1></body></html>"
)

func mkErr(kind int) error {
	switch kind {
	case err429:
		return jsonclient.RspError{Err: errors.New(`got HTTP Status "429 Too Many Requests"`), StatusCode: 429, Body: []byte("slow down")}
	case err503:
		return jsonclient.RspError{Err: errors.New(`got HTTP Status "503 Service Unavailable"`), StatusCode: 503, Body: []byte("busy")}
	case err500:
		return jsonclient.RspError{Err: errors.New(`got HTTP Status "500 Internal Server Error"`), StatusCode: 500}
	case errNet:
		return &url.Error{Op: "Get", URL: fakeURI, Err: &net.OpError{Op: "dial", Net: "tcp", Err: errors.New("connect: connection refused")}}
	case errEOF:
		return io.ErrUnexpectedEOF
	case errTimeout:
		return &url.Error{Op: "Get", URL: fakeURI, Err: context.DeadlineExceeded}
	case errCanceled:
		return &url.Error{Op: "Get", URL: fakeURI, Err: fmt.Errorf("proxy: %w", context.Canceled)}
	case errCutBody:
		return jsonclient.RspError{Err: errors.New("unexpected EOF"), StatusCode: 200, Body: []byte(cutBody)}
	case errGarbled:
		return jsonclient.RspError{Err: errors.New("invalid character '<' looking for beginning of value"), StatusCode: 200, Body: []byte(garbledBody)}
	case errUnavailable:
		return status.Error(codes.Unavailable, "backend unavailable")
	}
	return fmt.Errorf("scripted error kind %d", kind)
}

// fakeLog is the scripted scanner.LogClient. Every decision is a function of the Case and of call
// counters (per request start index for get-entries, global for get-sth); only the published tree size
// is a (monotone, eventually constant) step function of virtual time. Every error burst is finite.
type fakeLog struct {
	c     *Case
	log   []truth
	start time.Time
	abort func(sig, msg string) // records a breach seen at the log's side and cancels the run

	mu          sync.Mutex
	calls       map[int64]int
	answered    map[int64]int // successful answers per start index within the current call
	sthCalls    int
	total       int
	firstSTH    int64         // tree size of the first successful get-sth (-1: none yet)
	firstSTHAt  time.Duration // when it was answered
	maxSTH      int64
	shortReads  int
	errs        map[int]int
	sthErrs     int
	sthPollErrs map[int]int // error kinds met by get-sth calls after the first (the polls of continuous mode)
	inflight    int
	maxInflight int
	requests    int
	grewAfter   bool // an STH bigger than the first one was handed out
	maxBody     int  // largest get-entries body served over the HTTP route
}

func newFakeLog(c *Case, log []truth, abort func(sig, msg string)) *fakeLog {
	return &fakeLog{c: c, log: log, start: time.Now(), abort: abort, calls: map[int64]int{}, answered: map[int64]int{}, firstSTH: -1, errs: map[int]int{}, sthPollErrs: map[int]int{}}
}

func (f *fakeLog) BaseURI() string { return fakeURI }

// newPhase forgets the per-start-index call counters, so that the error bursts hit a second call on
// the same object again.
func (f *fakeLog) newPhase() {
	f.mu.Lock()
	f.calls = map[int64]int{}
	f.answered = map[int64]int{}
	f.mu.Unlock()
}

// sizeNow evaluates the step function.
func (f *fakeLog) sizeNow() int64 {
	el := time.Since(f.start)
	n := f.c.Init
	for _, s := range f.c.Steps {
		if el >= time.Duration(s.AtMs)*time.Millisecond {
			n = s.Size
		}
	}
	return n
}

const callBudget = 400000 // a run that needs more get-entries calls than this is spinning

func (f *fakeLog) GetSTH(ctx context.Context) (*ct.SignedTreeHead, error) {
	size, kind, err := f.sth(ctx)
	if err != nil {
		return nil, err
	}
	if kind != errNone {
		return nil, mkErr(kind)
	}
	return &ct.SignedTreeHead{Version: ct.V1, TreeSize: uint64(size), Timestamp: t0 + uint64(size)}, nil
}

// sth is the scripted get-sth: the tree size, or the kind of the scripted failure, or the context's error.
func (f *fakeLog) sth(ctx context.Context) (int64, int, error) {
	f.mu.Lock()
	n := f.sthCalls
	f.sthCalls++
	f.mu.Unlock()
	if !vt.Sleep(ctx, time.Duration(f.c.STHLatMs)*time.Millisecond) {
		return 0, errNone, ctx.Err()
	}
	if n < len(f.c.STHErrs) && f.c.STHErrs[n] != errNone {
		f.mu.Lock()
		f.sthErrs++
		if n > 0 {
			f.sthPollErrs[f.c.STHErrs[n]]++
		}
		f.mu.Unlock()
		return 0, f.c.STHErrs[n], nil
	}
	size := f.sizeNow()
	f.mu.Lock()
	if f.firstSTH < 0 {
		f.firstSTH = size
		f.firstSTHAt = time.Since(f.start)
	} else if size > f.firstSTH {
		f.grewAfter = true
	}
	if size > f.maxSTH {
		f.maxSTH = size
	}
	f.mu.Unlock()
	return size, errNone, nil
}

func (f *fakeLog) GetRawEntries(ctx context.Context, start, end int64) (*ct.GetEntriesResponse, error) {
	resp, kind, err := f.entries(ctx, start, end)
	if err != nil {
		return nil, err
	}
	if kind != errNone {
		return nil, mkErr(kind)
	}
	return resp, nil
}

// countCall enforces the call budget (also used by the HTTP route for requests the real client refuses
// before they reach the log).
func (f *fakeLog) countCall() bool {
	f.mu.Lock()
	f.total++
	total := f.total
	f.mu.Unlock()
	if total > 2*callBudget {
		// the run keeps hammering the log although it was cancelled: no virtual time passes in such a loop,
		// so the watchdog cannot end it. Dying loudly leaves the persisted case for the driver.
		panic(fmt.Sprintf("c16: request storm: %d get-entries calls, run does not stop after cancellation", total))
	}
	if total > callBudget {
		f.abort("request-storm", fmt.Sprintf("more than %d get-entries calls", callBudget))
		return false
	}
	return true
}

// entries is the scripted get-entries: the answer, or the kind of the scripted failure, or the context's error.
func (f *fakeLog) entries(ctx context.Context, start, end int64) (*ct.GetEntriesResponse, int, error) {
	if !f.countCall() {
		return nil, errNone, context.Canceled
	}
	f.mu.Lock()
	n := f.calls[start]
	f.calls[start] = n + 1
	f.inflight++
	if f.inflight > f.maxInflight {
		f.maxInflight = f.inflight
	}
	f.mu.Unlock()
	defer func() {
		f.mu.Lock()
		f.inflight--
		f.mu.Unlock()
	}()
	if start < 0 || end < start {
		f.abort("bad-request", fmt.Sprintf("get-entries start=%d end=%d", start, end))
		return nil, errNone, context.Canceled
	}
	p := f.c.Plans[int(start%int64(len(f.c.Plans)))]
	if n < len(p.Errs) {
		if !vt.Sleep(ctx, time.Duration(p.ErrLatMs)*time.Millisecond) {
			return nil, errNone, ctx.Err()
		}
		f.mu.Lock()
		f.errs[p.Errs[n]]++
		f.mu.Unlock()
		return nil, p.Errs[n], nil
	}
	if !vt.Sleep(ctx, time.Duration(p.LatMs)*time.Millisecond) {
		return nil, errNone, ctx.Err()
	}
	f.mu.Lock()
	announced := f.maxSTH
	f.mu.Unlock()
	if start >= announced {
		// nothing the log ever announced covers this index: a real log answers 400 for ever
		f.abort("request-beyond-sth", fmt.Sprintf("get-entries start=%d end=%d but the largest tree size announced is %d", start, end, announced))
		return nil, errNone, context.Canceled
	}
	if end >= announced {
		end = announced - 1
	}
	asked := int(end - start + 1)
	k := asked
	if p.Short > 0 {
		k = 1 + (p.Short-1)%asked
	}
	resp := &ct.GetEntriesResponse{Entries: make([]ct.LeafEntry, k)}
	for i := 0; i < k; i++ {
		tr := f.log[start+int64(i)]
		resp.Entries[i] = ct.LeafEntry{LeafInput: append([]byte{}, tr.Leaf...), ExtraData: append([]byte{}, tr.Extra...)}
	}
	f.mu.Lock()
	f.requests++
	if k < asked {
		f.shortReads++
	}
	f.answered[start]++
	again := f.answered[start]
	f.mu.Unlock()
	if again > maxAnswersPerStart {
		// the log keeps answering this request correctly and the fetcher keeps asking for it again: the
		// entries do not get through (no virtual time passes in such a loop, so this is the way out)
		f.abort("answered-request-repeated", fmt.Sprintf("get-entries start=%d end=%d was answered correctly (%d entries) %d times within one call and is still being asked for", start, end, k, again))
		return nil, errNone, context.Canceled
	}
	return resp, errNone, nil
}

const maxAnswersPerStart = 25
