package c16

import (
	"bytes"
	"context"
	"fmt"
	"math/big"
	"sync"
	"sync/atomic"
	"testing"

	ct "github.com/google/certificate-transparency-go"
	"github.com/google/certificate-transparency-go/scanner"
	"github.com/google/certificate-transparency-go/x509"
	"pgregory.net/rapid"

	"verif/internal/harness"
	"verif/internal/rfc6962"
	"verif/internal/vt"
)

// Matcher kinds of a scan case.
const (
	mAll       = 0 // scanner.MatchAll
	mNone      = 1 // scanner.MatchNone
	mSerial    = 2 // scanner.MatchSerialNumber (serial of pool member MatchArg)
	mSerialMod = 3 // custom Matcher: (serial >> 8) % MatchMod == MatchArg % MatchMod
	mLeafMod   = 4 // custom LeafMatcher on the leaf timestamp: (ts - T0) % MatchMod == MatchArg % MatchMod
	mTimestamp = 5 // scanner.MatchSCTTimestamp (timestamp of index MatchArg)
	mParseFail = 6 // scanner.CertParseFailMatcher
	mParseWarn = 7 // scanner.CertParseFailMatcher{MatchNonFatalErrs: true}
)

type serialMod struct{ mod, rem uint64 }

func (m serialMod) sel(s *big.Int) bool {
	return s != nil && s.IsUint64() && (s.Uint64()>>8)%m.mod == m.rem
}
func (m serialMod) CertificateMatches(c *x509.Certificate) bool {
	return c != nil && m.sel(c.SerialNumber)
}
func (m serialMod) PrecertificateMatches(p *ct.Precertificate) bool {
	return p != nil && p.TBSCertificate != nil && m.sel(p.TBSCertificate.SerialNumber)
}

type leafMod struct{ mod, rem uint64 }

func (m leafMod) Matches(le *ct.LeafEntry) bool {
	l, _, err := rfc6962.DecodeLeaf(le.LeafInput)
	return err == nil && (l.Timestamp-t0)%m.mod == m.rem
}

// selected is the oracle: does the scanner have to report index i, by ground truth of the generated log.
func selected(c *Case, tr truth, i int64) bool {
	if c.PrecertOnly && tr.Kind == kindCert {
		return false
	}
	mod, rem := uint64(c.MatchMod), uint64(c.MatchArg%c.MatchMod)
	switch c.Matcher {
	case mAll:
		return tr.Parsable
	case mNone:
		return false
	case mSerial:
		return tr.Parsable && tr.Serial == pool()[c.MatchArg%nGood].Serial
	case mSerialMod:
		return tr.Parsable && (tr.Serial>>8)%mod == rem
	case mLeafMod:
		return uint64(i)%mod == rem
	case mTimestamp:
		return tr.Parsable && i == int64(c.MatchArg)
	case mParseFail:
		return !tr.Parsable
	case mParseWarn:
		return !tr.Parsable || tr.NonFatal
	}
	return false
}

func matcherFor(c *Case) interface{} {
	mod, rem := uint64(c.MatchMod), uint64(c.MatchArg%c.MatchMod)
	switch c.Matcher {
	case mAll:
		return scanner.MatchAll{}
	case mNone:
		return scanner.MatchNone{}
	case mSerial:
		var m scanner.MatchSerialNumber
		m.SerialNumber.SetUint64(pool()[c.MatchArg%nGood].Serial)
		return m
	case mSerialMod:
		return serialMod{mod, rem}
	case mLeafMod:
		return leafMod{mod, rem}
	case mTimestamp:
		return scanner.MatchSCTTimestamp{Timestamp: t0 + uint64(c.MatchArg)}
	case mParseFail:
		return scanner.CertParseFailMatcher{}
	case mParseWarn:
		return scanner.CertParseFailMatcher{MatchNonFatalErrs: true}
	}
	return scanner.MatchAll{}
}

type foundRec struct {
	phase int
	kind  int
	index int64
	ts    uint64
	cert  []byte
}

func genScan(t *rapid.T) Case { return genCase(t, true) }

func checkScan(t *testing.T, c Case) (v harness.Verdict) {
	c.normalise()
	pool()
	if c.Matcher < 0 || c.Matcher > mParseWarn {
		c.Matcher = mAll
	}
	if c.MatchArg < 0 {
		c.MatchArg = -c.MatchArg
	}
	log := buildLog(c.finalSize(), c.PoolSeed, c.PoolStride)
	var mu sync.Mutex
	var got []foundRec
	late := make([]int64, 2)
	var warm []*warmResult
	outs := runCase(t, "scan", &c, log, func(f *fakeLog, st *runState) (func(ctx context.Context) error, func()) {
		for _, w := range c.Warm {
			warm = append(warm, runWarm(w, log))
		}
		opts := scanner.ScannerOptions{
			FetcherOptions: scanner.FetcherOptions{BatchSize: c.Batch, ParallelFetch: c.Fetchers, StartIndex: c.Start, EndIndex: c.End, Continuous: c.Continuous},
			Matcher:        matcherFor(&c), PrecertOnly: c.PrecertOnly, NumWorkers: c.Workers, BufferSize: c.Buffer,
		}
		if c.Defaults {
			d := scanner.DefaultScannerOptions()
			d.BatchSize, d.ParallelFetch = c.Batch, c.Fetchers
			if c.Start != 0 {
				d.StartIndex = c.Start
			}
			if c.End != 0 {
				d.EndIndex = c.End
			}
			if c.Continuous {
				d.Continuous = true
			}
			d.Matcher, d.NumWorkers, d.BufferSize = matcherFor(&c), c.Workers, c.Buffer
			if c.PrecertOnly {
				d.PrecertOnly = true
			}
			opts = *d
		}
		s := scanner.NewScanner(clientFor(&c, f), opts)
		found := func(kind int) func(*ct.RawLogEntry) {
			return func(e *ct.RawLogEntry) {
				ph := int(st.phase.Load())
				if st.returned.Load() {
					atomic.AddInt64(&late[ph], 1)
				}
				r := foundRec{phase: ph, kind: kind, index: -1}
				if e != nil {
					r.index = e.Index
					r.ts = e.Leaf.TimestampedEntry.Timestamp
					r.cert = append([]byte{}, e.Cert.Data...)
				}
				mu.Lock()
				got = append(got, r)
				mu.Unlock()
				if d := c.cbLat(r.index + 1); d > 0 {
					vt.Sleep(context.Background(), d)
				}
			}
		}
		run := func(ctx context.Context) error { return s.Scan(ctx, found(kindCert), found(kindPrecert)) }
		return run, nil
	})
	classify(&c, outs, &v)
	v.Class(fmt.Sprintf("matcher:%d", c.Matcher))
	if c.PrecertOnly {
		v.Class("precert-only")
	}
	if c.Workers >= 2 {
		v.Class("workers:2+")
	} else {
		v.Class("workers:1")
	}
	if c.Buffer == 0 {
		v.Class("buffer:0")
	} else {
		v.Class("buffer:1+")
	}
	for i, w := range warm {
		w.judge(i, &v)
	}
	for _, o := range outs {
		o.late = late[o.phase]
		var mine []foundRec
		for _, r := range got {
			if r.phase == o.phase {
				mine = append(mine, r)
			}
		}
		judgeScanPhase(&c, o, log, mine, &v)
	}
	return v
}

// judgeScanPhase applies the oracles to one Scan call (a Scanner may be used for several scans: ScanLog
// resets its counters at the start of every call): exactly-once and completeness hold per call.
func judgeScanPhase(cp *Case, o *outcome, log []truth, got []foundRec, v *harness.Verdict) {
	c := *cp
	tag := fmt.Sprintf("call %d: ", o.phase)
	ok := judgeTermination(&c, o, v, "Scanner.Scan")
	e := expect(&c, o)
	if o.returned && !o.timedOut {
		switch {
		case e.first < 0 && o.err == nil:
			v.Failf("prepare-error-swallowed", "%sno get-sth was ever answered but Scan returned nil", tag)
		case e.first >= 0 && o.err != nil && len(o.aborts) == 0:
			v.Failf("run-error", "%sScan returned %v although get-sth was answered", tag, o.err)
		}
	}

	count := map[int64]int{}
	firstMsg := map[string]string{}
	n := map[string]int{}
	note := func(k, msg string) {
		n[k]++
		if _, ok := firstMsg[k]; !ok {
			firstMsg[k] = msg
		}
	}
	for _, r := range got {
		count[r.index]++
		if count[r.index] == 2 {
			note("dup", fmt.Sprintf("index %d reported more than once", r.index))
		}
		if r.index < 0 || r.index >= int64(len(log)) {
			note("wrong", fmt.Sprintf("index %d reported but the log never had it", r.index))
			continue
		}
		tr := log[r.index]
		switch {
		case r.index < e.lo:
			note("below", fmt.Sprintf("index %d reported, below StartIndex %d", r.index, e.lo))
		case r.index >= e.hi:
			note("beyond", fmt.Sprintf("index %d reported, outside [%d, %d)", r.index, e.lo, e.hi))
		}
		if !selected(&c, tr, r.index) {
			note("unselected", fmt.Sprintf("index %d (kind %d, parsable %v, serial %d) reported although matcher %d (arg %d mod %d, precertOnly %v) does not select it", r.index, tr.Kind, tr.Parsable, tr.Serial, c.Matcher, c.MatchArg, c.MatchMod, c.PrecertOnly))
		}
		if r.kind != tr.Kind {
			note("kind", fmt.Sprintf("index %d is of kind %d but callback %d was invoked", r.index, tr.Kind, r.kind))
		}
		if r.ts != tr.TS || !bytes.Equal(r.cert, tr.Cert) {
			note("wrong", fmt.Sprintf("index %d reported with the content of another entry (timestamp %d, want %d; cert equal %v)", r.index, r.ts, tr.TS, bytes.Equal(r.cert, tr.Cert)))
		}
	}
	if n["dup"] > 0 {
		v.Failf("duplicate-delivery", tag+"%d indices reported more than once; first: %s", n["dup"], firstMsg["dup"])
	}
	if n["wrong"] > 0 {
		v.Failf("wrong-bytes", tag+"%d reports with wrong content; first: %s", n["wrong"], firstMsg["wrong"])
	}
	if n["kind"] > 0 {
		v.Failf("wrong-callback-kind", tag+"%d reports through the wrong callback; first: %s", n["kind"], firstMsg["kind"])
	}
	if n["unselected"] > 0 {
		v.Failf("unselected-reported", tag+"%d reports of entries the matcher does not select; first: %s", n["unselected"], firstMsg["unselected"])
	}
	if n["below"] > 0 {
		if c.Continuous && e.first >= 0 && c.Start > e.first {
			v.Failf("continuous-start-beyond-tree", tag+"continuous scan with StartIndex %d beyond the tree size %d at start-up reported %d indices below StartIndex; first: %s", c.Start, e.first, n["below"], firstMsg["below"])
		} else {
			v.Failf("delivered-below-start", tag+"%d reports below StartIndex; first: %s", n["below"], firstMsg["below"])
		}
	}
	if n["beyond"] > 0 {
		v.Failf("delivered-beyond-range", tag+"%d reports beyond the range; first: %s", n["beyond"], firstMsg["beyond"])
	}
	nsel, ncert, npre, ngarbage, nwarnSel := 0, 0, 0, 0, 0
	for i := e.lo; i < e.hi; i++ {
		if !log[i].Parsable {
			ngarbage++
		}
		if log[i].NonFatal && selected(&c, log[i], i) {
			nwarnSel++
		}
		if !selected(&c, log[i], i) {
			continue
		}
		nsel++
		if log[i].Kind == kindCert {
			ncert++
		} else {
			npre++
		}
		if ok && e.mustAll && count[i] == 0 {
			note("missing", fmt.Sprintf("selected index %d of [%d, %d) never reported", i, e.lo, e.hi))
		}
	}
	if n["missing"] > 0 {
		v.Failf("missing-delivery", tag+"%d selected indices never reported (Scan returned at %v, cancel issued=%v at %v); first: %s", n["missing"], o.returnedAt, o.stopIssued, o.stopAt, firstMsg["missing"])
	}
	pre := ""
	if o.phase > 0 {
		pre = "again-"
	}
	if e.mustAll {
		v.Class(pre + "oracle:complete")
	} else {
		v.Class(pre + "oracle:partial")
	}
	v.Class(fmt.Sprintf("%sselected:%s", pre, bucket(int64(nsel))))
	v.Class(fmt.Sprintf("%srange:%s", pre, bucket(e.hi-e.lo)))
	v.Class(fmt.Sprintf("%sreported:%s", pre, bucket(int64(len(count)))))
	if o.phase > 0 {
		return
	}
	if ncert > 0 {
		v.Class("selected:has-cert")
	}
	if npre > 0 {
		v.Class("selected:has-precert")
	}
	if ngarbage > 0 {
		v.Class("range:has-unparsable")
	}
	if nwarnSel > 0 {
		v.Class("selected:has-nonfatal-parse-error")
	}
}
