package c16

import (
	"bytes"
	"context"
	"encoding/base64"
	"fmt"
	"io"
	"net"
	"net/http"
	"strconv"
	"strings"

	ct "github.com/google/certificate-transparency-go"
	"github.com/google/certificate-transparency-go/client"
	"github.com/google/certificate-transparency-go/jsonclient"
	"github.com/google/certificate-transparency-go/scanner"
)

// Route "http": the fetcher / scanner talks to the scripted log through the repository's REAL
// client.LogClient (jsonclient underneath) over an in-process http.RoundTripper. The script is the same;
// its failures are rendered at the HTTP level - status codes with bodies, transport errors, and 200
// answers whose body is cut off or is not JSON - so that whatever error values the real client derives
// from them are what the fetcher has to survive. Nothing touches the network.

type httpLog struct{ f *fakeLog }

func httpResponse(req *http.Request, code int, body []byte) *http.Response {
	return &http.Response{
		StatusCode: code, Status: fmt.Sprintf("%d %s", code, http.StatusText(code)),
		Proto: "HTTP/1.1", ProtoMajor: 1, ProtoMinor: 1,
		Header: http.Header{"Content-Type": {"application/json"}}, Body: io.NopCloser(bytes.NewReader(body)),
		ContentLength: int64(len(body)), Request: req,
	}
}

type timeoutError struct{}

func (timeoutError) Error() string   { return "net/http: timeout awaiting response headers" }
func (timeoutError) Timeout() bool   { return true }
func (timeoutError) Temporary() bool { return true }

// failure renders a scripted error kind at the HTTP level.
func failure(req *http.Request, kind int, cut string) (*http.Response, error) {
	switch kind {
	case err429:
		return httpResponse(req, 429, []byte("slow down")), nil
	case err503, errUnavailable:
		return httpResponse(req, 503, []byte("busy")), nil
	case err500:
		return httpResponse(req, 500, nil), nil
	case errNet:
		return nil, &net.OpError{Op: "dial", Net: "tcp", Err: fmt.Errorf("connect: connection refused")}
	case errEOF:
		return nil, io.ErrUnexpectedEOF
	case errTimeout:
		return nil, timeoutError{}
	case errCanceled:
		return nil, fmt.Errorf("proxy: %w", context.Canceled)
	case errCutBody:
		return httpResponse(req, 200, []byte(cut)), nil
	case errGarbled:
		return httpResponse(req, 200, []byte(garbledBody)), nil
	}
	return nil, fmt.Errorf("scripted error kind %d", kind)
}

func (h *httpLog) RoundTrip(req *http.Request) (*http.Response, error) {
	ctx := req.Context()
	switch {
	case strings.HasSuffix(req.URL.Path, ct.GetSTHPath):
		size, kind, err := h.f.sth(ctx)
		if err != nil {
			return nil, err
		}
		if kind != errNone {
			return failure(req, kind, `{"tree_size":12,"timesta`)
		}
		root := base64.StdEncoding.EncodeToString(make([]byte, 32))
		sig := base64.StdEncoding.EncodeToString([]byte{4, 3, 0, 4, 1, 2, 3, 4}) // sha256, ecdsa, opaque<4>
		body := fmt.Sprintf(`{"tree_size":%d,"timestamp":%d,"sha256_root_hash":"%s","tree_head_signature":"%s"}`, size, t0+uint64(size), root, sig)
		return httpResponse(req, 200, []byte(body)), nil
	case strings.HasSuffix(req.URL.Path, ct.GetEntriesPath):
		q := req.URL.Query()
		start, err1 := strconv.ParseInt(q.Get("start"), 10, 64)
		end, err2 := strconv.ParseInt(q.Get("end"), 10, 64)
		if err1 != nil || err2 != nil {
			h.f.abort("bad-request", "get-entries with unparsable parameters: "+req.URL.RawQuery)
			return nil, context.Canceled
		}
		resp, kind, err := h.f.entries(ctx, start, end)
		if err != nil {
			return nil, err
		}
		if kind != errNone {
			return failure(req, kind, cutBody)
		}
		var b bytes.Buffer
		b.Grow(64 + len(resp.Entries)*6000)
		b.WriteString(`{"entries":[`)
		for i, e := range resp.Entries {
			if i > 0 {
				b.WriteByte(',')
			}
			b.WriteString(`{"leaf_input":"`)
			b.WriteString(base64.StdEncoding.EncodeToString(e.LeafInput))
			b.WriteString(`","extra_data":"`)
			b.WriteString(base64.StdEncoding.EncodeToString(e.ExtraData))
			b.WriteString(`"}`)
		}
		b.WriteString(`]}`)
		h.f.mu.Lock()
		if b.Len() > h.f.maxBody {
			h.f.maxBody = b.Len()
		}
		h.f.mu.Unlock()
		return httpResponse(req, 200, b.Bytes()), nil
	}
	return httpResponse(req, 404, []byte("no such endpoint")), nil
}

// realClient wraps the repository's log client so that requests it refuses on its own (before they
// reach the scripted log) still count against the call budget.
type realClient struct {
	inner *client.LogClient
	f     *fakeLog
}

func (r *realClient) BaseURI() string { return r.inner.BaseURI() }
func (r *realClient) GetSTH(ctx context.Context) (*ct.SignedTreeHead, error) {
	return r.inner.GetSTH(ctx)
}
func (r *realClient) GetRawEntries(ctx context.Context, start, end int64) (*ct.GetEntriesResponse, error) {
	if !r.f.countCall() {
		return nil, context.Canceled
	}
	return r.inner.GetRawEntries(ctx, start, end)
}

// clientFor returns what the code under test talks to: the scripted log itself, or the real client in front of it.
func clientFor(c *Case, f *fakeLog) scanner.LogClient {
	if c.Route != routeHTTP {
		return f
	}
	lc, err := client.New(fakeURI, &http.Client{Transport: &httpLog{f: f}}, jsonclient.Options{})
	if err != nil {
		panic(err)
	}
	return &realClient{inner: lc, f: f}
}
