package c16

import (
	"bytes"
	"context"
	"fmt"
	"runtime"
	"sync"
	"testing"
	"time"

	"github.com/google/certificate-transparency-go/scanner"
	"pgregory.net/rapid"

	"verif/internal/harness"
)

// The bubble of the other two sub-properties runs its goroutines one at a time (the driver pins
// GOMAXPROCS to 1 for them), so two fetch workers never execute the few instructions between "my range
// is finished" and "pick the next one" at the same moment. This sub-property covers that corner: real
// goroutines on several Ps, no virtual time, no latencies, a log that answers at once (after finite
// per-start error bursts, mostly 429), and a callback that holds the workers back until a whole group of
// them is inside the callback and then releases them together, so that they finish their ranges in the
// same instant. The oracle is the same: every index of the range exactly once with the served bytes,
// Run returns nil. Wall-clock time is used only to shape the schedule (barrier patience) and as a
// safety net (a run that exceeds it is discarded as inconclusive), never to judge.

// ParCase is one truly parallel one-shot fetch.
type ParCase struct {
	Size     int64
	Start    int64
	Batch    int
	Fetchers int
	Plans    []Plan // latencies are ignored (zero)
	Group    int    // callbacks are released in groups of this many (0: no barrier)
	PoolSeed int
	Stride   int
}

func genPar(t *rapid.T) ParCase {
	var c ParCase
	c.Fetchers = []int{2, 2, 2, 3, 4}[rapid.IntRange(0, 4).Draw(t, "fetchers")]
	c.Batch = rapid.IntRange(1, 6).Draw(t, "batch")
	ranges := rapid.IntRange(c.Fetchers, 6*c.Fetchers).Draw(t, "ranges")
	c.Size = int64(ranges*c.Batch) - int64(rapid.IntRange(0, c.Batch-1).Draw(t, "tail"))
	if rapid.IntRange(0, 3).Draw(t, "startClass") == 0 {
		c.Start = rapid.Int64Range(0, c.Size).Draw(t, "start")
	}
	n := rapid.IntRange(1, 4).Draw(t, "nPlans")
	for i := 0; i < n; i++ {
		var p Plan
		switch rapid.IntRange(0, 5).Draw(t, "errClass") {
		case 0, 1, 2:
			p.Errs = []int{err429}
		case 3:
			p.Errs = []int{err429, err503, err429}
		case 4:
			p.Errs = []int{[]int{err503, err500, errNet, errEOF, errTimeout, errCanceled}[rapid.IntRange(0, 5).Draw(t, "otherErr")]}
		}
		if rapid.IntRange(0, 3).Draw(t, "shortClass") == 0 {
			p.Short = rapid.IntRange(1, 6).Draw(t, "short")
		}
		c.Plans = append(c.Plans, p)
	}
	switch rapid.IntRange(0, 4).Draw(t, "groupClass") {
	case 0:
		c.Group = 0
	default:
		c.Group = c.Fetchers
	}
	c.PoolSeed = rapid.IntRange(0, 47).Draw(t, "poolSeed")
	c.Stride = rapid.IntRange(1, 7).Draw(t, "poolStride")
	return c
}

// barrier releases callers in groups; a caller that waits alone for longer than patience goes on (the
// other workers may have nothing left to deliver).
type barrier struct {
	mu       sync.Mutex
	size     int
	waiting  int
	gate     chan struct{}
	patience time.Duration
	together int // groups released complete
}

func (b *barrier) wait() {
	if b.size < 2 {
		return
	}
	b.mu.Lock()
	b.waiting++
	if b.waiting >= b.size {
		close(b.gate)
		b.gate = make(chan struct{})
		b.waiting = 0
		b.together++
		b.mu.Unlock()
		return
	}
	gate := b.gate
	b.mu.Unlock()
	tm := time.NewTimer(b.patience)
	defer tm.Stop()
	select {
	case <-gate:
	case <-tm.C:
		b.mu.Lock()
		if b.gate == gate && b.waiting > 0 {
			b.waiting--
		}
		b.mu.Unlock()
	}
}

func checkPar(t *testing.T, pc ParCase) (v harness.Verdict) {
	if pc.Batch < 1 {
		pc.Batch = 1
	}
	if pc.Fetchers < 1 {
		pc.Fetchers = 1
	}
	if len(pc.Plans) == 0 {
		pc.Plans = []Plan{{}}
	}
	if pc.Size < 0 {
		pc.Size = 0
	}
	for i := range pc.Plans {
		pc.Plans[i].LatMs, pc.Plans[i].ErrLatMs = 0, 0
	}
	persistCase("parallel", pc)
	c := &Case{Init: pc.Size, Start: pc.Start, Batch: pc.Batch, Fetchers: pc.Fetchers, Plans: pc.Plans, CbLatMs: []int64{0}}
	log := buildLog(pc.Size, pc.PoolSeed, pc.Stride)

	old := runtime.GOMAXPROCS(0)
	if old < 4 {
		runtime.GOMAXPROCS(4)
		defer runtime.GOMAXPROCS(old)
	}
	ctx, cancel := context.WithTimeout(context.Background(), 2*time.Minute)
	defer cancel()
	var amu sync.Mutex
	var aborts []harness.Violation
	fake := newFakeLog(c, log, func(sig, msg string) {
		amu.Lock()
		aborts = append(aborts, harness.Violation{Sig: sig, Msg: msg})
		amu.Unlock()
		cancel()
	})
	bar := &barrier{size: pc.Group, gate: make(chan struct{}), patience: 3 * time.Millisecond}
	var mu sync.Mutex
	count := map[int64]int{}
	wrong := 0
	fe := scanner.NewFetcher(fake, &scanner.FetcherOptions{BatchSize: pc.Batch, ParallelFetch: pc.Fetchers, StartIndex: pc.Start})
	err := fe.Run(ctx, func(b scanner.EntryBatch) {
		mu.Lock()
		for j, le := range b.Entries {
			idx := b.Start + int64(j)
			count[idx]++
			if idx < 0 || idx >= int64(len(log)) || !bytes.Equal(le.LeafInput, log[idx].Leaf) || !bytes.Equal(le.ExtraData, log[idx].Extra) {
				wrong++
			}
		}
		mu.Unlock()
		bar.wait()
	})
	if ctx.Err() == context.DeadlineExceeded {
		v.Discard = true // wall-clock safety net: inconclusive, not a verdict
		return v
	}
	for _, a := range aborts {
		v.Failf(a.Sig, "%s", a.Msg)
	}
	if err != nil {
		v.Failf("run-error", "Run returned %v", err)
	}
	missing, dups, outside := 0, 0, 0
	first := int64(-1)
	for idx, k := range count {
		if k > 1 {
			dups++
		}
		if idx < pc.Start || idx >= pc.Size {
			outside++
		}
	}
	for i := pc.Start; i < pc.Size; i++ {
		if count[i] == 0 {
			if missing == 0 {
				first = i
			}
			missing++
		}
	}
	if dups > 0 {
		v.Failf("duplicate-delivery", "%d indices delivered more than once", dups)
	}
	if wrong > 0 {
		v.Failf("wrong-bytes", "%d deliveries with the wrong bytes", wrong)
	}
	if outside > 0 {
		v.Failf("delivered-beyond-range", "%d deliveries outside [%d, %d)", outside, pc.Start, pc.Size)
	}
	if missing > 0 && len(aborts) == 0 {
		v.Failf("missing-delivery", "Run returned %v with %d indices of [%d, %d) never delivered (first %d); %d fetchers on %d Ps, %d groups of %d callbacks released together, get-entries errors %v", err, missing, pc.Start, pc.Size, first, pc.Fetchers, runtime.GOMAXPROCS(0), bar.together, pc.Group, fake.errs)
	}
	v.NonTrivial = pc.Fetchers >= 2
	v.Class(fmt.Sprintf("fetchers:%d", pc.Fetchers), fmt.Sprintf("procs:%d", runtime.GOMAXPROCS(0)))
	if fake.errs[err429] > 0 {
		v.Class("log:429")
	}
	if fake.shortReads > 0 {
		v.Class("log:short-read")
	}
	if fake.maxInflight >= 2 {
		v.Class("parallel:requests-overlap")
	}
	switch {
	case pc.Group == 0:
		v.Class("barrier:none")
	case bar.together > 0:
		v.Class("barrier:groups-released-together")
	default:
		v.Class("barrier:never-full")
	}
	v.Class(fmt.Sprintf("range:%s", bucket(max(pc.Size-pc.Start, 0))))
	return v
}
