package c16

import (
	"crypto/sha256"
	"fmt"
	"sync"

	"verif/internal/derx"
	"verif/internal/rfc6962"
	"verif/internal/world"
)

// The entries a scripted log serves are real RFC 6962 leaves: certificates and precertificates built by
// internal/world (ground truth by construction: kind, serial number, submitted bytes), plus a few whose
// certificate / TBSCertificate is not parsable. Building them costs signatures, so a fixed pool is made
// once per process and a Case only chooses which pool member sits at which index (PoolSeed, PoolStride);
// the timestamp (T0 + index) makes the bytes of every index distinct.

const (
	kindCert    = 0
	kindPrecert = 1
	t0          = uint64(1600000000000) // timestamp of index 0 (ms)
)

type poolEntry struct {
	Kind     int
	Parsable bool   // the certificate / TBSCertificate of the leaf parses (possibly with non-fatal errors)
	NonFatal bool   // ... but only with a non-fatal error
	Serial   uint64 // serial number (valid when Parsable)
	Entry    rfc6962.Entry
	Extra    []byte // extra_data (always well-formed)
	Cert     []byte // what RawLogEntry.Cert.Data must be: the leaf certificate / the submitted precertificate
}

var (
	poolOnce sync.Once
	thePool  []poolEntry
	nGood    int
)

func pool() []poolEntry {
	poolOnce.Do(buildPool)
	return thePool
}

func buildPool() {
	kinds := world.LeafKinds
	inters := [][]string{nil, {"p256"}, {"p384", "p256"}, {"rsa2048"}}
	for i := 0; i < 36; i++ {
		s := world.ChainSpec{
			ID: uint32(i + 1), Root: i % 4, Inters: inters[(i/2)%len(inters)], LeafKind: kinds[i%len(kinds)],
			Precert: i%2 == 1, PreIssuer: i%4 == 3, PreIssAKI: i%8 == 7, LeafAKI: i%3 != 0, PoisonPos: i % 7, ExtRot: i % 5, SigAlg: i % 3,
		}
		b := world.Build(s)
		thePool = append(thePool, poolEntry{
			Kind: map[bool]int{false: kindCert, true: kindPrecert}[s.Precert], Parsable: true,
			Serial: uint64(s.ID)<<8 | 1, Entry: b.Entry(), Extra: b.ExtraData(), Cert: b.Leaf.DER,
		})
	}
	// certificates that the lenient parser accepts with a NON-FATAL error (SAN iPAddress of 5 octets): the
	// scanner must still consult the matcher and report them
	for i := 36; i < 42; i++ {
		s := world.ChainSpec{
			ID: uint32(i + 1), Root: i % 4, Inters: inters[(i/2)%len(inters)], LeafKind: kinds[i%len(kinds)],
			Precert: i%2 == 1, PreIssuer: i%4 == 3, LeafAKI: i%3 != 0, PoisonPos: i % 7, ExtRot: i % 5, SigAlg: i % 3, Quirky: true,
		}
		b := world.Build(s)
		thePool = append(thePool, poolEntry{
			Kind: map[bool]int{false: kindCert, true: kindPrecert}[s.Precert], Parsable: true, NonFatal: true,
			Serial: uint64(s.ID)<<8 | 1, Entry: b.Entry(), Extra: b.ExtraData(), Cert: b.Leaf.DER,
		})
	}
	nGood = len(thePool)
	// unparsable certificates inside well-formed leaves (extra_data untouched)
	garbage := [][]byte{
		{0xde, 0xad, 0xbe, 0xef, 0x00, 0x01, 0x02},
		derx.Seq(derx.Seq(derx.Octets([]byte("not a certificate")))),
		nil, // truncated real certificate, filled below
	}
	for j := 0; j < 6; j++ {
		src := thePool[j] // j even: certificate, j odd: precertificate
		g := garbage[j%3]
		e := src
		e.Parsable = false
		e.Serial = 0
		switch src.Kind {
		case kindCert:
			if g == nil {
				g = append([]byte{}, src.Entry.Cert[:len(src.Entry.Cert)-17]...)
			}
			e.Entry = rfc6962.Entry{Type: rfc6962.X509Entry, Cert: g}
			e.Cert = g
		case kindPrecert:
			if g == nil {
				g = append([]byte{}, src.Entry.TBS[:len(src.Entry.TBS)-17]...)
			}
			e.Entry = rfc6962.Entry{Type: rfc6962.PrecertEntry, TBS: g, IssuerKeyHash: sha256.Sum256([]byte(fmt.Sprint("issuer", j)))}
		}
		thePool = append(thePool, e)
	}
}

// truth is what the oracle knows about one index of the scripted log.
type truth struct {
	Kind     int
	Parsable bool
	NonFatal bool
	Serial   uint64
	TS       uint64
	Leaf     []byte
	Extra    []byte
	Cert     []byte
}

// buildLog lays the pool out over n indices.
func buildLog(n int64, seed, stride int) []truth {
	p := pool()
	if stride < 1 {
		stride = 1
	}
	if seed < 0 {
		seed = -seed
	}
	out := make([]truth, n)
	for i := int64(0); i < n; i++ {
		pe := p[(int64(seed)+i*int64(stride))%int64(len(p))]
		ts := t0 + uint64(i)
		leaf, err := rfc6962.EncodeLeaf(rfc6962.Leaf{Timestamp: ts, Entry: pe.Entry})
		if err != nil {
			panic(err)
		}
		out[i] = truth{Kind: pe.Kind, Parsable: pe.Parsable, NonFatal: pe.NonFatal, Serial: pe.Serial, TS: ts, Leaf: leaf, Extra: pe.Extra, Cert: pe.Cert}
	}
	return out
}
