package c16

import (
	"testing"

	ct "github.com/google/certificate-transparency-go"
	"github.com/google/certificate-transparency-go/x509"

	"verif/internal/harness"
)

const ruleFetch = "Fetcher.Run in a synctest bubble (-race) against a scripted log (behind the scanner.LogClient interface or behind the real client.LogClient over in-process HTTP): tree 0-130 entries (thorough 0-650) growing in 0-4 steps of virtual time, start 0 / inside / at / beyond tree size (incl. trees approaching StartIndex in short steps), end 0 / inside / beyond / below start, batch 1-50 or near MaxInt64, 1-6 fetchers, one-shot or continuous, per-start-index finite error bursts (429, 503, 500, network, EOF, timeout, gRPC Unavailable, wrapped Canceled, 200 with cut / garbled body), short reads 1..asked, request latencies 0-10 min, callback latencies 0-60 ms, get-sth error bursts of every kind (incl. on the polls of continuous mode), Stop() (from outside or from inside the N-th callback) or cancel at a drawn instant, after the settling period, or never; options literal or from the package defaults (after 0-2 earlier default-built fetches on other logs); optionally Stop() before the first Run and a second Run on the same Fetcher, every oracle applied per call. Non-trivial: a short read, an error burst, >= 2 fetchers, or growth seen during the run"
const ruleScan = "Scanner.Scan over the same scripted logs with real leaves (36 generated certificates / precertificates, 6 that parse only with a non-fatal error, 6 with unparsable certificates), matcher in {MatchAll, MatchNone, MatchSerialNumber, custom serial predicate, custom LeafMatcher, MatchSCTTimestamp, CertParseFailMatcher with and without MatchNonFatalErrs}, PrecertOnly on/off, 1-6 matcher workers, buffer 0-100, cancel at a drawn instant / after settling / never; optionally a second Scan on the same Scanner. Non-trivial: as for fetch"

var Fetch = harness.Define(harness.Opts{Name: "fetch", Rule: ruleFetch, Quick: 3000, Thorough: 15000, Crashy: true}, genFetch, checkFetch)

const rulePar = "Fetcher.Run WITHOUT virtual time on 4 Ps (-race): 2-4 fetchers, batch 1-6, 2-24 ranges, a log that answers at once after finite per-start error bursts (mostly 429), short reads, and a callback barrier that releases the workers together so that they finish their ranges in the same instant; one-shot, never stopped. Non-trivial: >= 2 fetchers"

var Par = harness.Define(harness.Opts{Name: "parallel", Rule: rulePar, Quick: 600, Thorough: 6000, Crashy: true}, genPar, checkPar)
var Scan = harness.Define(harness.Opts{Name: "scan", Rule: ruleScan, Quick: 1800, Thorough: 6000, Crashy: true}, genScan, checkScan)

// poolSanity guards the oracle's "by construction" knowledge: the generated good leaves parse in the
// repository's parser and the damaged ones do not. A failure here is a harness problem, not a verdict.
func poolSanity(t *testing.T) {
	for i, tr := range buildLog(int64(len(pool())), 0, 1) {
		le := ct.LeafEntry{LeafInput: tr.Leaf, ExtraData: tr.Extra}
		e, err := ct.LogEntryFromLeaf(int64(i), &le)
		if tr.Parsable {
			if e == nil || (err != nil) != tr.NonFatal || x509.IsFatal(err) {
				t.Fatalf("pool entry %d should parse (non-fatal error expected: %v): %v", i, tr.NonFatal, err)
			}
			var serial uint64
			if tr.Kind == kindCert && e.X509Cert != nil {
				serial = e.X509Cert.SerialNumber.Uint64()
			} else if tr.Kind == kindPrecert && e.Precert != nil {
				serial = e.Precert.TBSCertificate.SerialNumber.Uint64()
			} else {
				t.Fatalf("pool entry %d: kind mismatch", i)
			}
			if serial != tr.Serial {
				t.Fatalf("pool entry %d: serial %d, expected %d", i, serial, tr.Serial)
			}
		} else if err == nil || !x509.IsFatal(err) || e != nil {
			t.Fatalf("pool entry %d should be unparsable (err=%v)", i, err)
		}
		if r, err := ct.RawLogEntryFromLeaf(int64(i), &le); err != nil || r == nil {
			t.Fatalf("pool entry %d: leaf structure must decode: %v", i, err)
		}
	}
}

func TestProps(t *testing.T) {
	poolSanity(t)
	harness.Main(t, "C16", Fetch, Scan, Par)
}
