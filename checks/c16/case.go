package c16

import (
	"context"
	"encoding/json"
	"fmt"
	"math"
	"os"
	"path/filepath"
	"sync"
	"sync/atomic"
	"testing"
	"time"

	"pgregory.net/rapid"

	"verif/internal/harness"
	"verif/internal/vt"
)

// Step: from AtMs (virtual milliseconds after the start of the run) on the log publishes Size entries.
type Step struct {
	AtMs int64
	Size int64
}

// Plan scripts the get-entries requests whose start index is congruent to the plan's position modulo
// len(Plans): the first len(Errs) calls for one start index fail with the listed kinds (a finite burst),
// every later call succeeds after LatMs and returns 1 + (Short-1) % asked entries (Short == 0: all asked).
type Plan struct {
	Errs     []int
	ErrLatMs int64
	LatMs    int64
	Short    int
}

const (
	routeDirect = 0
	routeHTTP   = 1
)

const (
	stopNever  = 0
	stopStop   = 1 // Fetcher.Stop()
	stopCancel = 2 // cancel the context given to Run / Scan
	// stopInCallback: Fetcher.Stop() is called from inside the StopAfter-th callback of the call, i.e. on a
	// fetch worker's goroutine ("stop once enough has been seen"); a Stop() from outside follows at the
	// planned instant in case fewer callbacks ever happen.
	stopInCallback = 3
)

// Case is one scripted log + one fetcher / scanner configuration + one stop instant. Plain data.
type Case struct {
	Init  int64  // tree size at virtual time 0
	Steps []Step // growth history (AtMs and Size strictly increasing)

	Start, End int64 // FetcherOptions.StartIndex / EndIndex (0 = tree size)
	Batch      int
	Fetchers   int
	Continuous bool

	StopKind  int
	StopAtMs  int64 // virtual instant of Stop / cancel; < 0: after growth has stopped plus the settling period
	StopAfter int   // stopInCallback: number of the callback that calls Stop()

	Plans    []Plan
	STHErrs  []int // error kind of the n-th get-sth call (0 = answer)
	STHLatMs int64
	CbLatMs  []int64 // virtual processing time of the callback for index i: CbLatMs[i % len]

	PoolSeed, PoolStride int // which pool entry sits at which index

	// re-use of the same Fetcher / Scanner object
	PreStop bool   // Fetcher.Stop() is called before the first Run (documented no-op)
	Again   *Again // a second Run / Scan on the same object after the first has returned

	// options taken from the package defaults, and earlier independent fetches in the same process
	Defaults bool   // build the options from scanner.Default{Fetcher,Scanner}Options(), touching only the fields that differ
	Warm     []Warm // fetches run before the main object is built, each on DefaultFetcherOptions() against its own log

	// how the code under test reaches the scripted log: 0 = the log implements scanner.LogClient itself,
	// 1 = through the repository's real client.LogClient over an in-process HTTP round tripper
	Route int

	// scanner only
	Matcher     int
	MatchArg    int
	MatchMod    int
	PrecertOnly bool
	Workers     int
	Buffer      int
}

// Again is the stop plan of the second call on the same object.
type Again struct {
	GapMs     int64
	StopKind  int
	StopAtMs  int64 // relative to the start of the second call
	StopAfter int
}

func weighted(t *rapid.T, label string, w ...int) int {
	tot := 0
	for _, x := range w {
		tot += x
	}
	r := rapid.IntRange(0, tot-1).Draw(t, label)
	for i, x := range w {
		if r < x {
			return i
		}
		r -= x
	}
	return len(w) - 1
}

// spread draws from [lo, hi] without rapid's bias towards the low end (which a plain Int64Range has):
// half of the draws are mirrored. Still shrinks towards lo.
func spread(t *rapid.T, label string, lo, hi int64) int64 {
	v := rapid.Int64Range(lo, hi).Draw(t, label)
	if rapid.Bool().Draw(t, label+"Hi") {
		v = hi - (v - lo)
	}
	return v
}

func genCase(t *rapid.T, scan bool) Case {
	var c Case
	maxInit, maxGrow := int64(90), int64(40)
	if harness.Thorough() {
		maxInit, maxGrow = 300, 90
	}
	switch weighted(t, "initClass", 10, 3, 1) {
	case 0:
		c.Init = spread(t, "init", 1, maxInit)
	case 1:
		c.Init = rapid.Int64Range(1, 8).Draw(t, "init")
	default:
		c.Init = 0
	}
	c.Continuous = weighted(t, "continuous", 3, 2) == 1
	nSteps := weighted(t, "nSteps", 4, 3, 2, 1, 1)
	if c.Continuous && nSteps == 0 && rapid.Bool().Draw(t, "forceGrowth") {
		nSteps = 1
	}
	at, size := int64(0), c.Init
	for i := 0; i < nSteps; i++ {
		switch weighted(t, "gapClass", 3, 3, 3, 1) {
		case 0:
			at += rapid.Int64Range(1, 50).Draw(t, "gap")
		case 1:
			at += rapid.Int64Range(50, 3000).Draw(t, "gap")
		case 2:
			at += rapid.Int64Range(3000, 50000).Draw(t, "gap")
		default:
			at += rapid.Int64Range(50000, 400000).Draw(t, "gap")
		}
		if weighted(t, "growClass", 1, 2) == 0 {
			size += rapid.Int64Range(1, 3).Draw(t, "grow")
		} else {
			size += spread(t, "grow", 1, maxGrow)
		}
		c.Steps = append(c.Steps, Step{AtMs: at, Size: size})
	}
	final := size

	// Shape "approach": continuous, StartIndex beyond the tree at start-up, and a growth history that
	// creeps towards StartIndex in one to three steps which each leave the tree short of it (or exactly
	// at it) before a last step passes it. Every STH update in between must keep waiting, not hand out
	// (or rewind to) anything below StartIndex.
	approach := c.Continuous && weighted(t, "approach", 4, 1) == 1
	if approach {
		c.Start = c.Init + rapid.Int64Range(2, 40).Draw(t, "approachDist")
		c.Steps = nil
		at, size = 0, c.Init
		n := rapid.IntRange(1, 3).Draw(t, "approachSteps")
		for i := 0; i < n && size < c.Start; i++ {
			at += spread(t, "approachGap", 1000, 300000)
			size += rapid.Int64Range(1, c.Start-size).Draw(t, "approachGrow")
			c.Steps = append(c.Steps, Step{AtMs: at, Size: size})
		}
		at += spread(t, "approachGap", 1000, 300000)
		size = c.Start + rapid.Int64Range(1, maxGrow).Draw(t, "approachPass")
		c.Steps = append(c.Steps, Step{AtMs: at, Size: size})
		final = size
	}

	c.Batch = int(spread(t, "batch", 1, 50))
	if weighted(t, "smallBatch", 2, 1) == 1 {
		c.Batch = rapid.IntRange(1, 4).Draw(t, "batchSmall")
	}
	c.Fetchers = int(spread(t, "fetchers", 1, 6))

	switch startClass := weighted(t, "startClass", 16, 10, 1, 2); {
	case approach:
	case startClass == 0:
		c.Start = rapid.Int64Range(0, c.Init).Draw(t, "start")
	case startClass == 1:
		c.Start = 0
	case startClass == 2:
		c.Start = c.Init
	default:
		c.Start = c.Init + rapid.Int64Range(1, 25).Draw(t, "startBeyond")
	}
	// "for any batch size": BatchSize is an int; values near its maximum must not upset the range
	// arithmetic wherever the cursor stands (StartIndex > 0, later rounds of a continuous run).
	if weighted(t, "hugeBatch", 11, 1) == 1 {
		c.Batch = []int{
			math.MaxInt64, math.MaxInt64 - 1, 1 << 62, math.MaxInt32 + 1,
			int(math.MaxInt64 - c.Start), int(math.MaxInt64 - c.Start - 1), int(math.MaxInt64 - max(c.Start, 1) + 1),
		}[rapid.IntRange(0, 6).Draw(t, "hugeBatchValue")]
	}
	switch weighted(t, "endClass", 8, 6, 3, 1) {
	case 0:
		c.End = 0
	case 1:
		hi := final
		if hi < c.Start {
			hi = c.Start
		}
		lo := c.Start
		if lo < hi && weighted(t, "endNonEmpty", 9, 1) == 0 {
			lo++
		}
		c.End = spread(t, "end", lo, hi)
	case 2:
		c.End = final + rapid.Int64Range(1, 100).Draw(t, "endBeyond")
	default:
		if c.Continuous || c.Start == 0 {
			c.End = 0
		} else {
			c.End = rapid.Int64Range(1, c.Start).Draw(t, "endBelowStart") // empty or inverted range (one-shot only)
		}
	}

	nPlans := rapid.IntRange(1, 6).Draw(t, "nPlans")
	for i := 0; i < nPlans; i++ {
		var p Plan
		nErr := weighted(t, "nErr", 10, 3, 2, 1, 1)
		for j := 0; j < nErr; j++ {
			k := []int{err429, err503, err500, errNet, errEOF, errTimeout, errCanceled, errCutBody, errGarbled}[rapid.IntRange(0, 8).Draw(t, "errKind")]
			if weighted(t, "retriable", 7, 1) == 1 {
				k = errUnavailable
			}
			p.Errs = append(p.Errs, k)
		}
		if nErr > 0 {
			p.ErrLatMs = []int64{0, 0, 3, 40, 700, 2500}[rapid.IntRange(0, 5).Draw(t, "errLat")]
		}
		switch weighted(t, "latClass", 6, 3, 4, 1, 1) {
		case 0:
			p.LatMs = rapid.Int64Range(1, 20).Draw(t, "lat")
		case 1:
			p.LatMs = 0
		case 2:
			p.LatMs = rapid.Int64Range(20, 900).Draw(t, "lat")
		case 3:
			p.LatMs = rapid.Int64Range(900, 40000).Draw(t, "lat")
		default:
			// a request that hangs for minutes before the log answers (virtual time costs nothing)
			if scan {
				// the scanner's one-second progress ticker makes every virtual hour of a scan case cost real
				// time; the long hangs are exercised by the fetch sub-property
				p.LatMs = spread(t, "latHang", 60000, 150000)
			} else {
				p.LatMs = spread(t, "latHang", 60000, 600000)
			}
		}
		switch weighted(t, "shortClass", 5, 3, 3) {
		case 0:
			p.Short = int(spread(t, "short", 1, 50))
		case 1:
			p.Short = rapid.IntRange(1, 3).Draw(t, "short")
		default:
			p.Short = 0
		}
		c.Plans = append(c.Plans, p)
	}

	nSTHErr := weighted(t, "nSTHErr", 6, 2, 1, 1)
	if c.Continuous && nSTHErr == 0 && weighted(t, "pollErrs", 2, 1) == 1 {
		nSTHErr = 1 // continuous mode polls get-sth: give those polls error bursts more often
	}
	if nSTHErr > 0 {
		n := rapid.IntRange(1, 5).Draw(t, "sthErrLen")
		for i := 0; i < n; i++ {
			k := errNone
			if weighted(t, "sthErrHere", 1, 1) == 1 {
				k = rapid.IntRange(1, nErrKinds).Draw(t, "sthErrKind")
			}
			if i == 0 && weighted(t, "firstSTHFails", 8, 1) == 0 {
				k = errNone
			}
			c.STHErrs = append(c.STHErrs, k)
		}
	}
	c.STHLatMs = []int64{0, 0, 1, 15, 200, 3000}[rapid.IntRange(0, 5).Draw(t, "sthLat")]

	nCb := rapid.IntRange(1, 3).Draw(t, "nCb")
	for i := 0; i < nCb; i++ {
		c.CbLatMs = append(c.CbLatMs, []int64{0, 0, 0, 1, 7, 60}[rapid.IntRange(0, 5).Draw(t, "cbLat")])
	}

	c.PoolSeed = rapid.IntRange(0, 47).Draw(t, "poolSeed")
	c.PoolStride = rapid.IntRange(1, 7).Draw(t, "poolStride")

	// stop / cancel
	kinds := []int{stopStop, stopCancel, stopInCallback}
	if scan {
		kinds = []int{stopCancel} // the Scanner has no Stop
	}
	if c.Continuous {
		c.StopKind = rapid.SampledFrom(kinds).Draw(t, "stopKind")
		if weighted(t, "stopLate", 1, 1) == 1 || (approach && weighted(t, "approachLate", 1, 2) == 1) {
			c.StopAtMs = -1
		} else {
			c.StopAtMs = genStopAt(t, at)
		}
	} else if weighted(t, "stopped", 1, 1) == 1 {
		c.StopKind = rapid.SampledFrom(kinds).Draw(t, "stopKind")
		c.StopAtMs = genStopAt(t, at)
	}
	if c.StopKind == stopInCallback {
		c.StopAtMs = -1
		c.StopAfter = rapid.IntRange(1, 12).Draw(t, "stopAfter")
	}

	// re-use: a second call on the same object, and / or a Stop() before the first call
	if weighted(t, "again", 3, 1) == 1 {
		a := &Again{GapMs: []int64{0, 0, 5, 900, 70000}[rapid.IntRange(0, 4).Draw(t, "againGap")]}
		if c.Continuous {
			a.StopKind = rapid.SampledFrom(kinds).Draw(t, "againStopKind")
			a.StopAtMs = -1
			if weighted(t, "againStopLate", 2, 1) == 1 {
				a.StopAtMs = genStopAt(t, 0)
			}
		} else if weighted(t, "againStopped", 2, 1) == 1 {
			a.StopKind = rapid.SampledFrom(kinds).Draw(t, "againStopKind")
			a.StopAtMs = genStopAt(t, 0)
		}
		if a.StopKind == stopInCallback {
			a.StopAtMs = -1
			a.StopAfter = rapid.IntRange(1, 12).Draw(t, "againStopAfter")
		}
		c.Again = a
	}
	if !scan {
		c.PreStop = weighted(t, "preStop", 7, 1) == 1
	}

	if weighted(t, "route", 3, 2) == 1 {
		c.Route = routeHTTP
	}

	// package defaults: several independent objects built one after the other in one process
	c.Defaults = weighted(t, "defaults", 3, 2) == 1
	if c.Defaults {
		for i, n := 0, weighted(t, "nWarm", 2, 3, 1); i < n; i++ {
			w := Warm{Size: rapid.Int64Range(0, final).Draw(t, "warmSize")}
			if weighted(t, "warmSmaller", 1, 2) == 1 && c.Init > 0 {
				w.Size = rapid.Int64Range(0, c.Init-1).Draw(t, "warmSizeSmaller")
			}
			if rapid.Bool().Draw(t, "warmBatch") {
				w.Batch = rapid.IntRange(1, 50).Draw(t, "warmBatchSize")
			}
			if weighted(t, "warmFetchers", 3, 1) == 1 {
				w.Fetchers = rapid.IntRange(2, 4).Draw(t, "warmFetchersN")
			}
			if weighted(t, "warmStart", 3, 1) == 1 && w.Size > 0 {
				w.Start = rapid.Int64Range(1, w.Size).Draw(t, "warmStartAt")
			}
			c.Warm = append(c.Warm, w)
		}
	}

	if scan {
		c.Matcher = weighted(t, "matcher", 3, 1, 2, 3, 3, 1, 1, 1)
		c.MatchArg = rapid.IntRange(0, 400).Draw(t, "matchArg")
		c.MatchMod = rapid.IntRange(2, 7).Draw(t, "matchMod")
		c.PrecertOnly = weighted(t, "precertOnly", 2, 1) == 1
		c.Workers = int(spread(t, "workers", 1, 6))
		c.Buffer = []int{0, 0, 1, 2, 5, 10, 100}[rapid.IntRange(0, 6).Draw(t, "buffer")]
	}
	c.normalise()
	return c
}

func genStopAt(t *rapid.T, lastGrowth int64) int64 {
	switch weighted(t, "stopAtClass", 5, 4, 3, 1) {
	case 0:
		return spread(t, "stopAt", 1, 400)
	case 1:
		return spread(t, "stopAt", 400, 30000)
	case 2:
		return spread(t, "stopAt", 0, lastGrowth+120000)
	default:
		return rapid.Int64Range(0, 3).Draw(t, "stopAt")
	}
}

// normalise repairs values a hand-edited or shrunk replay file could carry; the generator never needs it.
func (c *Case) normalise() {
	if c.Batch < 1 {
		c.Batch = 1
	}
	if c.Fetchers < 1 {
		c.Fetchers = 1
	}
	if c.Workers < 1 {
		c.Workers = 1
	}
	if len(c.Plans) == 0 {
		c.Plans = []Plan{{}}
	}
	if len(c.CbLatMs) == 0 {
		c.CbLatMs = []int64{0}
	}
	if c.Init < 0 {
		c.Init = 0
	}
	if c.MatchMod < 1 {
		c.MatchMod = 1
	}
	// Fetcher.Stop "does nothing if there was no preceding Run invocation": a Stop at virtual instant 0 is
	// concurrent with the invocation of Run itself and may legitimately be a no-op. Stops start at 1 ms,
	// when Run has certainly been entered (it is invoked at instant 0 and time only advances once every
	// goroutine is blocked). Cancelling the context at instant 0 stays in the domain.
	if c.StopKind == stopStop && c.StopAtMs == 0 {
		c.StopAtMs = 1
	}
	if c.Again != nil && c.Again.StopKind == stopStop && c.Again.StopAtMs == 0 {
		c.Again.StopAtMs = 1
	}
	if c.StopKind == stopInCallback && c.StopAfter < 1 {
		c.StopAfter = 1
	}
	if c.Again != nil && c.Again.StopKind == stopInCallback && c.Again.StopAfter < 1 {
		c.Again.StopAfter = 1
	}
}

func (c *Case) finalSize() int64 {
	n := c.Init
	for _, s := range c.Steps {
		if s.Size > n {
			n = s.Size
		}
	}
	return n
}

func (c *Case) lastGrowth() time.Duration {
	if len(c.Steps) == 0 {
		return 0
	}
	return time.Duration(c.Steps[len(c.Steps)-1].AtMs) * time.Millisecond
}

func (c *Case) cbLat(index int64) time.Duration {
	return time.Duration(c.CbLatMs[int(index%int64(len(c.CbLatMs)))]) * time.Millisecond
}

// bound is an upper bound on the virtual time a correct fetcher needs to fetch everything that exists,
// once it exists: every successful request yields at least one entry, every start index suffers at most
// one finite error burst, and each pause of the code's own back-offs is below 60 s (Max 30 s + jitter).
func (c *Case) bound() time.Duration {
	var maxCb time.Duration
	for _, x := range c.CbLatMs {
		maxCb = max(maxCb, time.Duration(x)*time.Millisecond)
	}
	// every index is the start of at most one successful request (and of one error burst)
	per := make([]time.Duration, len(c.Plans))
	for i, p := range c.Plans {
		d := time.Duration(p.LatMs)*time.Millisecond + maxCb + time.Duration(len(p.Errs))*time.Duration(p.ErrLatMs)*time.Millisecond
		for _, k := range p.Errs {
			if k == errUnavailable {
				d += time.Minute
			}
		}
		per[i] = d
	}
	var b time.Duration
	for i := int64(0); i < c.finalSize()+2; i++ {
		b += per[int(i%int64(len(per)))]
	}
	b += time.Duration(len(c.STHErrs)+2) * (time.Minute + time.Duration(c.STHLatMs)*time.Millisecond)
	return b + 2*time.Minute
}

// settle: quick-growth window of updateSTH (45 s) + its longest pause (< 60 s) + slack, on top of bound.
func (c *Case) settle() time.Duration { return c.bound() + 20*time.Minute }

// phaseSpec is the stop plan of one Run / Scan call of a case (a case has one call, or two on the same object).
type phaseSpec struct {
	StopKind  int
	StopAtMs  int64 // relative to the start of the call; < 0: after growth has stopped plus the settling period
	GapMs     int64 // idle virtual time before the call
	StopAfter int
}

func (c *Case) phases() []phaseSpec {
	ps := []phaseSpec{{StopKind: c.StopKind, StopAtMs: c.StopAtMs, StopAfter: c.StopAfter}}
	if c.Again != nil {
		ps = append(ps, phaseSpec{StopKind: c.Again.StopKind, StopAtMs: c.Again.StopAtMs, GapMs: c.Again.GapMs, StopAfter: c.Again.StopAfter})
	}
	return ps
}

// outcome is everything observed about one call (phase) of a case, judged outside the bubble. The
// flags about the whole bubble (watchdog, deadlock, race, breaches seen by the log) sit on the last
// phase that was started.
type outcome struct {
	phase      int
	spec       phaseSpec
	startAt    time.Duration // when the call was made
	planStop   time.Duration // absolute instant planned for Stop / cancel (valid when spec.StopKind != stopNever)
	completeBy time.Duration // a stop at or after this instant leaves a continuous run time to deliver everything
	firstSTH   int64         // tree size of the first get-sth ever answered to this object, as known when the call ended
	timedOut   bool          // the virtual-time watchdog fired: Run / Scan had not returned
	deadlock   string
	raced      bool // the case's sub-test was failed by the testing package: the race detector reported
	returned   bool
	err        error
	returnedAt time.Duration
	stopIssued bool
	stopAt     time.Duration
	aborts     []harness.Violation
	late       int64 // callbacks that began after Run / Scan had returned
	fake       *fakeLog
}

// runState is shared with the callbacks of the code under test.
type runState struct {
	returned atomic.Bool                 // the current call has returned
	phase    atomic.Int32                // index of the current call
	stopNow  atomic.Pointer[func() bool] // stopInCallback: asked once per callback, true when this one has to call Stop()
}

func (s *runState) callbackMustStop() bool {
	if f := s.stopNow.Load(); f != nil {
		return (*f)()
	}
	return false
}

// runCase executes one case in a bubble. mk builds the code under test around the scripted log and
// returns the blocking call and (optionally) the graceful stop function; the call is made once per
// phase on the same object.
func runCase(t *testing.T, prop string, c *Case, log []truth, mk func(f *fakeLog, st *runState) (run func(ctx context.Context) error, stop func())) []*outcome {
	specs := c.phases()
	var limit time.Duration
	for _, sp := range specs {
		limit += c.bound() + 3*time.Hour + time.Duration(sp.GapMs)*time.Millisecond
		if sp.StopKind != stopNever {
			if sp.StopAtMs >= 0 {
				limit += time.Duration(sp.StopAtMs) * time.Millisecond
			} else {
				limit += c.lastGrowth() + c.settle()
			}
		}
	}
	persistCase(prop, c)
	defer realTimeGuard(prop, c)()
	var amu sync.Mutex
	var outs []*outcome
	var aborts []harness.Violation
	var deadlock string
	var res vt.Result
	var theFake *fakeLog
	clean := true
	func() {
		defer func() {
			if r := recover(); r != nil {
				deadlock = fmt.Sprint(r)
			}
		}()
		// One sub-test per case: the testing package checks the race detector's error count when a
		// (sub-)test ends, so a data race inside the code under test is attributed to the case that
		// provoked it (and stays attributable while rapid shrinks).
		clean = t.Run("case", func(st *testing.T) {
			res = vt.Run(st, limit, func(ctx context.Context) {
				runCtx, cancelAll := context.WithCancel(ctx)
				defer cancelAll()
				state := &runState{}
				fake := newFakeLog(c, log, func(sig, msg string) {
					amu.Lock()
					aborts = append(aborts, harness.Violation{Sig: sig, Msg: msg})
					amu.Unlock()
					cancelAll()
				})
				theFake = fake
				run, stop := mk(fake, state)
				if c.PreStop && stop != nil {
					stop() // "Does nothing if there was no preceding Run invocation"
				}
				for i, sp := range specs {
					if i > 0 {
						if !vt.Sleep(runCtx, time.Duration(sp.GapMs)*time.Millisecond) {
							return
						}
						fake.newPhase()
					}
					o := &outcome{phase: i, spec: sp, fake: fake, firstSTH: -1}
					o.startAt = time.Since(fake.start)
					o.completeBy = max(o.startAt, c.lastGrowth()) + c.settle()
					if sp.StopAtMs >= 0 {
						o.planStop = o.startAt + time.Duration(sp.StopAtMs)*time.Millisecond
					} else {
						o.planStop = o.completeBy
					}
					amu.Lock()
					outs = append(outs, o)
					amu.Unlock()
					state.phase.Store(int32(i))
					state.returned.Store(false)
					state.stopNow.Store(nil)
					if sp.StopKind == stopInCallback {
						var calls atomic.Int32
						ask := func() bool {
							if calls.Add(1) != int32(sp.StopAfter) {
								return false
							}
							amu.Lock()
							if !o.stopIssued {
								o.stopIssued = true
								o.stopAt = time.Since(fake.start)
							}
							amu.Unlock()
							return true
						}
						state.stopNow.Store(&ask)
					}
					phCtx, cancel := context.WithCancel(runCtx)
					done := make(chan struct{})
					stopperDone := make(chan struct{})
					go func() {
						defer close(stopperDone)
						if sp.StopKind == stopNever {
							return
						}
						tm := time.NewTimer(o.planStop - o.startAt)
						defer tm.Stop()
						select {
						case <-tm.C:
						case <-done:
							return
						case <-ctx.Done():
							return
						}
						amu.Lock()
						if !o.stopIssued {
							o.stopIssued = true
							o.stopAt = time.Since(fake.start)
						}
						amu.Unlock()
						if (sp.StopKind == stopStop || sp.StopKind == stopInCallback) && stop != nil {
							stop()
						} else {
							cancel()
						}
					}()
					go func() {
						err := run(phCtx)
						state.returned.Store(true)
						amu.Lock()
						o.err = err
						o.returned = true
						o.returnedAt = time.Since(fake.start)
						amu.Unlock()
						close(done)
					}()
					select {
					case <-done:
					case <-ctx.Done():
						// The watchdog fired and vt cancelled the context. A call that does not even return then
						// can never be unwound (and a ticker inside the code under test would keep virtual time
						// running for ever), so the only sound exit is a loud one: the case is reported and the
						// process aborts; the driver turns that into a VIOLATION with the replay file.
						grace := time.NewTimer(time.Hour)
						select {
						case <-done:
							grace.Stop()
						case <-grace.C:
							msg := fmt.Sprintf("c16: hang-after-cancel: call %d had not returned when the watchdog fired after %v of virtual time and still not one hour after its context was cancelled", i, limit)
							reportHang(prop, c, "hang-after-cancel", msg)
							panic(msg)
						}
					}
					<-stopperDone
					cancel()
					fake.mu.Lock()
					o.firstSTH = fake.firstSTH
					fake.mu.Unlock()
					if ctx.Err() != nil {
						return
					}
				}
			})
		})
	}()
	if len(outs) == 0 {
		outs = []*outcome{{fake: theFake, firstSTH: -1, spec: specs[0]}}
	}
	last := outs[len(outs)-1]
	last.timedOut = res.TimedOut
	last.deadlock = deadlock
	last.raced = !clean
	last.aborts = aborts
	return outs
}

// reportHang makes a run that cannot be unwound a first-class finding before the process dies: it writes
// the case in the harness's replay format and prints the marker line the driver collects (during the
// regress stage no case has been persisted by the harness yet).
func reportHang(prop string, c any, sig, msg string) {
	dir := os.Getenv("VERIF_OUT")
	if dir == "" {
		dir = os.TempDir()
	}
	raw, _ := json.Marshal(c)
	b, _ := json.MarshalIndent(map[string]any{
		"property": "C16", "prop": prop, "seed": 0,
		"violations": []harness.Violation{{Sig: sig, Msg: msg}}, "case": json.RawMessage(raw),
	}, "", " ")
	path := filepath.Join(dir, "hang-"+prop+".json")
	if os.WriteFile(path, b, 0o644) == nil {
		fmt.Printf("\nVERIF-FAIL prop=%s file=%s\n", prop, path)
	}
}

// persistCase writes the case that is about to run where the driver looks for "the case that was running
// when the process died" (last-<shard>.json in the harness's replay format). The harness does the same for
// generated cases of Crashy properties; this also covers the regress stage, in which a crash of the code
// under test on another goroutine (the scanner's progress ticker, say) would otherwise be unattributable.
func persistCase(prop string, c any) {
	dir := os.Getenv("VERIF_OUT")
	if dir == "" || os.Getenv("VERIF_REPLAY") != "" {
		return
	}
	shard := os.Getenv("VERIF_SHARD")
	if shard == "" {
		shard = "0"
	}
	raw, _ := json.Marshal(c)
	b, _ := json.MarshalIndent(map[string]any{"property": "C16", "prop": prop, "seed": 0, "case": json.RawMessage(raw)}, "", " ")
	os.WriteFile(filepath.Join(dir, "last-"+shard+".json"), b, 0o644)
}

// realTimeGuard is the last line of defence against a case that neither returns nor lets virtual time
// advance: goroutines of the bubble blocked on something that lives outside it (a package-level
// semaphore, say) are not "durably blocked", so the virtual-time watchdog never fires and the process
// would sit there until the driver's shard timeout (inconclusive). Cases take milliseconds to a few
// seconds; after guardPatience of wall-clock time the case is reported (sig hang-no-progress) and the
// process aborts - the same loud exit as hang-after-cancel. The guard judges nothing else.
const guardPatience = 120 * time.Second

func realTimeGuard(prop string, c any) (stop func()) {
	tm := time.AfterFunc(guardPatience, func() {
		msg := fmt.Sprintf("c16: hang-no-progress: the case had neither returned nor let virtual time advance after %v of real time (goroutines blocked outside the reach of the virtual clock, or spinning)", guardPatience)
		reportHang(prop, c, "hang-no-progress", msg)
		panic(msg)
	})
	return func() { tm.Stop() }
}
