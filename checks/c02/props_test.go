package c02

import (
	"os"
	"testing"

	"verif/internal/harness"
)

const ruleDirect = "generated hierarchy (1-4 roots trusted or not incl. v1 roots, 0-6 intermediates to depth 3 incl. cross-signed siblings, pre-issuers, non-CA signers, trusted intermediates; 8 key kinds x 7 signature algorithms; key identifiers absent / everywhere / per key) -> correct path (leaf, precert, malformed poison, CA as leaf, bare root) -> 0-2 perturbations {drop, cut, swap, dup, insert, append issuer, signature bit flip, re-sign by another key, truncate, sibling, bare root} x options {window start/limit at NotAfter -1s/0/+1s/+-1y, rejectExpired/rejectUnexpired with now at NotAfter -1s/-1ns/0/+1ns/+1s/+-1y, acceptOnlyCA, EKU filter}; ValidateChain verdict and returned path vs the linear reference predicate over pki ground truth; IsPrecertificate vs the generated poison kind. Non-trivial: a perturbation applied or an option off its default"
const ruleHTTP = "same generator; the options go through LogConfig (reject_expired, reject_unexpired, not_after_start/limit, accept_only_ca, ext_key_usages incl. Any, reject_extensions) into an Instance; HTTP status of add-chain / add-pre-chain (matching endpoint 92 %; 30 % of the cases with a history of 1-5 earlier submissions on the same Instance, each judged) vs reference predicate AND leaf-kind rule; on 200 the path in the queued leaf / extra_data; on refusal no QueueLeaf. NotAfter >= 1 y before or >= 10 y after 2024-06-01 because the front end reads the wall clock"

var Direct = harness.Define(harness.Opts{Name: "direct", Rule: ruleDirect, Quick: 3000, Thorough: 10000, MaxSample: 2500}, genDirect, checkDirect)
var HTTP = harness.Define(harness.Opts{Name: "http", Rule: ruleHTTP, Quick: 1500, Thorough: 5000, MaxSample: 2500}, genHTTP, checkHTTP)

const ruleClock = "wall clock (the only sleeping sub-property): 3-5 Instances per case set up at the same instant T with reject_expired / reject_unexpired / neither, generated valid chains (cert or precert, any hierarchy) whose leaf expires at trunc(T)+2 s; submitted once at once (asserted only if the clock read after the response is still before NotAfter) and once after NotAfter+1.2 s: reject_expired must then refuse, reject_unexpired and no filter must admit. Delays only make the leaf more expired"

var Clock = harness.Define(harness.Opts{Name: "clock", Rule: ruleClock, Quick: 1, Thorough: 2, MaxSample: 600}, genClock, checkClock)

func TestProps(t *testing.T) {
	harness.Main(t, "C02", Direct, HTTP, Clock)
	if os.Getenv("VERIF_REPLAY") != "" || t.Failed() {
		return
	}
	// generator health (NT rule of the design): each verdict must be at least 25 % of the cases
	for _, p := range []string{"direct", "http"} {
		a, r := nAccept[p].Load(), nReject[p].Load()
		if a+r < 300 {
			continue
		}
		if 4*a < a+r || 4*r < a+r {
			t.Errorf("C02/%s: verdict balance outside [25%%, 75%%]: %d expected admissions, %d expected refusals", p, a, r)
		}
	}
}
