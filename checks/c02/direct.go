package c02

import (
	"bytes"
	"errors"
	"encoding/pem"
	"fmt"
	"strings"
	"sync/atomic"
	"testing"

	"github.com/google/certificate-transparency-go/trillian/ctfe"
	"github.com/google/certificate-transparency-go/x509"
	"github.com/google/certificate-transparency-go/x509util"

	"verif/internal/harness"
	"verif/internal/pki"
)

// configuration values (not oracle knowledge): the fork's constants for the EKU names.
var ekuConst = map[string]x509.ExtKeyUsage{
	"ServerAuth":      x509.ExtKeyUsageServerAuth,
	"ClientAuth":      x509.ExtKeyUsageClientAuth,
	"CodeSigning":     x509.ExtKeyUsageCodeSigning,
	"EmailProtection": x509.ExtKeyUsageEmailProtection,
	"TimeStamping":    x509.ExtKeyUsageTimeStamping,
	"OCSPSigning":     x509.ExtKeyUsageOCSPSigning,
	"IPSECUser":       x509.ExtKeyUsageIPSECUser,
}

// balance counters: expected verdicts per sub-property (generator health, checked after the run).
var (
	nAccept = map[string]*atomic.Int64{"direct": {}, "http": {}}
	nReject = map[string]*atomic.Int64{"direct": {}, "http": {}}
)

func pemBundle(certs []*pki.Cert) []byte {
	var buf bytes.Buffer
	for _, c := range certs {
		pem.Encode(&buf, &pem.Block{Type: "CERTIFICATE", Bytes: c.DER})
	}
	return buf.Bytes()
}

// linkOK re-states one link of the reference predicate for two certificates identified by their DER
// (used to judge a root the code appended to the path).
func (w *world) issuedByTrusted(last elem, root *pki.Cert) bool {
	return bytes.Equal(last.c.IssuerDER(), root.SubjectDER()) && last.genuine() && sameKey(last.c.SignerKey, root.Key)
}

// judgePath checks the clauses about the validated path that is handed on. path holds the DER of the
// returned certificates.
func (w *world) judgePath(v *harness.Verdict, path [][]byte) {
	in := w.chain
	if len(path) != len(in) && len(path) != len(in)+1 {
		v.Failf("path-length", "validated path has %d certificates for %d submitted; %s", len(path), len(in), w.describe())
		return
	}
	if len(path) == 0 || !bytes.Equal(path[0], in[0].der) {
		v.Failf("path-leaf", "validated path does not start with the submitted leaf; %s", w.describe())
		return
	}
	for i := range in {
		if !bytes.Equal(path[i], in[i].der) {
			v.Failf("path-order", "validated path differs from the submission at position %d; %s", i, w.describe())
			return
		}
	}
	root := w.inPool(path[len(path)-1])
	if root == nil {
		v.Failf("path-end-not-trusted", "validated path does not end in a certificate of the trusted pool; %s", w.describe())
		return
	}
	if len(path) == len(in)+1 {
		v.Class("path:root-appended")
		if !w.issuedByTrusted(in[len(in)-1], root) {
			v.Failf("path-root-not-issuer", "appended root %s did not issue the last submitted certificate; %s", root.Label, w.describe())
		}
	} else {
		v.Class("path:ends-with-submitted")
	}
}

func checkDirect(t *testing.T, c Case) (v harness.Verdict) {
	memoTrim()
	w := build(&c)
	o := w.resolve(false)
	chainWhy := chainReason(w.chain, w.trusted)
	lm := w.metas[w.chain[0].c]
	filterWhy := ""
	if w.chain[0].intact() {
		filterWhy = filterReason(lm, o)
	}
	want := chainWhy == "" && filterWhy == ""
	w.classes(&v, chainWhy, filterWhy)
	v.NonTrivial = len(w.applied) > 0 || c.Opt.Start != nil || c.Opt.Limit != nil || c.Opt.RejectExpired || c.Opt.RejectUnexpired || c.Opt.OnlyCA || len(c.Opt.EKUs) > 0
	if want {
		v.Class("verdict:accept")
		nAccept["direct"].Add(1)
	} else {
		v.Class("verdict:reject")
		nReject["direct"].Add(1)
	}

	pool := x509util.NewPEMCertPool()
	if !pool.AppendCertsFromPEM(pemBundle(w.trusted)) {
		t.Fatalf("trusted pool did not load: %s", w.describe())
	}
	var ekus []x509.ExtKeyUsage
	for _, n := range c.Opt.EKUs {
		ekus = append(ekus, ekuConst[n])
	}
	vo := ctfe.NewCertValidationOpts(pool, o.now, c.Opt.RejectExpired, c.Opt.RejectUnexpired, o.start, o.limit, c.Opt.OnlyCA, ekus)
	path, err := ctfe.ValidateChain(w.ders(), vo)
	got := err == nil

	switch {
	case got && !want:
		why := chainWhy
		if why == "" {
			why = filterWhy
		}
		v.Failf("admitted-"+why, "ValidateChain admitted a chain the reference refuses (chain: %q, filter: %q); %s; options %s", chainWhy, filterWhy, w.describe(), optString(w, o))
	case !got && want:
		sig := w.refusedSig(o, errors.Is(err, ctfe.ErrNoRFCCompliantPathFound))
		v.Failf(sig, "ValidateChain refused a chain the reference admits: %v; %s; options %s", err, w.describe(), optString(w, o))
	}
	if got {
		var raw [][]byte
		for _, pc := range path {
			raw = append(raw, pc.Raw)
		}
		w.judgePath(&v, raw)
	}

	// leaf kind: IsPrecertificate on the repository's own parse of chain[0]
	if w.chain[0].intact() {
		var leaf *x509.Certificate
		if got && len(path) > 0 {
			leaf = path[0]
		} else if pc, perr := x509.ParseCertificate(w.chain[0].der); !x509.IsFatal(perr) {
			leaf = pc
		} else {
			v.Failf("generated-cert-unparsable", "a generated, undamaged certificate does not parse: %v; %s", perr, w.describe())
		}
		if leaf != nil {
			isPre, perr := ctfe.IsPrecertificate(leaf)
			switch lm.poison {
			case "":
				if isPre || perr != nil {
					v.Failf("poison-absent-misjudged", "IsPrecertificate = (%v, %v) for a certificate without poison; %s", isPre, perr, w.describe())
				}
			case "ok":
				if !isPre || perr != nil {
					v.Failf("poison-wellformed-misjudged", "IsPrecertificate = (%v, %v) for a critical NULL poison; %s", isPre, perr, w.describe())
				}
			default:
				if perr == nil {
					v.Failf("poison-malformed-accepted", "IsPrecertificate = (%v, nil) for a malformed poison (%s); %s", isPre, lm.poison, w.describe())
				}
			}
		}
	}
	return v
}

func optString(w *world, o ropt) string {
	s := "t0(NotAfter of the generated leaf)=" + w.t0.UTC().Format("2006-01-02T15:04:05.999999999Z")
	f := "2006-01-02T15:04:05.999999999Z"
	if o.start != nil {
		s += " start=" + o.start.UTC().Format(f)
	}
	if o.limit != nil {
		s += " limit=" + o.limit.UTC().Format(f)
	}
	if !o.now.IsZero() {
		s += " now=" + o.now.UTC().Format(f)
	}
	return fmt.Sprintf("%s rejectExpired=%v rejectUnexpired=%v onlyCA=%v ekus=%v rejectExts=%v leafNotAfter=%s", s, o.c.RejectExpired, o.c.RejectUnexpired, o.c.OnlyCA, o.c.EKUs, o.c.RejectExts,
		w.metas[w.chain[0].c].notAfter.UTC().Format(f))
}

// refusedSig classifies a wrong refusal by what the case has that could explain it (labelling only).
//
// "refused-trusted-leaf-with-issuer" is the known finding C02-1 and is kept to exactly its pattern:
// chain[0] is itself in the trusted pool AND further certificates follow it AND the refusal is the "no
// RFC compliant path" one (x509.Verify stops at [[leaf]] when Roots.contains(leaf), so the order check
// fails on length). Any other refusal of such a chain, the bare [X], or a wrong path keep other sigs.
func (w *world) refusedSig(o ropt, noCompliantPath bool) string {
	lm := w.metas[w.chain[0].c]
	switch {
	case len(w.chain) > 1 && w.inPool(w.chain[0].der) != nil && noCompliantPath:
		return "refused-trusted-leaf-with-issuer"
	case o.start != nil && lm.notAfter.Equal(*o.start):
		return "refused-notafter-equal-to-window-start"
	case !o.now.IsZero() && o.c.RejectExpired && lm.notAfter.Equal(o.now):
		return "refused-as-expired-at-notafter"
	}
	// a CA's own self-signed certificate directly followed by another certificate of the same CA
	for i := 0; i+1 < len(w.chain); i++ {
		a, b := w.metas[w.chain[i].c], w.metas[w.chain[i+1].c]
		if a.node >= 0 && a.variant < 0 && b.node == a.node {
			return "refused-valid-chain-old-self-signed-before-cross"
		}
	}
	isLeaf := w.metas[w.chain[0].c].node < 0 && w.chain[0].c.Label == "leaf"
	if isLeaf && w.c.Leaf.Bulk > 0 {
		return "refused-valid-chain-large-body"
	}
	for i := range w.chain {
		for j := i + 1; j < len(w.chain); j++ {
			a, b := w.chain[i].c, w.chain[j].c
			if a.Tmpl.Serial.Cmp(b.Tmpl.Serial) == 0 && bytes.Equal(a.IssuerDER(), b.IssuerDER()) {
				return "refused-valid-chain-same-issuer-and-serial"
			}
		}
	}
	if isLeaf && w.c.Leaf.NBOff > 0 && (o.c.RejectExpired || o.c.RejectUnexpired) {
		return "refused-valid-chain-inverted-validity"
	}
	// a valid chain that carries something the log must ignore: name the first such feature
	if fs := w.ignoredFeatures(); len(fs) > 0 {
		return "refused-valid-chain-" + strings.TrimPrefix(fs[0], "ignored:")
	}
	return "refused-valid-chain"
}
