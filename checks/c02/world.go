// Package c02: only chains that lead, in submitted order, to a trusted root are admitted.
//
// world.go resolves the plain-data description of a certificate hierarchy (Case) into certificates
// built by internal/pki, and keeps the ground truth the oracle needs (who signed what with which key,
// CA-ness, leaf properties). Nothing in here asks the repository's parser about a certificate.
package c02

import (
	"bytes"
	"crypto/sha1"
	"crypto/sha256"
	"fmt"
	"math/big"
	"strings"
	"sync"
	"time"

	"verif/internal/derx"
	"verif/internal/keys"
	"verif/internal/pki"
)

// ---------------------------------------------------------------------------------------------
// Case (plain data)

type RootSpec struct {
	Kind    string
	Trusted bool
	V1      bool // version 1 certificate: no extensions at all (old-style root)
	NoKU    bool // no KeyUsage extension
	UTF8    bool // subject CN as UTF8String instead of PrintableString
	Twin    int  // > 0: reuse the key of the (Twin-1 mod i)-th earlier root under this root's different name (a re-named CA)
	// constraints the log disables on purpose; the statement has no clause about them, so they must not
	// change the verdict (0 = absent)
	PathLen  int // n > 0: pathLenConstraint n-1
	NameCons int // 1: permitted dNSName subtree the leaf is outside of; 2: excluded subtree the leaf is inside
	Serial   int // > 0: this small serial number (collisions on (issuer, serial) between different certificates); 0: unique
}

type CASpec struct {
	Parent   int // index (mod) into the nodes eligible as CA parents defined before this one
	Cross    int // < 0: none; else index (mod) of a second parent: cross-signed sibling (same subject + key)
	Kind     string
	Role     string // "ca" | "pre" (CA with the CT precert-signing EKU) | "nonca" (end entity that signs anyway)
	V1       bool   // nonca only: a version 1 certificate (no extensions, hence no CA assertion); never trusted
	NoBC     bool   // nonca only: no BasicConstraints at all (otherwise BasicConstraints with cA FALSE)
	AKI      bool
	NoKU     bool
	SigAlg   int
	UTF8     bool
	Trusted  bool // the certificate under Parent is in the trusted pool
	TrustedX bool // the cross-signed sibling is in the trusted pool
	Twin     int  // > 0: reuse the key of the (Twin-1 mod n)-th earlier node under this node's different name
	BadAKI   bool // with AKI: the identifier matches NO certificate anywhere (issuer found by name only)
	// constraints the log disables on purpose (no clause of the statement): must not change the verdict
	PathLen     int    // n > 0: pathLenConstraint n-1 (CA roles)
	NameCons    int    // 1: permitted dNSName subtree the leaf is outside of; 2: excluded subtree the leaf is inside
	EKU         string // role "ca": an EKU extension with just this usage (leaf EKUs need not nest)
	CritUnknown bool   // an unknown critical extension
	// OldSelf: the CA also has a self-signed certificate of its own (same subject and key), e.g. a former
	// root that has since been cross-certified. [..., old self-signed, cross-certificate, ...] is a valid order.
	OldSelf        bool
	OldSelfTrusted bool
	Serial         int // > 0: this small serial number; 0: unique
	Validity       int // 0: valid around pki.Epoch; 1: expired long ago; 2: not valid yet (no clause about issuers' validity)
}

type LeafSpec struct {
	Issuer    int  // index (mod) into all nodes
	Node      bool // path[0] is the issuer node's own certificate (a CA, possibly a trusted root, as leaf)
	Kind      string
	CA        bool   // the leaf carries BasicConstraints CA (a sub-CA certificate being logged)
	Poison    string // "" | "ok" | "noncrit" | "int" | "empty" | "octet" | "trail" | "noncrit-int"
	PoisonPos int
	ExtRot    int // rotation of the leaf's other extensions
	HasEKU    bool
	EKUs      []string
	Exts      []int // indices into extraOIDs
	NotAfter  int64 // seconds relative to pki.Epoch
	AKI       bool
	BadAKI    bool // with AKI: an identifier that matches no certificate anywhere
	SigAlg    int
	Serial    int   // > 0: this small serial number; 0: unique
	NBOff     int64 // NotBefore = NotAfter + NBOff seconds (may be positive: inverted validity); 0: NotAfter - 3 months
	Bulk      int   // > 0: a padding extension of that many octets (large request bodies)
	// KUMode draws the leaf's keyUsage independently of basicConstraints: 0 by the CA flag
	// (digitalSignature / keyCertSign+cRLSign), 1 digitalSignature+keyCertSign, 2 keyCertSign+cRLSign,
	// 3 no keyUsage, 4 digitalSignature only, 5 cRLSign only
	KUMode int
}

// HistStep is an earlier submission on the same Instance (HTTP level): the case's unperturbed
// submission with these perturbations, sent to the same endpoint after advancing the log's clock.
type HistStep struct {
	Perturbs   []Perturb
	AdvanceSec int
}

type Perturb struct {
	Op      string
	I, J, K int
}

type Opt struct {
	Start, Limit    *int64 // seconds relative to the NotAfter of the original path[0]
	StartNs         int64  // sub-second part added to Start (nanoseconds, either sign)
	LimitNs         int64  // sub-second part added to Limit
	RejectExpired   bool
	RejectUnexpired bool
	Now             int64 // nanoseconds relative to the same instant (direct level only)
	OnlyCA          bool
	EKUs            []string
	RejectExts      []string // dotted OIDs (HTTP level only)
}

type Case struct {
	SKIMode     int // 0 no key identifiers anywhere, 1 every certificate has an SKI, 2 per key by SKIMask
	SKIMask     uint32
	Roots       []RootSpec
	CAs         []CASpec
	Leaf        LeafSpec
	Variants    uint32 // bit d: take the cross-signed sibling at path depth d (when there is one)
	IncludeRoot bool
	Perturbs    []Perturb
	Opt         Opt
	PreChain    bool // HTTP level: submit to add-pre-chain
	History     []HistStep // HTTP level: submissions made before the judged one (each is judged too)
	AdvanceSec  int        // HTTP level: log clock advance before the final submission
	// HTTP level: the trusted pool is configured as one roots file (0) or split over two files after
	// RootSplit (mod n) certificates. Neighbour sets up a second log in the same process whose roots are
	// the judged log's FIRST file plus a file with every certificate the judged log does NOT trust:
	// 1 before, 2 after the judged log (0: none). The neighbour's trust must not leak.
	RootSplit      int
	Neighbour      int
	NeighbourFirst bool // the shared file comes first in the neighbour's list
	MaxDepth    int  // deepest intermediate level (0 = 3)
}

// ---------------------------------------------------------------------------------------------
// ground truth

// meta is what the oracle knows about a certificate by construction.
type meta struct {
	notAfter time.Time
	caBit    bool     // BasicConstraints with cA TRUE present
	ekus     []string // names as in ekuOIDs
	extOIDs  []string // dotted OIDs of all extensions, in order
	poison   string   // as LeafSpec.Poison
	node     int      // node index, -1 for leaves / foreign certificates
	variant  int
	pathLen  int // -1: no pathLenConstraint
	nameCons bool
	crit     bool // unknown critical extension
	badAKI   bool
}

type node struct {
	label   string
	key     *keys.Key
	subject pki.Name
	role    string // "root" | "ca" | "pre" | "nonca"
	v1      bool
	depth   int
	certs   []*pki.Cert // variant 0 (and 1 when cross-signed)
	self    *pki.Cert   // self-signed certificate of the same subject and key (meta.variant -1), or nil
	parents []int       // node index of each variant's issuer (-1: self-signed)
	trusted []bool
}

// elem is one submitted certificate: the ground-truth certificate it stems from and the bytes
// actually submitted (possibly with a flipped signature bit or truncated).
type elem struct {
	c   *pki.Cert
	der []byte
	// misaligned: the entry does not hold exactly one certificate (empty, two concatenated, a fragment,
	// trailing bytes); c is then only the certificate the bytes were taken from
	misaligned bool
}

// intact: the entry is exactly one certificate (possibly with a flipped signature bit)
func (e elem) intact() bool  { return !e.misaligned && len(e.der) == len(e.c.DER) }
func (e elem) genuine() bool { return e.c.Genuine && bytes.Equal(e.der, e.c.DER) }

type world struct {
	nodes   []*node
	metas   map[*pki.Cert]*meta
	all     []*pki.Cert // every certificate of the hierarchy + foreign ones (for "insert")
	trusted []*pki.Cert
	path    []*pki.Cert // the correct path, leaf first, root last
	chain   []elem      // the submission after root omission and perturbations
	t0      time.Time   // NotAfter of the original path[0]
	applied []string    // effective perturbation labels
	used    map[string]int
	keyOrd  map[*keys.Key]int
	c       *Case
}

var ekuOIDs = map[string][]int{
	"ServerAuth":      pki.OIDEKUServerAuth,
	"ClientAuth":      pki.OIDEKUClientAuth,
	"CodeSigning":     pki.OIDEKUCodeSigning,
	"EmailProtection": pki.OIDEKUEmail,
	"TimeStamping":    pki.OIDEKUTimeStamp,
	"OCSPSigning":     pki.OIDEKUOCSP,
	"CT":              pki.OIDEKUCT,
	"Private":         {1, 3, 6, 1, 4, 1, 55555, 99},
}

// leafEKUNames can appear in a leaf; filterEKUNames can appear in a log's filter.
var leafEKUNames = []string{"ServerAuth", "ClientAuth", "CodeSigning", "EmailProtection", "TimeStamping", "OCSPSigning", "Private"}
var filterEKUNames = []string{"ServerAuth", "ClientAuth", "CodeSigning", "EmailProtection", "TimeStamping", "OCSPSigning", "IPSECUser"}

var extraOIDs = [][]int{
	{1, 3, 6, 1, 4, 1, 55555, 1},
	{1, 3, 6, 1, 4, 1, 55555, 10},
	{1, 3, 6, 1, 4, 1, 55555, 1, 1},
	{1, 3, 6, 1, 4, 1, 55556, 1},
}

// rejectOIDChoices are the OIDs a log may be configured to refuse: the private ones above, near
// misses of them, and standard ones.
var rejectOIDChoices = []string{
	"1.3.6.1.4.1.55555.1", "1.3.6.1.4.1.55555.10", "1.3.6.1.4.1.55555.1.1", "1.3.6.1.4.1.55556.1",
	"1.3.6.1.4.1.55555", "1.3.6.1.4.1.55555.2", "1.3.6.1.4.1.55555.11",
	"2.5.29.17", "2.5.29.37", "2.5.29.19", "2.5.29.15", "2.5.29.14", "1.3.6.1.4.1.11129.2.4.3", "2.5.29.35",
}

func dotted(oid []int) string {
	s := make([]string, len(oid))
	for i, a := range oid {
		s[i] = fmt.Sprint(a)
	}
	return strings.Join(s, ".")
}

func mod(a, n int) int {
	if n <= 0 {
		return 0
	}
	a %= n
	if a < 0 {
		a += n
	}
	return a
}

// reserved pool keys: never handed out to hierarchy nodes.
var (
	foreignRootKey = func() *keys.Key { return keys.Get("p256-15") }
	foreignLeafKey = func() *keys.Key { return keys.Get("p256-14") }
	forgerKeys     = func() []*keys.Key {
		return []*keys.Key{keys.Get("p256-13"), keys.Get("rsa2048-5"), keys.Get("ed25519-3"), keys.Get("p384-3")}
	}
	reserved = map[string]int{"p256": 13, "rsa2048": 5, "ed25519": 3, "p384": 3}
)

// allocKey hands out pairwise distinct keys; when a kind is exhausted it falls back to p256.
func (w *world) allocKey(kind string) *keys.Key {
	limit := len(keys.Kind(kind))
	if r, ok := reserved[kind]; ok {
		limit = r
	}
	if w.used[kind] >= limit {
		kind = "p256"
		limit = reserved["p256"]
		if w.used[kind] >= limit {
			panic("c02: key pool exhausted")
		}
	}
	k := keys.Kind(kind)[w.used[kind]]
	w.used[kind]++
	w.keyOrd[k] = len(w.keyOrd)
	return k
}

// hasSKI is the per-key key-identifier policy: all certificates carrying the same key agree on it,
// which is what "SKI/AKI absent or consistent" means here.
func (w *world) hasSKI(k *keys.Key) bool {
	switch w.c.SKIMode {
	case 1:
		return true
	case 2:
		return w.c.SKIMask>>(uint(w.keyOrd[k])%32)&1 == 1
	}
	return false
}

// certificates are memoised by a structural key so that RSA signing is not repeated for every case.
var (
	memoMu sync.Mutex
	memo   = map[string]*pki.Cert{}
	memoID = map[*pki.Cert]string{}
)

// memoTrim bounds the memo; called between cases only, so that within a case a certificate described
// twice (history steps) is the same certificate byte for byte.
func memoTrim() {
	memoMu.Lock()
	defer memoMu.Unlock()
	if len(memo) > 20000 {
		memo = map[string]*pki.Cert{}
		memoID = map[*pki.Cert]string{}
	}
}

func issueMemo(parent *pki.Cert, t pki.Template, label string) *pki.Cert {
	signer := t.Key
	pid := "self"
	if parent != nil {
		signer = parent.Key
		pid = memoID[parent]
		t.Issuer = parent.Tmpl.Subject
	} else {
		t.Issuer = t.Subject
	}
	id := fmt.Sprintf("%s|%s|%x", pid, signer.Name, sha256.Sum256(t.TBS(signer)))
	memoMu.Lock()
	defer memoMu.Unlock()
	if c, ok := memo[id]; ok {
		return c
	}
	c := pki.Issue(parent, t, label)
	memo[id] = c
	memoID[c] = id
	return c
}

func cn(s string, utf8 bool) pki.Name {
	tag := byte(derx.TagPrintable)
	if utf8 {
		tag = derx.TagUTF8String
	}
	return pki.Name{{{OID: pki.OIDCommonName, Tag: tag, Value: s}}}
}

func extOIDList(t *pki.Template) []string {
	if t.Version == 1 {
		return nil
	}
	var out []string
	for _, e := range t.Exts {
		out = append(out, dotted(e.OID))
	}
	return out
}

func (w *world) register(c *pki.Cert, m *meta) {
	m.extOIDs = extOIDList(&c.Tmpl)
	m.notAfter = c.Tmpl.NotAfter
	w.metas[c] = m
	w.all = append(w.all, c)
}

var oidCritUnknown = []int{1, 3, 6, 1, 4, 1, 55555, 7}
var oidBulk = []int{1, 3, 6, 1, 4, 1, 55555, 20}

// nameConstraints builds a critical NameConstraints extension: kind 1 permits only a dNSName subtree
// the generated leaf (c02-leaf.example.com) lies outside of, kind 2 excludes the subtree it lies in.
func nameConstraints(kind int) pki.Ext {
	sub := func(dom string) []byte { return derx.Seq(derx.Seq(derx.TLV(0x82, []byte(dom)))) }
	var body []byte
	if kind == 1 {
		body = derx.TLV(0xa0, sub("elsewhere.test")[2:])
	} else {
		body = derx.TLV(0xa1, sub("example.com")[2:])
	}
	return pki.Ext{OID: pki.OIDExtNameConstr, Critical: true, Value: derx.Seq(body)}
}

// bogusKeyID is an authority key identifier that equals no subject key identifier anywhere.
func bogusKeyID(label string) []byte {
	h := sha1.Sum([]byte("c02 bogus key id " + label))
	return h[:]
}

func poisonExt(kind string) (pki.Ext, bool) {
	e := pki.Ext{OID: pki.OIDExtPoison}
	switch kind {
	case "ok":
		e.Critical, e.Value = true, derx.Null()
	case "noncrit":
		e.Critical, e.Value = false, derx.Null()
	case "int":
		e.Critical, e.Value = true, derx.Int64(0)
	case "empty":
		e.Critical, e.Value = true, []byte{}
	case "octet":
		e.Critical, e.Value = true, derx.Octets(nil)
	case "trail":
		e.Critical, e.Value = true, append(derx.Null(), 0)
	case "noncrit-int":
		e.Critical, e.Value = false, derx.Int64(5)
	default:
		return e, false
	}
	return e, true
}

// build resolves the case.
func build(c *Case) *world {
	w := &world{metas: map[*pki.Cert]*meta{}, used: map[string]int{}, keyOrd: map[*keys.Key]int{}, c: c}
	serial := int64(1000)
	next := func(small int) *big.Int {
		serial++
		if small > 0 {
			return big.NewInt(int64(small))
		}
		return big.NewInt(serial)
	}
	nb, na := pki.Epoch.AddDate(-5, 0, 0), pki.Epoch.AddDate(20, 0, 0)

	// roots
	for i, r := range c.Roots {
		var k *keys.Key
		// a version 1 certificate cannot carry an SKI, so sharing its key with a certificate that does
		// would break the "key identifiers consistent per key" precondition: no twins with v1 on either side
		if r.Twin > 0 && i > 0 && !r.V1 && !w.nodes[mod(r.Twin-1, i)].v1 {
			k = w.nodes[mod(r.Twin-1, i)].key
		} else {
			k = w.allocKey(r.Kind)
		}
		n := &node{label: fmt.Sprintf("root%d", i), key: k, subject: cn(fmt.Sprintf("C02 Root %d", i), r.UTF8), role: "root", v1: r.V1}
		t := pki.Template{Serial: next(r.Serial), Subject: n.subject, NotBefore: nb, NotAfter: na, Key: k}
		if r.V1 {
			t.Version = 1
		} else {
			t.Exts = []pki.Ext{pki.BasicConstraints(true, r.PathLen-1, true)}
			if !r.NoKU {
				t.Exts = append(t.Exts, pki.KeyUsage(pki.KUKeyCertSign, pki.KUCRLSign))
			}
			if w.hasSKI(k) {
				t.Exts = append(t.Exts, pki.SKI(pki.KeyID(k)))
			}
			if r.NameCons > 0 {
				t.Exts = append(t.Exts, nameConstraints(r.NameCons))
			}
		}
		cert := issueMemo(nil, t, n.label)
		n.certs, n.parents, n.trusted = []*pki.Cert{cert}, []int{-1}, []bool{r.Trusted}
		w.nodes = append(w.nodes, n)
		rm := &meta{caBit: !r.V1, node: i, pathLen: -1}
		if !r.V1 {
			rm.pathLen, rm.nameCons = r.PathLen-1, r.NameCons > 0
		}
		w.register(cert, rm)
	}

	// intermediates
	maxDepth := 3
	if c.MaxDepth > 0 {
		maxDepth = c.MaxDepth
	}
	for j, s := range c.CAs {
		var elig []int
		for idx, n := range w.nodes {
			if (n.role == "root" || n.role == "ca") && n.depth < maxDepth {
				elig = append(elig, idx)
			}
		}
		p0 := elig[mod(s.Parent, len(elig))]
		var k *keys.Key
		isV1 := s.Role == "nonca" && s.V1
		if s.Twin > 0 && !isV1 && !w.nodes[mod(s.Twin-1, len(w.nodes))].v1 {
			k = w.nodes[mod(s.Twin-1, len(w.nodes))].key
		} else {
			k = w.allocKey(s.Kind)
		}
		idx := len(w.nodes)
		n := &node{label: fmt.Sprintf("ca%d", j), key: k, subject: cn(fmt.Sprintf("C02 CA %d", j), s.UTF8), role: s.Role, v1: isV1, depth: w.nodes[p0].depth + 1}
		mk := func(parent int, variant int) *pki.Cert {
			pn, pc := n, (*pki.Cert)(nil) // parent < 0: self-signed
			if parent >= 0 {
				pn = w.nodes[parent]
				pc = pn.certs[0]
			}
			t := pki.Template{Serial: next(s.Serial), Subject: n.subject, NotBefore: nb, NotAfter: na, Key: k}
			switch s.Validity {
			case 1:
				t.NotBefore, t.NotAfter = pki.Epoch.AddDate(-15, 0, 0), pki.Epoch.AddDate(-10, 0, 0)
			case 2:
				t.NotBefore, t.NotAfter = pki.Epoch.AddDate(30, 0, 0), pki.Epoch.AddDate(40, 0, 0)
			}
			var ekus []string
			cm := &meta{pathLen: -1}
			switch s.Role {
			case "nonca":
				if !s.NoKU {
					t.Exts = append(t.Exts, pki.KeyUsage(pki.KUDigitalSignature))
				}
				if !s.NoBC {
					t.Exts = append(t.Exts, pki.BasicConstraints(false, -1, true))
				}
				if s.V1 {
					t.Version = 1
				}
			default:
				t.Exts = []pki.Ext{pki.BasicConstraints(true, s.PathLen-1, true)}
				if !s.NoKU {
					t.Exts = append(t.Exts, pki.KeyUsage(pki.KUKeyCertSign, pki.KUCRLSign))
				}
				if s.Role == "pre" {
					t.Exts = append(t.Exts, pki.EKU(pki.OIDEKUCT))
					ekus = []string{"CT"}
				} else if oid, ok := ekuOIDs[s.EKU]; ok {
					t.Exts = append(t.Exts, pki.EKU(oid))
					ekus = []string{s.EKU}
				}
				if s.NameCons > 0 {
					t.Exts = append(t.Exts, nameConstraints(s.NameCons))
				}
				cm.pathLen, cm.nameCons = s.PathLen-1, s.NameCons > 0
			}
			if s.CritUnknown {
				t.Exts = append(t.Exts, pki.Ext{OID: oidCritUnknown, Critical: true, Value: derx.Octets([]byte{1})})
				cm.crit = true
			}
			if w.hasSKI(k) {
				t.Exts = append(t.Exts, pki.SKI(pki.KeyID(k)))
			}
			if s.AKI && s.BadAKI {
				t.Exts = append(t.Exts, pki.AKI(bogusKeyID(n.label)))
				cm.badAKI = true
			} else if s.AKI {
				t.Exts = append(t.Exts, pki.AKI(pki.KeyID(pn.key)))
			}
			if t.Version == 1 {
				t.Exts = nil
				*cm = meta{pathLen: -1}
			}
			algs := pki.SigAlgsFor(pn.key)
			t.SigAlg = algs[mod(s.SigAlg+variant, len(algs))]
			cert := issueMemo(pc, t, fmt.Sprintf("%s.%d", n.label, variant))
			cm.caBit, cm.ekus, cm.node, cm.variant = s.Role != "nonca", ekus, idx, variant
			w.register(cert, cm)
			return cert
		}
		n.certs, n.parents, n.trusted = []*pki.Cert{mk(p0, 0)}, []int{p0}, []bool{s.Trusted && !(s.Role == "nonca" && s.V1)}
		if s.OldSelf && s.Role != "nonca" {
			n.self = mk(-1, -1)
			if s.OldSelfTrusted && s.Role != "pre" {
				w.trusted = append(w.trusted, n.self)
			}
		}
		if s.Cross >= 0 {
			p1 := elig[mod(s.Cross, len(elig))]
			if p1 != p0 {
				n.certs = append(n.certs, mk(p1, 1))
				n.parents = append(n.parents, p1)
				n.trusted = append(n.trusted, s.TrustedX && !(s.Role == "nonca" && s.V1))
				if d := w.nodes[p1].depth + 1; d > n.depth {
					n.depth = d
				}
			}
		}
		w.nodes = append(w.nodes, n)
	}

	// foreign mini-PKI (for "insert an unrelated certificate")
	fr := issueMemo(nil, pki.CATemplate("C02 Foreign Root", foreignRootKey(), 77, nil), "foreign-root")
	w.register(fr, &meta{caBit: true, node: -1, pathLen: -1})
	fl := issueMemo(fr, pki.LeafTemplate("c02-foreign-leaf", foreignLeafKey(), 78, nil), "foreign-leaf")
	w.register(fl, &meta{ekus: []string{"ServerAuth"}, node: -1, pathLen: -1})

	for _, n := range w.nodes {
		for v, cert := range n.certs {
			if n.trusted[v] {
				w.trusted = append(w.trusted, cert)
			}
		}
	}

	// the correct path
	ls := c.Leaf
	cur := mod(ls.Issuer, len(w.nodes))
	depth := 0
	variantAt := func(n *node) int {
		v := 0
		if len(n.certs) > 1 && c.Variants>>uint(depth%32)&1 == 1 {
			v = 1
		}
		depth++
		return v
	}
	if !ls.Node {
		in := w.nodes[cur]
		lk := w.allocKey(ls.Kind)
		t := pki.Template{Serial: next(ls.Serial), Subject: cn("c02-leaf", false), NotAfter: pki.Epoch.Add(time.Duration(ls.NotAfter) * time.Second), Key: lk}
		t.NotBefore = t.NotAfter.AddDate(0, -3, 0)
		if ls.NBOff != 0 {
			t.NotBefore = t.NotAfter.Add(time.Duration(ls.NBOff) * time.Second)
		}
		var exts []pki.Ext
		if ls.CA {
			exts = append(exts, pki.BasicConstraints(true, -1, true))
		}
		switch ls.KUMode {
		case 1:
			exts = append(exts, pki.KeyUsage(pki.KUDigitalSignature, pki.KUKeyCertSign))
		case 2:
			exts = append(exts, pki.KeyUsage(pki.KUKeyCertSign, pki.KUCRLSign))
		case 3:
		case 4:
			exts = append(exts, pki.KeyUsage(pki.KUDigitalSignature))
		case 5:
			exts = append(exts, pki.KeyUsage(pki.KUCRLSign))
		default:
			if ls.CA {
				exts = append(exts, pki.KeyUsage(pki.KUKeyCertSign, pki.KUCRLSign))
			} else {
				exts = append(exts, pki.KeyUsage(pki.KUDigitalSignature))
			}
		}
		if ls.HasEKU {
			var oids [][]int
			for _, n := range ls.EKUs {
				oids = append(oids, ekuOIDs[n])
			}
			exts = append(exts, pki.EKU(oids...))
		}
		exts = append(exts, pki.SANDNS("c02-leaf.example.com"))
		if w.hasSKI(lk) {
			exts = append(exts, pki.SKI(pki.KeyID(lk)))
		}
		if ls.AKI && ls.BadAKI {
			exts = append(exts, pki.AKI(bogusKeyID("leaf")))
		} else if ls.AKI {
			exts = append(exts, pki.AKI(pki.KeyID(in.key)))
		}
		seen := map[int]bool{}
		for _, x := range ls.Exts {
			x = mod(x, len(extraOIDs))
			if !seen[x] {
				seen[x] = true
				exts = append(exts, pki.Ext{OID: extraOIDs[x], Value: derx.Octets([]byte{byte(x)})})
			}
		}
		if ls.Bulk > 0 {
			exts = append(exts, pki.Ext{OID: oidBulk, Value: derx.Octets(make([]byte, ls.Bulk))})
		}
		if r := mod(ls.ExtRot, len(exts)); r > 0 {
			exts = append(append([]pki.Ext{}, exts[r:]...), exts[:r]...)
		}
		if pe, ok := poisonExt(ls.Poison); ok {
			p := mod(ls.PoisonPos, len(exts)+1)
			exts = append(append(append([]pki.Ext{}, exts[:p]...), pe), exts[p:]...)
		}
		t.Exts = exts
		algs := pki.SigAlgsFor(in.key)
		t.SigAlg = algs[mod(ls.SigAlg, len(algs))]
		// the leaf is issued by the issuer node's key; both sibling certificates carry it
		leaf := issueMemo(in.certs[0], t, "leaf")
		var ekus []string
		if ls.HasEKU {
			ekus = ls.EKUs
		}
		poison := ls.Poison
		if _, ok := poisonExt(poison); !ok {
			poison = ""
		}
		w.register(leaf, &meta{caBit: ls.CA, ekus: ekus, poison: poison, node: -1, pathLen: -1, badAKI: ls.AKI && ls.BadAKI})
		w.path = append(w.path, leaf)
	}
	for cur >= 0 {
		n := w.nodes[cur]
		v := variantAt(n)
		w.path = append(w.path, n.certs[v])
		cur = n.parents[v]
	}
	w.t0 = w.metas[w.path[0]].notAfter

	// submission: root omitted unless asked for (a bare root stays)
	sub := w.path
	if !c.IncludeRoot && len(sub) > 1 {
		sub = sub[:len(sub)-1]
	}
	for _, cert := range sub {
		w.chain = append(w.chain, elem{c: cert, der: cert.DER})
	}
	for _, p := range c.Perturbs {
		w.applied = append(w.applied, w.perturb(p))
	}
	return w
}

func (w *world) sibling(c *pki.Cert) *pki.Cert {
	m := w.metas[c]
	if m == nil || m.node < 0 {
		return nil
	}
	n := w.nodes[m.node]
	if m.variant < 0 {
		return n.certs[0]
	}
	if len(n.certs) < 2 {
		return nil
	}
	return n.certs[1-m.variant]
}

// perturb applies one perturbation in place and returns its effective label ("noop:..." when the
// chain shape does not allow it).
func (w *world) perturb(p Perturb) string {
	ch := w.chain
	n := len(ch)
	ins := func(pos int, e elem) {
		out := append([]elem{}, ch[:pos]...)
		out = append(out, e)
		w.chain = append(out, ch[pos:]...)
	}
	switch p.Op {
	case "drop":
		if n < 2 {
			return "noop:drop"
		}
		i := mod(p.I, n)
		w.chain = append(append([]elem{}, ch[:i]...), ch[i+1:]...)
		if i == 0 {
			return "drop-leaf"
		}
		return "drop"
	case "cut":
		if n < 2 {
			return "noop:cut"
		}
		w.chain = append([]elem{}, ch[:n-1]...)
		return "cut-last"
	case "swap":
		if n < 2 {
			return "noop:swap"
		}
		i, j := mod(p.I, n), mod(p.J, n)
		if i == j {
			j = (i + 1) % n
		}
		out := append([]elem{}, ch...)
		out[i], out[j] = out[j], out[i]
		w.chain = out
		return "swap"
	case "dup":
		i := mod(p.I, n)
		ins(mod(p.J, n+1), elem{c: ch[i].c, der: append([]byte{}, ch[i].der...), misaligned: ch[i].misaligned})
		return "dup"
	case "insert":
		x := w.all[mod(p.K, len(w.all))]
		ins(mod(p.J, n+1), elem{c: x, der: x.DER})
		return "insert"
	case "approot":
		last := ch[n-1].c
		if last.Parent == nil {
			return "noop:approot"
		}
		ins(n, elem{c: last.Parent, der: last.Parent.DER})
		return "append-issuer"
	case "flip":
		i := mod(p.I, n)
		if len(ch[i].der) == 0 {
			return "noop:flip"
		}
		der := append([]byte{}, ch[i].der...)
		off := mod(p.J, 16)
		if off >= len(der) {
			off = 0
		}
		der[len(der)-1-off] ^= 1 << uint(mod(p.K, 8))
		out := append([]elem{}, ch...)
		out[i] = elem{c: ch[i].c, der: der, misaligned: ch[i].misaligned}
		w.chain = out
		return "flip"
	case "resign":
		i := mod(p.I, n)
		orig := ch[i].c
		named := orig.Parent
		if named == nil {
			named = orig
		}
		fk := forgerKeys()[mod(p.K, len(forgerKeys()))]
		t := orig.Tmpl
		t.SigAlg = ""
		forged := pki.IssueWithKey(named, fk, t, orig.Label+"-forged")
		forged.IsCA = orig.IsCA
		om := *w.metas[orig]
		om.node = -1
		w.metas[forged] = &om
		out := append([]elem{}, ch...)
		out[i] = elem{c: forged, der: forged.DER}
		w.chain = out
		return "resign"
	case "trunc":
		i := mod(p.I, n)
		if len(ch[i].der) < 2 {
			return "noop:trunc"
		}
		cut := 1 + mod(p.J, 64)
		if cut >= len(ch[i].der) {
			cut = len(ch[i].der) - 1
		}
		out := append([]elem{}, ch...)
		out[i] = elem{c: ch[i].c, der: append([]byte{}, ch[i].der[:len(ch[i].der)-cut]...)}
		// cutting the trailing bytes off again restores the certificate; anything else stays misaligned
		out[i].misaligned = ch[i].misaligned && !bytes.Equal(out[i].der, ch[i].c.DER)
		w.chain = out
		return "trunc"
	case "sibling":
		i := mod(p.I, n)
		s := w.sibling(ch[i].c)
		if s == nil {
			// try the first position that has one
			for k := range ch {
				if s = w.sibling(ch[k].c); s != nil {
					i = k
					break
				}
			}
		}
		if s == nil {
			return "noop:sibling"
		}
		out := append([]elem{}, ch...)
		out[i] = elem{c: s, der: s.DER}
		w.chain = out
		return "sibling"
	case "merge":
		// two certificates in one entry, balanced by an empty entry before or after: the byte stream and the
		// entry count are those of a well-formed chain, the entries are not certificates
		if n < 2 {
			return "noop:merge"
		}
		i := mod(p.I, n-1)
		joined := elem{c: ch[i].c, der: append(append([]byte{}, ch[i].der...), ch[i+1].der...), misaligned: true}
		empty := elem{c: ch[i+1].c, der: []byte{}, misaligned: true}
		out := append([]elem{}, ch[:i]...)
		if p.J%2 == 0 {
			out = append(out, joined, empty)
		} else {
			out = append(out, empty, joined)
		}
		w.chain = append(out, ch[i+2:]...)
		return "merge+empty"
	case "shift":
		// the boundary between two entries moved into the first certificate
		if n < 2 {
			return "noop:shift"
		}
		i := mod(p.I, n-1)
		if len(ch[i].der) < 2 {
			return "noop:shift"
		}
		k := 1 + mod(p.J*7+p.K, len(ch[i].der)-1)
		out := append([]elem{}, ch...)
		out[i] = elem{c: ch[i].c, der: append([]byte{}, ch[i].der[:k]...), misaligned: true}
		out[i+1] = elem{c: ch[i+1].c, der: append(append([]byte{}, ch[i].der[k:]...), ch[i+1].der...), misaligned: true}
		w.chain = out
		return "shift-boundary"
	case "emptyentry":
		ins(mod(p.J, n+1), elem{c: ch[mod(p.I, n)].c, der: []byte{}, misaligned: true})
		return "empty-entry"
	case "trail":
		i := mod(p.I, n)
		out := append([]elem{}, ch...)
		out[i] = elem{c: ch[i].c, der: append(append([]byte{}, ch[i].der...), make([]byte, 1+mod(p.J, 3))...), misaligned: true}
		w.chain = out
		return "trailing-bytes"
	case "dropinter":
		if n < 2 {
			return "noop:dropinter"
		}
		i := 1 + mod(p.I, n-1)
		w.chain = append(append([]elem{}, ch[:i]...), ch[i+1:]...)
		return "drop-intermediate"
	case "swapinters":
		if n < 3 {
			return "noop:swapinters"
		}
		i, j := 1+mod(p.I, n-1), 1+mod(p.J, n-1)
		if i == j {
			j = 1 + (i % (n - 1))
		}
		out := append([]elem{}, ch...)
		out[i], out[j] = out[j], out[i]
		w.chain = out
		return "swap-intermediates"
	case "leafalone":
		if n < 2 {
			return "noop:leafalone"
		}
		w.chain = append([]elem{}, ch[:1]...)
		return "leaf-alone"
	case "oldself":
		// put the CA's own self-signed certificate in front of its (cross-)certificate: still a valid order
		find := func(c *pki.Cert) *pki.Cert {
			m := w.metas[c]
			if m == nil || m.node < 0 || m.variant < 0 {
				return nil
			}
			return w.nodes[m.node].self
		}
		i := mod(p.I, n)
		sc := find(ch[i].c)
		if sc == nil {
			for k := range ch {
				if sc = find(ch[k].c); sc != nil {
					i = k
					break
				}
			}
		}
		if sc == nil {
			return "noop:oldself"
		}
		ins(i, elem{c: sc, der: sc.DER})
		return "oldself"
	case "twin":
		// the same key under a different subject name (a re-named CA): position i, else the first that has one
		find := func(c *pki.Cert) *pki.Cert {
			m := w.metas[c]
			if m == nil || m.node < 0 {
				return nil
			}
			for idx, nd := range w.nodes {
				if idx != m.node && nd.key == w.nodes[m.node].key {
					return nd.certs[0]
				}
			}
			return nil
		}
		i := mod(p.I, n)
		tw := find(ch[i].c)
		if tw == nil {
			for k := range ch {
				if tw = find(ch[k].c); tw != nil {
					i = k
					break
				}
			}
		}
		if tw == nil {
			return "noop:twin"
		}
		out := append([]elem{}, ch...)
		out[i] = elem{c: tw, der: tw.DER}
		w.chain = out
		return "twin"
	case "leafroot":
		r := w.nodes[mod(p.K, len(w.c.Roots))].certs[0]
		w.chain = []elem{{c: r, der: r.DER}}
		return "bare-root"
	}
	return "noop:" + p.Op
}
