package c02

import (
	"fmt"
	"os"
	"testing"
	"time"

	"github.com/google/certificate-transparency-go/trillian/ctfe/configpb"
	"pgregory.net/rapid"

	"verif/internal/ctfex"
	"verif/internal/harness"
	"verif/internal/keys"
	"verif/internal/pki"
	"verif/internal/reflog"
)

// The wall-clock sub-property: "expired" must be judged at the moment of submission, not at the
// moment the instance was set up. The front end reads the real clock, so this is the one place where
// the check sleeps: every item of a case gets its own Instance, all created at the same instant T; the
// leaves expire at trunc(T)+2 s; the submissions that are asserted happen after NotAfter + 1.2 s.
// A slow machine only makes the leaves more expired. The "before" submissions are asserted only when
// the clock, read AFTER the response, is still before NotAfter.

type ClockItem struct {
	Mode string // "expired" (reject_expired) | "unexpired" (reject_unexpired) | "none"
	H    Case   // hierarchy and leaf (made valid by normalisation; NotAfter is set at run time)
}

type ClockCase struct{ Items []ClockItem }

func normaliseForClock(c *Case) {
	for i := range c.Roots {
		c.Roots[i].Trusted = true
	}
	for i := range c.CAs {
		if c.CAs[i].Role == "nonca" {
			c.CAs[i].Role = "ca"
			c.CAs[i].V1 = false
		}
	}
	c.Perturbs = nil
	c.Opt = Opt{}
	c.Leaf.Node = false
	if c.Leaf.Poison != "ok" {
		c.Leaf.Poison = ""
	}
	c.PreChain = c.Leaf.Poison == "ok"
}

func genClock(t *rapid.T) ClockCase {
	var c ClockCase
	n := uni(t, "items", 3, 5)
	for i := 0; i < n; i++ {
		mode := []string{"expired", "unexpired", "none"}[i%3]
		if i >= 3 {
			mode = pickFrom(t, "mode", []string{"expired", "unexpired"})
		}
		h := genCase(t, true)
		normaliseForClock(&h)
		c.Items = append(c.Items, ClockItem{Mode: mode, H: h})
	}
	return c
}

func checkClock(t *testing.T, c ClockCase) (v harness.Verdict) {
	memoTrim()
	v.NonTrivial = true
	type live struct {
		it   ClockItem
		w    *world
		inst *ctfex.Instance
		be   *reflog.Log
		ok   bool // the chain is valid by the reference predicate (always, after normalisation)
	}
	start := time.Now()
	notAfter := start.Truncate(time.Second).Add(2 * time.Second)
	var ls []*live
	for i := range c.Items {
		it := c.Items[i]
		normaliseForClock(&it.H) // replayed cases too
		it.H.Leaf.NotAfter = notAfter.Unix() - pki.Epoch.Unix()
		w := build(&it.H)
		f, err := os.CreateTemp("", "c02-roots-*.pem")
		if err != nil {
			t.Fatalf("temp file: %v", err)
		}
		f.Write(pemBundle(w.trusted))
		f.Close()
		be := reflog.New(6962, 1)
		inst, err := ctfex.New(ctfex.Opts{LogKey: keys.Pick("p256", 0), Backend: be, Cfg: func(cfg *configpb.LogConfig) {
			cfg.RootsPemFile = []string{f.Name()}
			cfg.RejectExpired = it.Mode == "expired"
			cfg.RejectUnexpired = it.Mode == "unexpired"
		}})
		os.Remove(f.Name())
		if err != nil {
			t.Fatalf("instance: %v", err)
		}
		lm := w.metas[w.chain[0].c]
		if !lm.notAfter.Equal(notAfter) {
			t.Fatalf("harness: leaf NotAfter %v, wanted %v", lm.notAfter, notAfter)
		}
		ls = append(ls, &live{it: it, w: w, inst: inst, be: be, ok: chainReason(w.chain, w.trusted) == ""})
		v.Class("mode:" + it.Mode)
	}
	submit := func(l *live) int {
		ep := "/ct/v1/add-chain"
		if l.it.H.PreChain {
			ep = "/ct/v1/add-pre-chain"
		}
		return l.inst.Post(ep, body(l.w.ders())).Status
	}
	// control: the same chain on an instance without expiry filter. A refusal there is a chain problem,
	// not a clock problem; it gets the chain sig and the item is left out of the clock assertions.
	kept := ls[:0]
	for i, l := range ls {
		if l.it.Mode == "none" || !l.ok {
			kept = append(kept, l)
			continue
		}
		f, err := os.CreateTemp("", "c02-roots-*.pem")
		if err != nil {
			t.Fatalf("temp file: %v", err)
		}
		f.Write(pemBundle(l.w.trusted))
		f.Close()
		ctl, err := ctfex.New(ctfex.Opts{LogKey: keys.Pick("p256", 0), Backend: reflog.New(6962, 1), Cfg: func(cfg *configpb.LogConfig) { cfg.RootsPemFile = []string{f.Name()} }})
		os.Remove(f.Name())
		if err != nil {
			t.Fatalf("instance: %v", err)
		}
		ep := "/ct/v1/add-chain"
		if l.it.H.PreChain {
			ep = "/ct/v1/add-pre-chain"
		}
		if st := ctl.Post(ep, body(l.w.ders())).Status; st != 200 {
			v.Failf(l.w.refusedSig(ropt{c: &Opt{}}, false), "item %d: control instance without expiry filter answered %d; %s", i, st, l.w.describe())
			continue
		}
		kept = append(kept, l)
	}
	ls = kept
	// phase 1 (best effort): the leaf has not expired yet. Asserted only if the clock read after the
	// response is still before NotAfter, so a delay can only skip the assertion.
	for i, l := range ls {
		st := submit(l)
		if !time.Now().Before(notAfter) {
			v.Class("before:skipped-too-late")
			continue
		}
		v.Class("before:judged")
		want := l.ok && l.it.Mode != "unexpired"
		switch {
		case st == 200 && !want:
			v.Failf("admitted-unexpired-before-notafter", "item %d (%s): status 200 before NotAfter %s; %s", i, l.it.Mode, notAfter.UTC().Format(time.RFC3339), l.w.describe())
		case st != 200 && want:
			v.Failf("refused-unexpired-before-notafter", "item %d (%s): status %d before NotAfter %s; %s", i, l.it.Mode, st, notAfter.UTC().Format(time.RFC3339), l.w.describe())
		}
	}
	// phase 2: wait until the leaf has certainly expired
	for time.Now().Before(notAfter.Add(1200 * time.Millisecond)) {
		time.Sleep(50 * time.Millisecond)
	}
	for i, l := range ls {
		st := submit(l)
		want := l.ok && l.it.Mode != "expired"
		age := time.Since(start).Round(time.Millisecond)
		switch {
		case st == 200 && !want:
			v.Failf("clock-frozen-admitted-expired", "item %d: reject_expired instance set up %s ago admitted a leaf that expired at %s (at least 1.2 s ago): expiry is not judged at submission time; %s", i, age, notAfter.UTC().Format(time.RFC3339), l.w.describe())
		case st != 200 && want && l.it.Mode == "unexpired":
			v.Failf("clock-frozen-refused-expired-leaf", "item %d: reject_unexpired instance set up %s ago answered %d for a leaf that expired at %s (at least 1.2 s ago): expiry is not judged at submission time; %s", i, age, st, notAfter.UTC().Format(time.RFC3339), l.w.describe())
		case st != 200 && want:
			v.Failf(l.w.refusedSig(ropt{c: &Opt{}}, false), "item %d (no expiry filter): status %d; %s", i, st, l.w.describe())
		}
		v.Class(fmt.Sprintf("after:%s:%d", l.it.Mode, st))
	}
	return v
}
