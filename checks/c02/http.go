package c02

import (
	"bytes"
	"encoding/base64"
	"encoding/json"
	"fmt"
	"os"
	"testing"

	"github.com/google/certificate-transparency-go/trillian/ctfe"
	"github.com/google/certificate-transparency-go/trillian/ctfe/configpb"
	"github.com/google/trillian"
	"google.golang.org/protobuf/types/known/timestamppb"

	"verif/internal/ctfex"
	"verif/internal/harness"
	"verif/internal/keys"
	"verif/internal/reflog"
	"verif/internal/rfc6962"
)

func body(chain [][]byte) []byte {
	var req struct {
		Chain []string `json:"chain"`
	}
	for _, c := range chain {
		req.Chain = append(req.Chain, base64.StdEncoding.EncodeToString(c))
	}
	b, _ := json.Marshal(req)
	return b
}

func checkHTTP(t *testing.T, c Case) (v harness.Verdict) {
	w := build(&c)
	o := w.resolve(true)
	chainWhy := chainReason(w.chain, w.trusted)
	lm := w.metas[w.chain[0].c]
	filterWhy, kindWhy := "", ""
	if w.chain[0].intact() {
		filterWhy = filterReason(lm, o)
		switch {
		case lm.poison != "" && lm.poison != "ok":
			kindWhy = "malformed-poison"
		case lm.poison == "ok" && !c.PreChain:
			kindWhy = "precert-on-add-chain"
		case lm.poison == "" && c.PreChain:
			kindWhy = "cert-on-add-pre-chain"
		}
	}
	want := chainWhy == "" && filterWhy == "" && kindWhy == ""
	w.classes(&v, chainWhy, filterWhy)
	if kindWhy != "" {
		v.Class("kind:" + kindWhy)
	}
	if c.PreChain {
		v.Class("endpoint:add-pre-chain")
	} else {
		v.Class("endpoint:add-chain")
	}
	v.NonTrivial = len(w.applied) > 0 || c.Opt.Start != nil || c.Opt.Limit != nil || c.Opt.RejectExpired || c.Opt.RejectUnexpired || c.Opt.OnlyCA || len(c.Opt.EKUs) > 0 || len(c.Opt.RejectExts) > 0
	if want {
		v.Class("verdict:accept")
		nAccept["http"].Add(1)
	} else {
		v.Class("verdict:reject")
		nReject["http"].Add(1)
	}

	f, err := os.CreateTemp("", "c02-roots-*.pem")
	if err != nil {
		t.Fatalf("temp file: %v", err)
	}
	defer os.Remove(f.Name())
	f.Write(pemBundle(w.trusted))
	f.Close()
	be := reflog.New(6962, 1)
	inst, err := ctfex.New(ctfex.Opts{LogKey: keys.Pick("p256", 0), Backend: be, Cfg: func(cfg *configpb.LogConfig) {
		cfg.RootsPemFile = []string{f.Name()}
		cfg.RejectExpired = c.Opt.RejectExpired
		cfg.RejectUnexpired = c.Opt.RejectUnexpired
		if o.start != nil {
			cfg.NotAfterStart = timestamppb.New(*o.start)
		}
		if o.limit != nil {
			cfg.NotAfterLimit = timestamppb.New(*o.limit)
		}
		cfg.AcceptOnlyCa = c.Opt.OnlyCA
		cfg.ExtKeyUsages = c.Opt.EKUs
		cfg.RejectExtensions = c.Opt.RejectExts
	}})
	if err != nil {
		t.Fatalf("instance: %v (options %s)", err, optString(w, o))
	}
	ep := "/ct/v1/add-chain"
	if c.PreChain {
		ep = "/ct/v1/add-pre-chain"
	}
	rsp := inst.Post(ep, body(w.ders()))
	calls := be.CallsOf("QueueLeaf")
	got := rsp.Status == 200
	v.Class(fmt.Sprintf("status:%d", rsp.Status))

	switch {
	case got && !want:
		why := chainWhy
		if why == "" {
			why = filterWhy
		}
		if why == "" {
			why = kindWhy
		}
		v.Failf("admitted-"+why, "%s answered 200 for a chain the reference refuses (chain: %q, filter: %q, kind: %q); %s; options %s", ep, chainWhy, filterWhy, kindWhy, w.describe(), optString(w, o))
	case !got && want:
		sig := w.refusedSig(o, rsp.Status == 400 && bytes.Contains(rsp.Body, []byte(ctfe.ErrNoRFCCompliantPathFound.Error())))
		v.Failf(sig, "%s answered %d (%s) for a chain the reference admits; %s; options %s", ep, rsp.Status, bytes.TrimSpace(rsp.Body), w.describe(), optString(w, o))
	}
	if !want && len(calls) > 0 {
		v.Failf("refused-chain-reached-backend", "%s: a chain the reference refuses (chain: %q, filter: %q, kind: %q) was queued to the log backend (status %d); %s", ep, chainWhy, filterWhy, kindWhy, rsp.Status, w.describe())
	}
	if got {
		// the validated path that is handed on: leaf in the Merkle leaf (X.509 entries), rest in extra_data
		if len(calls) != 1 {
			v.Failf("queue-count", "%d QueueLeaf calls for one admitted submission", len(calls))
			return v
		}
		req := calls[0].Req.(*trillian.QueueLeafRequest)
		var path [][]byte
		if c.PreChain {
			pre, rest, tail, err := rfc6962.DecodePrecertChainEntry(req.Leaf.ExtraData)
			if err != nil || len(tail) != 0 {
				v.Failf("extra-data-undecodable", "extra_data is not a PrecertChainEntry: %v", err)
				return v
			}
			path = append([][]byte{pre}, rest...)
		} else {
			rest, tail, err := rfc6962.DecodeChain(req.Leaf.ExtraData)
			if err != nil || len(tail) != 0 {
				v.Failf("extra-data-undecodable", "extra_data is not a certificate chain: %v", err)
				return v
			}
			lf, tail, err := rfc6962.DecodeLeaf(req.Leaf.LeafValue)
			if err != nil || len(tail) != 0 || lf.Entry.Type != rfc6962.X509Entry {
				v.Failf("leaf-undecodable", "leaf value is not an X.509 MerkleTreeLeaf: %v", err)
				return v
			}
			path = append([][]byte{lf.Entry.Cert}, rest...)
		}
		w.judgePath(&v, path)
	}
	return v
}
