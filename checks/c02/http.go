package c02

import (
	"bytes"
	"encoding/base64"
	"encoding/json"
	"fmt"
	"os"
	"testing"
	"time"

	"github.com/google/certificate-transparency-go/trillian/ctfe"
	"github.com/google/certificate-transparency-go/trillian/ctfe/configpb"
	"github.com/google/trillian"
	"google.golang.org/protobuf/types/known/timestamppb"

	"verif/internal/ctfex"
	"verif/internal/harness"
	"verif/internal/keys"
	"verif/internal/pki"
	"verif/internal/reflog"
	"verif/internal/rfc6962"
)

func body(chain [][]byte) []byte {
	var req struct {
		Chain []string `json:"chain"`
	}
	for _, c := range chain {
		req.Chain = append(req.Chain, base64.StdEncoding.EncodeToString(c))
	}
	b, _ := json.Marshal(req)
	return b
}

// expectHTTP is the reference verdict for one submission at the HTTP level.
func expectHTTP(w *world, o ropt, preChain bool) (chainWhy, filterWhy, kindWhy string) {
	chainWhy = chainReason(w.chain, w.trusted)
	lm := w.metas[w.chain[0].c]
	if w.chain[0].intact() {
		filterWhy = filterReason(lm, o)
		switch {
		case lm.poison != "" && lm.poison != "ok":
			kindWhy = "malformed-poison"
		case lm.poison == "ok" && !preChain:
			kindWhy = "precert-on-add-chain"
		case lm.poison == "" && preChain:
			kindWhy = "cert-on-add-pre-chain"
		}
	}
	return
}

func checkHTTP(t *testing.T, c Case) (v harness.Verdict) {
	memoTrim()
	w := build(&c)
	o := w.resolve(true)
	chainWhy, filterWhy, kindWhy := expectHTTP(w, o, c.PreChain)
	want := chainWhy == "" && filterWhy == "" && kindWhy == ""
	w.classes(&v, chainWhy, filterWhy)
	if kindWhy != "" {
		v.Class("kind:" + kindWhy)
	}
	if c.PreChain {
		v.Class("endpoint:add-pre-chain")
	} else {
		v.Class("endpoint:add-chain")
	}
	v.NonTrivial = len(w.applied) > 0 || len(c.History) > 0 || c.Opt.Start != nil || c.Opt.Limit != nil || c.Opt.RejectExpired || c.Opt.RejectUnexpired || c.Opt.OnlyCA || len(c.Opt.EKUs) > 0 || len(c.Opt.RejectExts) > 0
	if want {
		v.Class("verdict:accept")
		nAccept["http"].Add(1)
	} else {
		v.Class("verdict:reject")
		nReject["http"].Add(1)
	}

	// roots files: real files that stay in place (same path, size, mtime) for the whole case
	var files []string
	defer func() {
		for _, f := range files {
			os.Remove(f)
		}
	}()
	writeRoots := func(certs []*pki.Cert) string {
		f, err := os.CreateTemp("", "c02-roots-*.pem")
		if err != nil {
			t.Fatalf("temp file: %v", err)
		}
		f.Write(pemBundle(certs))
		f.Close()
		files = append(files, f.Name())
		return f.Name()
	}
	var rootFiles []string
	if k := mod(c.RootSplit, len(w.trusted)); c.RootSplit > 0 && k > 0 {
		rootFiles = []string{writeRoots(w.trusted[:k]), writeRoots(w.trusted[k:])}
		v.Class("roots:two-files")
	} else {
		rootFiles = []string{writeRoots(w.trusted)}
	}
	// a neighbouring log in the same process: shares the judged log's first roots file and additionally
	// trusts everything the judged log does not
	neighbour := func() {
		var others []*pki.Cert
		for _, cert := range w.all {
			if m := w.metas[cert]; w.inPool(cert.DER) == nil && cert.IsCA && m != nil && m.poison == "" {
				others = append(others, cert)
			}
		}
		if len(others) == 0 {
			return
		}
		list := []string{rootFiles[0], writeRoots(others)}
		if !c.NeighbourFirst {
			list[0], list[1] = list[1], list[0]
		}
		if _, err := ctfex.New(ctfex.Opts{LogKey: keys.Pick("p256", 1), Backend: reflog.New(7000, 1), Prefix: "neighbour", LogID: 7000, Cfg: func(cfg *configpb.LogConfig) { cfg.RootsPemFile = list }}); err != nil {
			t.Fatalf("neighbour instance: %v", err)
		}
	}
	if c.Neighbour == 1 {
		neighbour()
		v.Class("neighbour:set-up-before")
	}
	be := reflog.New(6962, 1)
	clock := ctfex.NewClock(time.Unix(1800000000, 0))
	inst, err := ctfex.New(ctfex.Opts{LogKey: keys.Pick("p256", 0), Backend: be, Clock: clock, Cfg: func(cfg *configpb.LogConfig) {
		cfg.RootsPemFile = rootFiles
		cfg.RejectExpired = c.Opt.RejectExpired
		cfg.RejectUnexpired = c.Opt.RejectUnexpired
		if o.start != nil {
			cfg.NotAfterStart = timestamppb.New(*o.start)
		}
		if o.limit != nil {
			cfg.NotAfterLimit = timestamppb.New(*o.limit)
		}
		cfg.AcceptOnlyCa = c.Opt.OnlyCA
		cfg.ExtKeyUsages = c.Opt.EKUs
		cfg.RejectExtensions = c.Opt.RejectExts
	}})
	if err != nil {
		t.Fatalf("instance: %v (options %s)", err, optString(w, o))
	}
	if c.Neighbour == 2 {
		neighbour()
		v.Class("neighbour:set-up-after")
	}
	if c.Neighbour > 0 && (chainWhy == "untrusted" || chainWhy == "root-signature") {
		v.Class("neighbour:trusts-what-this-chain-needs")
	}

	// earlier submissions on the same instance: each is judged by the same reference, and none of them
	// may change the verdict of a later one
	badPaths, hadValid := 0, false
	for i, h := range c.History {
		hc := c
		hc.Perturbs = h.Perturbs
		hw := build(&hc)
		clock.Add(time.Duration(h.AdvanceSec) * time.Second)
		cw, fw, kw := expectHTTP(hw, hw.resolve(true), c.PreChain)
		if cw == "" && fw == "" && kw == "" {
			hadValid = true
		} else if cw != "" && bytes.Equal(hw.chain[0].der, w.chain[0].der) {
			badPaths++
		}
		submitAndJudge(&v, inst, be, hw, hw.resolve(true), c.PreChain, fmt.Sprintf("history step %d of %d: ", i+1, len(c.History)), false)
	}
	if len(c.History) > 0 {
		v.Class(fmt.Sprintf("history:%d-steps", len(c.History)))
		if badPaths >= 3 && want {
			v.Class("history:valid-chain-after->=3-bad-paths-of-the-same-leaf")
		}
		if hadValid && !want {
			v.Class("history:refusal-after-an-admission")
		}
	}
	clock.Add(time.Duration(c.AdvanceSec) * time.Second)
	submitAndJudge(&v, inst, be, w, o, c.PreChain, "", true)
	return v
}

// submitAndJudge posts w's chain and judges status, backend traffic and the path handed on.
func submitAndJudge(v *harness.Verdict, inst *ctfex.Instance, be *reflog.Log, w *world, o ropt, preChain bool, label string, main bool) {
	chainWhy, filterWhy, kindWhy := expectHTTP(w, o, preChain)
	want := chainWhy == "" && filterWhy == "" && kindWhy == ""
	ep := "/ct/v1/add-chain"
	if preChain {
		ep = "/ct/v1/add-pre-chain"
	}
	before := len(be.CallsOf("QueueLeaf"))
	rsp := inst.Post(ep, body(w.ders()))
	calls := be.CallsOf("QueueLeaf")[before:]
	got := rsp.Status == 200
	if main {
		v.Class(fmt.Sprintf("status:%d", rsp.Status))
	}
	suffix := ""
	if label != "" {
		suffix = "-in-history"
	} else if len(w.c.History) > 0 {
		suffix = "-after-history"
	}

	switch {
	case got && !want:
		why := chainWhy
		if why == "" {
			why = filterWhy
		}
		if why == "" {
			why = kindWhy
		}
		v.Failf("admitted-"+why+suffix, "%s%s answered 200 for a chain the reference refuses (chain: %q, filter: %q, kind: %q); %s; options %s", label, ep, chainWhy, filterWhy, kindWhy, w.describe(), optString(w, o))
	case !got && want:
		sig := w.refusedSig(o, rsp.Status == 400 && bytes.Contains(rsp.Body, []byte(ctfe.ErrNoRFCCompliantPathFound.Error())))
		if sig != "refused-trusted-leaf-with-issuer" {
			sig += suffix
		}
		v.Failf(sig, "%s%s answered %d (%s) for a chain the reference admits; %s; options %s", label, ep, rsp.Status, bytes.TrimSpace(rsp.Body), w.describe(), optString(w, o))
	}
	if !want && len(calls) > 0 {
		v.Failf("refused-chain-reached-backend", "%s%s: a chain the reference refuses (chain: %q, filter: %q, kind: %q) was queued to the log backend (status %d); %s", label, ep, chainWhy, filterWhy, kindWhy, rsp.Status, w.describe())
	}
	if got {
		// the validated path that is handed on: leaf in the Merkle leaf (X.509 entries), rest in extra_data
		if len(calls) != 1 {
			v.Failf("queue-count", "%s%d QueueLeaf calls for one admitted submission", label, len(calls))
			return
		}
		req := calls[0].Req.(*trillian.QueueLeafRequest)
		var path [][]byte
		if preChain {
			pre, rest, tail, err := rfc6962.DecodePrecertChainEntry(req.Leaf.ExtraData)
			if err != nil || len(tail) != 0 {
				v.Failf("extra-data-undecodable", "extra_data is not a PrecertChainEntry: %v", err)
				return
			}
			path = append([][]byte{pre}, rest...)
		} else {
			rest, tail, err := rfc6962.DecodeChain(req.Leaf.ExtraData)
			if err != nil || len(tail) != 0 {
				v.Failf("extra-data-undecodable", "extra_data is not a certificate chain: %v", err)
				return
			}
			lf, tail, err := rfc6962.DecodeLeaf(req.Leaf.LeafValue)
			if err != nil || len(tail) != 0 || lf.Entry.Type != rfc6962.X509Entry {
				v.Failf("leaf-undecodable", "leaf value is not an X.509 MerkleTreeLeaf: %v", err)
				return
			}
			path = append([][]byte{lf.Entry.Cert}, rest...)
		}
		w.judgePath(v, path)
	}
}
