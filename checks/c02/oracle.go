package c02

import (
	"bytes"
	"fmt"
	"strings"
	"time"

	"verif/internal/harness"
	"verif/internal/keys"
	"verif/internal/pki"
)

func sameKey(a, b *keys.Key) bool { return a == b || bytes.Equal(a.SPKI, b.SPKI) }

// chainReason is the LINEAR reference predicate over ground truth. "" means the chain leads, in the
// order given, to a trusted root; otherwise the first clause that fails is named.
func chainReason(ch []elem, trusted []*pki.Cert) string {
	n := len(ch)
	if n == 0 {
		return "empty"
	}
	for _, e := range ch {
		if e.misaligned {
			return "entry-not-a-certificate"
		}
		if !e.intact() {
			return "unparsable"
		}
	}
	for i := 0; i < n; i++ {
		for j := i + 1; j < n; j++ {
			if bytes.Equal(ch[i].der, ch[j].der) {
				return "duplicate"
			}
		}
	}
	for i := 0; i+1 < n; i++ {
		a, b := ch[i], ch[i+1]
		if !bytes.Equal(a.c.IssuerDER(), b.c.SubjectDER()) {
			return "name"
		}
		if !a.genuine() || !sameKey(a.c.SignerKey, b.c.Key) {
			return "signature"
		}
		if !b.c.IsCA {
			if b.c.Tmpl.Version == 1 {
				return "issuer-not-ca-v1"
			}
			return "issuer-not-ca"
		}
	}
	last := ch[n-1]
	for _, tc := range trusted {
		if bytes.Equal(tc.DER, last.der) {
			return ""
		}
	}
	named := false
	for _, tc := range trusted {
		if !bytes.Equal(last.c.IssuerDER(), tc.SubjectDER()) {
			continue
		}
		named = true
		if last.genuine() && sameKey(last.c.SignerKey, tc.Key) && tc.IsCA {
			return ""
		}
	}
	if named {
		return "root-signature"
	}
	return "untrusted"
}

// resolved admission options.
type ropt struct {
	start, limit *time.Time
	now          time.Time
	expired      func(notAfter time.Time) bool
	c            *Opt
}

// filterReason judges chain[0] against the configured filters, from ground truth.
func filterReason(m *meta, o ropt) string {
	t := m.notAfter
	if o.start != nil && t.Before(*o.start) {
		return "window-start"
	}
	if o.limit != nil && !t.Before(*o.limit) {
		return "window-limit"
	}
	if o.c.OnlyCA && !m.caBit {
		return "not-ca-leaf"
	}
	exp := o.expired(t)
	if o.c.RejectExpired && exp {
		return "expired"
	}
	if o.c.RejectUnexpired && !exp {
		return "unexpired"
	}
	for _, bad := range o.c.RejectExts {
		for _, have := range m.extOIDs {
			if bad == have {
				return "extension"
			}
		}
	}
	filter := o.c.EKUs
	for _, f := range filter {
		if f == "Any" { // the configuration treats "Any" as "no EKU filter"
			filter = nil
		}
	}
	if len(filter) > 0 {
		ok := false
		for _, f := range filter {
			for _, have := range m.ekus {
				if f == have {
					ok = true
				}
			}
		}
		if !ok {
			return "eku"
		}
	}
	return ""
}

func (w *world) resolve(http bool) ropt {
	o := ropt{c: &w.c.Opt}
	if w.c.Opt.Start != nil {
		t := w.t0.Add(time.Duration(*w.c.Opt.Start)*time.Second + time.Duration(w.c.Opt.StartNs))
		o.start = &t
	}
	if w.c.Opt.Limit != nil {
		t := w.t0.Add(time.Duration(*w.c.Opt.Limit)*time.Second + time.Duration(w.c.Opt.LimitNs))
		o.limit = &t
	}
	if http {
		// generated NotAfter values are >= 1 year before or >= 10 years after pki.Epoch (2024-06-01); the
		// machine's clock is assumed to lie in between (check.json assumptions).
		pivot := pki.Epoch
		o.expired = func(na time.Time) bool { return na.Before(pivot) }
	} else {
		o.now = w.t0.Add(time.Duration(w.c.Opt.Now))
		o.expired = func(na time.Time) bool { return o.now.After(na) }
	}
	return o
}

func (w *world) ders() [][]byte {
	var out [][]byte
	for _, e := range w.chain {
		out = append(out, e.der)
	}
	return out
}

func (w *world) inPool(der []byte) *pki.Cert {
	for _, tc := range w.trusted {
		if bytes.Equal(tc.DER, der) {
			return tc
		}
	}
	return nil
}

// describe renders the submitted chain for messages.
func (w *world) describe() string {
	var parts []string
	for _, e := range w.chain {
		s := e.c.Label
		if e.misaligned {
			s += fmt.Sprintf("(misaligned entry, %d bytes)", len(e.der))
		} else if !e.intact() {
			s += "(truncated)"
		} else if !bytes.Equal(e.der, e.c.DER) {
			s += "(sig-flipped)"
		}
		if w.inPool(e.der) != nil {
			s += "[trusted]"
		}
		parts = append(parts, s)
	}
	var tr []string
	for _, tc := range w.trusted {
		tr = append(tr, tc.Label)
	}
	return fmt.Sprintf("chain=[%s] trusted=[%s] perturbations=%v", strings.Join(parts, " <- "), strings.Join(tr, ","), w.applied)
}

// classes adds the histogram labels shared by both levels.
func (w *world) classes(v *harness.Verdict, chain, filter string) {
	for _, a := range w.applied {
		v.Class("perturb:" + a)
	}
	if len(w.applied) == 0 {
		v.Class("perturb:none")
	}
	if len(w.applied) == 2 {
		v.Class("perturb:two")
	}
	v.Class(fmt.Sprintf("len:%d", len(w.chain)))
	if chain != "" {
		v.Class("chain:" + chain)
	} else {
		v.Class("chain:ok")
	}
	if filter != "" {
		v.Class("filter:" + filter)
	}
	lm := w.metas[w.chain[0].c]
	switch {
	case lm.poison == "ok":
		v.Class("leaf:precert")
	case lm.poison != "":
		v.Class("leaf:bad-poison")
	case lm.caBit:
		v.Class("leaf:ca-cert")
	default:
		v.Class("leaf:cert")
	}
	if w.metas[w.chain[0].c].node < 0 && w.chain[0].c.Label == "leaf" {
		if w.c.Leaf.NBOff > 0 {
			v.Class("leaf:inverted-validity")
		}
		if k := w.c.Leaf.KUMode; (k == 1 || k == 2) && !w.c.Leaf.CA {
			v.Class("leaf:keyCertSign-without-ca")
		}
		if w.c.Leaf.Bulk > 0 {
			v.Class(fmt.Sprintf("leaf:bulk-%dk", w.c.Leaf.Bulk/1000))
		}
	}
	o := w.c.Opt
	if o.Start != nil {
		v.Class(fmt.Sprintf("opt:start%+d", clampOff(*o.Start)))
		if o.StartNs != 0 {
			v.Class("opt:start-subsecond")
		}
	}
	if o.Limit != nil {
		v.Class(fmt.Sprintf("opt:limit%+d", clampOff(*o.Limit)))
		if o.LimitNs != 0 {
			v.Class("opt:limit-subsecond")
		}
	}
	if o.RejectExpired {
		v.Class("opt:reject-expired")
	}
	if o.RejectUnexpired {
		v.Class("opt:reject-unexpired")
	}
	if o.OnlyCA {
		v.Class("opt:only-ca")
	}
	if len(o.EKUs) > 0 {
		v.Class("opt:eku")
	}
	if len(o.RejectExts) > 0 {
		v.Class("opt:reject-ext")
	}
	if chain == "" {
		used := map[string]bool{}
		for _, e := range w.chain {
			m := w.metas[e.c]
			if m.node >= 0 {
				nd := w.nodes[m.node]
				if len(nd.certs) > 1 {
					used[fmt.Sprintf("ok:cross-signed-variant%d", m.variant)] = true
				}
				if nd.role == "pre" {
					used["ok:via-pre-issuer"] = true
				}
				if nd.role != "root" && w.inPool(e.der) != nil {
					used["ok:trusted-intermediate-in-chain"] = true
				}
				if nd.role == "root" && !w.metas[e.c].caBit {
					used["ok:v1-root-in-chain"] = true
				}
			}
			if m.node >= 0 && m.variant < 0 && len(w.chain) > 1 {
				used["ok:old-self-signed-in-chain"] = true
			}
			used["ok:key:"+e.c.Key.Kind] = true
		}
		for i := range w.chain {
			for j := i + 1; j < len(w.chain); j++ {
				a, b := w.chain[i].c, w.chain[j].c
				if a.Tmpl.Serial.Cmp(b.Tmpl.Serial) == 0 && bytes.Equal(a.IssuerDER(), b.IssuerDER()) {
					used["ok:same-issuer-and-serial-twice"] = true
				} else if a.Tmpl.Serial.Cmp(b.Tmpl.Serial) == 0 {
					used["ok:same-serial-twice"] = true
				}
			}
			if i >= 1 && !w.chain[i].c.Tmpl.NotAfter.After(pki.Epoch) {
				used["ok:ignored:issuer-expired"] = true
			}
			if i >= 1 && w.chain[i].c.Tmpl.NotBefore.After(pki.Epoch.AddDate(25, 0, 0)) {
				used["ok:ignored:issuer-not-yet-valid"] = true
			}
		}
		for _, f := range w.ignoredFeatures() {
			used["ok:"+f] = true
		}
		if w.inPool(w.chain[len(w.chain)-1].der) != nil {
			used["ok:root-present"] = true
		} else {
			used["ok:root-absent"] = true
		}
		if len(w.chain) == 1 && w.inPool(w.chain[0].der) != nil {
			used["ok:leaf-is-trusted"] = true
		}
		for k := range used {
			v.Class(k)
		}
	}
}

func clampOff(s int64) int64 {
	switch {
	case s < -1:
		return -2
	case s > 1:
		return 2
	}
	return s
}

// ignoredFeatures lists, in a fixed order, what the submitted chain has that the log ignores on purpose
// or that only affects how the fork finds issuers: none of it is named by a clause of the statement, so
// none of it may change the verdict. From ground truth.
func (w *world) ignoredFeatures() []string {
	has := map[string]bool{}
	lm := w.metas[w.chain[0].c]
	// the path the log validates: the submission plus, when it does not end in the pool, the trusted issuer
	var ms []*meta
	for _, e := range w.chain {
		ms = append(ms, w.metas[e.c])
	}
	if last := w.chain[len(w.chain)-1]; w.inPool(last.der) == nil {
		for _, tc := range w.trusted {
			if w.issuedByTrusted(last, tc) && w.metas[tc] != nil {
				ms = append(ms, w.metas[tc])
				break
			}
		}
	}
	for i, m := range ms {
		if i >= 1 && m.pathLen >= 0 && i-1 > m.pathLen {
			has["ignored:pathlen-exceeded"] = true
		}
		if i >= 1 && m.nameCons && lm.node < 0 {
			has["ignored:name-constraint-violated"] = true
		}
		if i >= 1 && len(m.ekus) == 1 && m.ekus[0] != "CT" {
			nested := false
			for _, le := range lm.ekus {
				nested = nested || le == m.ekus[0]
			}
			if !nested {
				has["ignored:eku-not-nested"] = true
			}
		}
		if i >= 1 && m.crit {
			has["ignored:critical-unknown-ext-on-ca"] = true
		}
		if m.badAKI {
			has["aki-matches-nothing"] = true
		}
	}
	var out []string
	for _, f := range []string{"ignored:pathlen-exceeded", "ignored:name-constraint-violated", "ignored:eku-not-nested", "ignored:critical-unknown-ext-on-ca", "aki-matches-nothing"} {
		if has[f] {
			out = append(out, f)
		}
	}
	return out
}
