package c02

import (
	"pgregory.net/rapid"

	"verif/internal/harness"
)

var caKinds = []string{"p256", "p256", "p256", "p384", "rsa2048", "rsa2048", "ed25519", "p521", "p224", "rsa1024", "rsa3072"}
var leafKinds = []string{"p256", "p256", "p384", "rsa2048", "ed25519", "p521", "p224", "rsa1024"}

const year = int64(365 * 24 * 3600)

// pick draws a near-uniform index in [0,n). rapid's integer generators favour small values heavily,
// which is wrong for categorical choices and "rare" switches; hashing two drawn words removes the bias
// and still shrinks to 0 (same construction as checks/c04).
func pick(t *rapid.T, label string, n int) int {
	a := mix64(uint64(rapid.Uint32().Draw(t, label)))
	b := mix64(uint64(rapid.Uint32().Draw(t, label+"'")))
	return int((a ^ (b<<1 | b>>63)) % uint64(n))
}

func mix64(x uint64) uint64 {
	x *= 0x9E3779B97F4A7C15
	x ^= x >> 32
	x *= 0xD6E8FEB86659FD93
	x ^= x >> 32
	return x
}

func pickFrom[T any](t *rapid.T, label string, xs []T) T { return xs[pick(t, label, len(xs))] }

// uni draws near-uniformly from [lo, hi] (shrinks to lo).
func uni(t *rapid.T, label string, lo, hi int) int { return lo + pick(t, label, hi-lo+1) }

func uni64(t *rapid.T, label string, lo, hi int64) int64 {
	a := mix64(uint64(rapid.Uint32().Draw(t, label)))
	b := mix64(uint64(rapid.Uint32().Draw(t, label+"'")))
	return lo + int64((a^(b<<1|b>>63))%uint64(hi-lo+1))
}

// pct draws true with probability p/100 (shrinks to false).
func pct(t *rapid.T, label string, p int) bool { return pick(t, label, 100) >= 100-p }

func ptr(v int64) *int64 { return &v }

var poisonBad = []string{"noncrit", "int", "empty", "octet", "trail", "noncrit-int"}

var perturbOps = []string{"drop", "drop", "cut", "swap", "swap", "dup", "insert", "insert", "approot", "approot", "flip", "flip", "resign", "trunc", "sibling", "sibling", "sibling", "twin", "twin", "oldself", "oldself", "oldself", "merge", "shift", "emptyentry", "trail", "dropinter", "swapinters", "leafalone", "leafroot"}

func genCase(t *rapid.T, http bool) Case {
	var c Case
	c.SKIMode = uni(t, "skimode", 0, 2)
	if c.SKIMode == 2 {
		c.SKIMask = rapid.Uint32().Draw(t, "skimask")
	}
	maxCAs := 6
	if harness.Thorough() {
		maxCAs = 8
		if pct(t, "deep", 30) {
			c.MaxDepth = 5
		}
	}
	nr := uni(t, "roots", 1, 4)
	for i := 0; i < nr; i++ {
		r := RootSpec{Kind: pickFrom(t, "rkind", caKinds), Trusted: i == 0 || pct(t, "rtrusted", 80)}
		r.V1 = pct(t, "rv1", 10)
		r.NoKU = pct(t, "rnoku", 25)
		r.UTF8 = pct(t, "rutf8", 25)
		if pct(t, "rserial", 30) {
			r.Serial = 1 + uni(t, "rserialv", 0, 1)
		}
		if pct(t, "rpathlen", 20) {
			r.PathLen = 1 + uni(t, "rpathlenv", 0, 1)
		}
		if pct(t, "rnamecons", 10) {
			r.NameCons = 1 + uni(t, "rnameconsv", 0, 1)
		}
		if i > 0 && pct(t, "rtwin", 12) {
			r.Twin = 1 + uni(t, "rtwinof", 0, 3)
		}
		c.Roots = append(c.Roots, r)
	}
	nc := uni(t, "cas", 0, maxCAs)
	for j := 0; j < nc; j++ {
		s := CASpec{Parent: uni(t, "cparent", 0, 15), Cross: -1, Kind: pickFrom(t, "ckind", caKinds), Role: "ca"}
		switch r := uni(t, "crole", 0, 99); {
		case r >= 86:
			s.Role = "pre"
		case r >= 80:
			s.Role = "nonca"
			s.V1 = pct(t, "cv1", 35)
			s.NoBC = pct(t, "cnobc", 50)
		}
		if pct(t, "ccross", 35) {
			s.Cross = uni(t, "ccrossp", 0, 15)
			s.TrustedX = pct(t, "ctrustedx", 10)
		}
		s.AKI = rapid.Bool().Draw(t, "caki")
		s.NoKU = pct(t, "cnoku", 30)
		s.SigAlg = uni(t, "calg", 0, 2)
		s.UTF8 = pct(t, "cutf8", 25)
		s.BadAKI = s.AKI && pct(t, "cbadaki", 25)
		if pct(t, "cpathlen", 30) {
			s.PathLen = 1 + uni(t, "cpathlenv", 0, 1)
		}
		if pct(t, "cnamecons", 12) {
			s.NameCons = 1 + uni(t, "cnameconsv", 0, 1)
		}
		if s.Role == "ca" && pct(t, "ceku", 15) {
			s.EKU = pickFrom(t, "cekuv", []string{"ClientAuth", "CodeSigning", "ServerAuth", "OCSPSigning"})
		}
		s.CritUnknown = pct(t, "ccrit", 10)
		if pct(t, "cserial", 30) {
			s.Serial = 1 + uni(t, "cserialv", 0, 1)
		}
		if pct(t, "cvalidity", 15) {
			s.Validity = 1 + uni(t, "cvalidityv", 0, 1)
		}
		if s.Role != "nonca" && pct(t, "coldself", 35) {
			s.OldSelf = true
			s.OldSelfTrusted = s.Role != "pre" && pct(t, "coldselftrusted", 10)
		}
		if pct(t, "ctwin", 15) {
			s.Twin = 1 + uni(t, "ctwinof", 0, 11)
		}
		s.Trusted = s.Role != "pre" && pct(t, "ctrusted", 10)
		if s.Role == "nonca" && !s.V1 {
			s.NoKU = pct(t, "ncanoku", 50)
			s.Trusted = pct(t, "ncatrusted", 40) // a trusted end-entity certificate that signs: not a usable root
		}
		if s.Role == "pre" {
			s.TrustedX = false // a trusted pre-issuer has no issuer in the validated path: outside the domain
		}
		c.CAs = append(c.CAs, s)
	}

	// leaf
	l := &c.Leaf
	// prefer deep issuers: index drawn over all nodes, biased to the later (deeper) ones
	if pct(t, "lissdeep", 60) {
		l.Issuer = nr + nc - 1 - uni(t, "lissback", 0, 2)
		if l.Issuer < 0 {
			l.Issuer = 0
		}
	} else {
		l.Issuer = uni(t, "lissuer", 0, nr+nc-1)
	}
	l.Node = pct(t, "lnode", 12)
	l.Kind = pickFrom(t, "lkind", leafKinds)
	l.CA = pct(t, "lca", 10)
	if pct(t, "lkumode", 30) {
		l.KUMode = 1 + uni(t, "lkumodev", 0, 4)
	}
	switch r := uni(t, "lpoison", 0, 99); {
	case r >= 65:
		l.Poison = "ok"
	case r >= 55:
		l.Poison = pickFrom(t, "lpoisonbad", poisonBad)
	}
	l.PoisonPos = uni(t, "lpoisonpos", 0, 8)
	l.ExtRot = uni(t, "lextrot", 0, 7)
	l.HasEKU = pct(t, "lhaseku", 85)
	if l.HasEKU {
		n := uni(t, "lnekus", 1, 3)
		seen := map[string]bool{}
		for i := 0; i < n; i++ {
			var e string
			if i == 0 && pct(t, "lekuserver", 50) {
				e = "ServerAuth"
			} else {
				e = pickFrom(t, "leku", leafEKUNames)
			}
			if !seen[e] {
				seen[e] = true
				l.EKUs = append(l.EKUs, e)
			}
		}
	}
	nx := uni(t, "lnexts", 0, 2)
	for i := 0; i < nx; i++ {
		l.Exts = append(l.Exts, uni(t, "lext", 0, len(extraOIDs)-1))
	}
	if !http {
		l.NotAfter = uni64(t, "lnotafter", -2*year, 30*year)
	}
	if pct(t, "lserial", 30) {
		l.Serial = 1 + uni(t, "lserialv", 0, 1)
	}
	l.AKI = rapid.Bool().Draw(t, "laki")
	l.BadAKI = l.AKI && pct(t, "lbadaki", 25)
	l.SigAlg = uni(t, "lalg", 0, 2)

	c.Variants = uint32(uni(t, "variants", 0, 31))
	c.IncludeRoot = rapid.Bool().Draw(t, "incroot")

	// perturbations
	np := 0
	switch r := uni(t, "nperturb", 0, 99); {
	case r < 45:
	case r < 90:
		np = 1
	default:
		np = 2
	}
	for i := 0; i < np; i++ {
		c.Perturbs = append(c.Perturbs, Perturb{Op: pickFrom(t, "op", perturbOps), I: uni(t, "pi", 0, 6), J: uni(t, "pj", 0, 70), K: uni(t, "pk", 0, 40)})
	}

	// admission options
	o := &c.Opt
	startOffs := []int64{-year, -1, 0, 0, -1, 1, -year, year}
	limitOffs := []int64{year, 1, 1, 0, -1, year, 1, -year}
	switch r := uni(t, "window", 0, 99); {
	case r < 60:
	case r < 72:
		o.Start = ptr(pickFrom(t, "start", startOffs))
	case r < 85:
		o.Limit = ptr(pickFrom(t, "limit", limitOffs))
	default:
		o.Start, o.Limit = ptr(pickFrom(t, "start", startOffs)), ptr(pickFrom(t, "limit", limitOffs))
	}
	// bounds with sub-second parts (the configuration takes Timestamps with nanos)
	subs := []int64{5e8, -5e8, 1, -1, 999999999, -999999999}
	if o.Start != nil && pct(t, "startns", 35) {
		o.StartNs = pickFrom(t, "startnsv", subs)
	}
	if o.Limit != nil && pct(t, "limitns", 35) {
		o.LimitNs = pickFrom(t, "limitnsv", subs)
	}
	if o.Start != nil && o.Limit != nil {
		ws, wl := *o.Start*1e9+o.StartNs, *o.Limit*1e9+o.LimitNs
		if ws == wl { // start == limit is outside the domain
			*o.Limit++
			wl += 1e9
		}
		if http && wl < ws { // the configuration validator refuses limit < start
			o.Start, o.Limit = o.Limit, o.Start
			o.StartNs, o.LimitNs = o.LimitNs, o.StartNs
		}
	}
	switch r := uni(t, "expiry", 0, 99); {
	case r < 68:
	case r < 83:
		o.RejectExpired = true
	case r < 98:
		o.RejectUnexpired = true
	default:
		if !http { // refused by the configuration validator
			o.RejectExpired, o.RejectUnexpired = true, true
		}
	}
	if http {
		// the front end compares with the wall clock: stay years away from it (assumption in check.json)
		p := 30
		if o.RejectUnexpired {
			p = 70
		}
		if pct(t, "lexpired", p) {
			l.NotAfter = uni64(t, "lnotafter", -3*year, -1*year)
		} else {
			l.NotAfter = uni64(t, "lnotafter", 10*year, 30*year)
		}
	}
	// NotBefore is independent of NotAfter (the filters are about NotAfter only): incl. inverted periods
	// with NotBefore after NotAfter and after "now"
	if pct(t, "lnboff", 25) {
		l.NBOff = pickFrom(t, "lnboffv", []int64{-year, -1, 1, year, 40 * year, 2, 3600})
	}
	if http && pct(t, "lbulk", 3) {
		// request bodies of about 60 KiB .. 1 MiB (base64 of the DER)
		l.Bulk = pickFrom(t, "lbulkv", []int{45000, 50000, 100000, 300000, 750000})
	}
	if !http {
		o.Now = pickFrom(t, "now", []int64{-year * 1e9, -1e9, -1, 0, 1, 1e9, year * 1e9})
	}
	o.OnlyCA = pct(t, "onlyca", 10)
	if pct(t, "ekufilter", 25) {
		n := uni(t, "nfeku", 1, 3)
		seen := map[string]bool{}
		for i := 0; i < n; i++ {
			var e string
			if i == 0 && pct(t, "fekuserver", 50) {
				e = "ServerAuth"
			} else {
				e = pickFrom(t, "feku", filterEKUNames)
			}
			if !seen[e] {
				seen[e] = true
				o.EKUs = append(o.EKUs, e)
			}
		}
		if http && pct(t, "fekuany", 8) {
			o.EKUs = append(o.EKUs, "Any")
		}
	}
	if http {
		if pct(t, "rejext", 20) {
			n := uni(t, "nrejext", 1, 3)
			for i := 0; i < n; i++ {
				o.RejectExts = append(o.RejectExts, pickFrom(t, "rejoid", rejectOIDChoices))
			}
		}
		wantPre := l.Poison == "ok" && !l.Node
		if pct(t, "wrongendpoint", 8) {
			wantPre = !wantPre
		}
		c.PreChain = wantPre
		// histories on one instance: admission must not depend on what was submitted before
		advs := []int{0, 0, 1, 60, 119, 120, 121, 600}
		hp := func(ops []string) Perturb {
			return Perturb{Op: pickFrom(t, "hop", ops), I: uni(t, "hpi", 0, 6), J: uni(t, "hpj", 0, 70), K: uni(t, "hpk", 0, 40)}
		}
		switch r := uni(t, "history", 0, 99); {
		case r < 70:
		case r < 85: // a few arbitrary earlier submissions (valid ones included)
			for i, n := 0, uni(t, "hlen", 1, 3); i < n; i++ {
				var h HistStep
				if pct(t, "hperturbed", 60) {
					h.Perturbs = []Perturb{hp(perturbOps)}
				}
				h.AdvanceSec = pickFrom(t, "hadv", advs)
				c.History = append(c.History, h)
			}
		default: // the same leaf keeps arriving with a broken path, then (often) with the right one
			for i, n := 0, uni(t, "hlen", 3, 5); i < n; i++ {
				c.History = append(c.History, HistStep{Perturbs: []Perturb{hp([]string{"dropinter", "swapinters", "leafalone", "dropinter", "cut", "insert"})}, AdvanceSec: pickFrom(t, "hadv", advs)})
			}
			if pct(t, "hthenvalid", 70) {
				c.Perturbs = nil
			}
		}
		c.AdvanceSec = pickFrom(t, "adv", advs)
		if pct(t, "rootsplit", 40) {
			c.RootSplit = uni(t, "rootsplitv", 1, 4)
		}
		if pct(t, "neighbour", 35) {
			c.Neighbour = uni(t, "neighbourv", 1, 2)
			c.NeighbourFirst = pct(t, "neighbourfirst", 70)
		}
	}
	return c
}

func genDirect(t *rapid.T) Case { return genCase(t, false) }
func genHTTP(t *rapid.T) Case   { return genCase(t, true) }
