package c20

import (
	"context"
	"fmt"
	"net/http"
	"sync"
	"testing"
	"time"

	"github.com/google/certificate-transparency-go/client"
	"github.com/google/certificate-transparency-go/jsonclient"
	"github.com/google/certificate-transparency-go/trillian/migrillian/configpb"
	"github.com/google/certificate-transparency-go/trillian/migrillian/core"
	"github.com/google/trillian"
	"github.com/google/trillian/crypto/keyspb"
	"github.com/google/trillian/monitoring"
	"github.com/google/trillian/util/election2"

	"verif/internal/mtree"
	"verif/internal/reflog"
	"verif/internal/vt"
)

type passResult struct {
	RootAtStart int // destination root size when the pass began (after the sequencer ran)
	Returned    bool
	ErrNil      bool
	Err         string
	Cancelled   bool // the harness cancelled the pass before it returned
	Reason      string
	Begin, End  time.Duration
}

type outcome struct {
	timedOut bool
	setupErr string
	passes   []passResult
	evs      []ev
	adds     []reflog.Call // every AddSequencedLeaves request the destination received, in order
	dst      *dest
	stormed   bool
	stormKind string
}

type nopLogger struct{}

func (nopLogger) Printf(string, ...interface{}) {}

func migrationConfig(c *Case, spki []byte) *configpb.MigrationConfig {
	return &configpb.MigrationConfig{
		SourceUri:          srcURI,
		PublicKey:          &keyspb.PublicKey{Der: spki},
		LogId:              treeID,
		BatchSize:          int32(c.Batch),
		IsContinuous:       c.Continuous,
		StartIndex:         c.Start,
		EndIndex:           c.End,
		NumFetchers:        int32(c.Fetchers),
		NumSubmitters:      int32(c.Submitters),
		ChannelSize:        int32(c.ChanSize),
		IdentityFunction:   configpb.IdentityFunction(c.IDFunc),
		NoConsistencyCheck: c.NoCheck,
	}
}

// runCase executes all passes of the case inside one synctest bubble.
func runCase(t *testing.T, c *Case, tr []truth, full *mtree.Tree) *outcome {
	o := &outcome{}
	rec := &recorder{}
	res := vt.Run(t, 96*time.Hour, func(ctx context.Context) {
		rec.start = time.Now()
		ctx, abortAll := context.WithCancel(ctx)
		defer abortAll()
		var omu sync.Mutex
		abort := func(reason string) {
			omu.Lock()
			o.stormed, o.stormKind = true, reason
			omu.Unlock()
			rec.add(ev{Kind: "cancel", CancelReason: reason})
			abortAll()
		}
		src := newSource(c, tr, rec, abort)
		d := newDest(c, tr, full, rec)
		d.abort = abort
		o.dst = d
		for p := 0; p < c.Passes && ctx.Err() == nil; p++ {
			rec.setPass(p)
			pr := passResult{RootAtStart: d.integrate(), Begin: time.Since(rec.start)}
			pctx, cancel := context.WithCancel(ctx)
			var pmu sync.Mutex
			returned := false
			cancelPass := func(reason string) {
				pmu.Lock()
				if !returned && !pr.Cancelled {
					pr.Cancelled, pr.Reason = true, reason
					rec.add(ev{Kind: "cancel", CancelReason: reason})
				}
				pmu.Unlock()
				cancel()
			}
			d.beginPass(p, cancelPass)

			cfg := migrationConfig(c, src.key.SPKI)
			if err := core.ValidateMigrationConfig(cfg); err != nil {
				o.setupErr = fmt.Sprintf("ValidateMigrationConfig refused a valid configuration: %v", err)
				cancel()
				return
			}
			hc := &http.Client{Transport: src, Timeout: 10 * time.Second}
			lc, err := client.New(cfg.SourceUri, hc, jsonclient.Options{PublicKeyDER: cfg.PublicKey.Der, UserAgent: "ct-go-migrillian/1.0", Logger: nopLogger{}})
			if err != nil {
				o.setupErr = fmt.Sprintf("client.New: %v", err)
				cancel()
				return
			}
			tree := &trillian.Tree{TreeId: cfg.LogId, TreeType: trillian.TreeType_PREORDERED_LOG}
			plc, err := core.NewPreorderedLogClient(d, tree, cfg.IdentityFunction, "c20")
			if err != nil {
				o.setupErr = fmt.Sprintf("NewPreorderedLogClient: %v", err)
				cancel()
				return
			}
			opts := core.OptionsFromConfig(cfg)
			opts.StartDelay = time.Duration(c.StartDelayMs) * time.Millisecond
			opts.StopAfter = time.Duration(c.StopAfterS) * time.Second
			var ef election2.Factory = election2.NoopFactory{}
			if len(c.Elect) > 0 {
				ef = &scriptedFactory{c: c, rec: rec, start: time.Now()}
			}
			ctrl := core.NewController(opts, lc, plc, ef, monitoring.InertMetricFactory{})
			var timer *time.Timer
			if ms := c.CancelAtMs[p]; ms > 0 {
				timer = time.AfterFunc(time.Duration(ms)*time.Millisecond, func() { cancelPass("at-instant") })
			}
			err = ctrl.RunWhenMaster(pctx)
			pmu.Lock()
			returned = true
			pmu.Unlock()
			if timer != nil {
				timer.Stop()
			}
			pr.Returned, pr.ErrNil, pr.End = true, err == nil, time.Since(rec.start)
			if err != nil {
				pr.Err = err.Error()
			}
			cancel()
			hc.CloseIdleConnections()
			o.passes = append(o.passes, pr)
			vt.Sleep(ctx, time.Minute) // the process stays down for a while
		}
		d.integrate()
	})
	o.timedOut = res.TimedOut
	rec.mu.Lock()
	o.evs = rec.evs
	rec.mu.Unlock()
	if o.dst != nil {
		o.adds = o.dst.Log.CallsOf("AddSequencedLeaves")
	}
	return o
}
