package c20

import (
	"context"
	"crypto/sha256"
	"encoding/binary"
	"fmt"
	"strings"
	"sync"
	"time"

	"github.com/google/trillian"
	"github.com/google/trillian/types"
	"github.com/google/trillian/util/election2"
	statuspb "google.golang.org/genproto/googleapis/rpc/status"
	"google.golang.org/grpc"
	"google.golang.org/grpc/codes"
	"google.golang.org/grpc/status"
	"google.golang.org/protobuf/proto"

	"verif/internal/mtree"
	"verif/internal/reflog"
	"verif/internal/vt"
)

const treeID = 2020



// dest is the destination: the reference backend in PREORDERED_LOG mode. Faults are injected through
// reflog.Intercept (per batch-start counters from the Case); the sequencer (IntegrateSparse) runs
// between passes and, by the Case's mask, just before a GetLatestSignedLogRoot call.
type dest struct {
	*reflog.Log
	c    *Case
	rec  *recorder
	full *mtree.Tree // the complete source history (oracle knowledge)
	pre  []preLeaf   // what the destination held before the first pass

	mu       sync.Mutex
	rootReqs int
	perStart map[int64]int
	seen     map[int64]bool // indices that have reached the backend
	outage   map[int64]int  // long quota outage: replies left per batch start
	passAdds int
	pass     int
	cancel   func(reason string)
	abort    func(reason string) // cancels the whole run
	seq      uint64
}

type preLeaf struct{ Leaf, Extra []byte }

func leafDigest(l *trillian.LogLeaf) [32]byte {
	h := sha256.New()
	var b [8]byte
	w := func(p []byte) {
		binary.BigEndian.PutUint64(b[:], uint64(len(p)))
		h.Write(b[:])
		h.Write(p)
	}
	binary.BigEndian.PutUint64(b[:], uint64(l.LeafIndex))
	h.Write(b[:])
	w(l.LeafValue)
	w(l.ExtraData)
	w(l.LeafIdentityHash)
	var out [32]byte
	h.Sum(out[:0])
	return out
}

func reqDigest(r *trillian.AddSequencedLeavesRequest) [32]byte {
	h := sha256.New()
	for _, l := range r.Leaves {
		if l == nil {
			h.Write([]byte("nil"))
			continue
		}
		d := leafDigest(l)
		h.Write(d[:])
	}
	var out [32]byte
	h.Sum(out[:0])
	return out
}

func newDest(c *Case, tr []truth, full *mtree.Tree, rec *recorder) *dest {
	d := &dest{Log: reflog.New(treeID, 1), c: c, rec: rec, full: full, perStart: map[int64]int{}, seen: map[int64]bool{}, outage: map[int64]int{}}
	d.Log.Preorder = true
	for i := 0; i < c.DstLen; i++ {
		var pl preLeaf
		switch {
		case i < len(tr) && !(c.DstKind == dstFork && i == c.ForkAt):
			pl = preLeaf{tr[i].Leaf, tr[i].Extra}
		case i < len(tr):
			// the fork: same position, another entry (another member of the pool under a foreign timestamp)
			other := buildSource(1, c.Seed+i+1+len(tr), 0, false)[0]
			pl = preLeaf{append([]byte{}, other.Leaf...), other.Extra}
			pl.Leaf[9] ^= 0x55 // its timestamp differs from anything the source holds
		default:
			// beyond the end of the source (fork that is longer than the source)
			o := buildSource(1, c.Seed+7*i+3, 0, false)[0]
			pl = preLeaf{append([]byte{}, o.Leaf...), o.Extra}
			pl.Leaf[8] ^= 0x33
		}
		d.pre = append(d.pre, pl)
		d.Log.AppendRaw(pl.Leaf, pl.Extra)
	}
	d.Log.Publish(2)
	d.seq = 2
	d.Log.Intercept = d.intercept
	if c.SQLStatuses {
		// trillian v1.7.1 storage/mysql/log_storage.go AddSequencedLeaves never says AlreadyExists: a leaf whose
		// identity hash or index is taken is reported as FailedPrecondition, whether or not it is the same leaf.
		d.Log.Mutate = func(call reflog.Call, rsp proto.Message) proto.Message {
			r, ok := rsp.(*trillian.AddSequencedLeavesResponse)
			if !ok || call.RPC != "AddSequencedLeaves" {
				return rsp
			}
			for _, q := range r.Results {
				if q.GetStatus().GetCode() == int32(codes.AlreadyExists) {
					msg := "conflicting LeafIndex"
					if strings.Contains(q.Status.Message, "identity") {
						msg = "conflicting LeafIdentityHash"
					}
					q.Status = &statuspb.Status{Code: int32(codes.FailedPrecondition), Message: msg}
				}
			}
			return r
		}
	}
	return d
}

func (d *dest) beginPass(p int, cancel func(string)) {
	d.mu.Lock()
	d.pass, d.passAdds, d.cancel = p, 0, cancel
	d.mu.Unlock()
}

func (d *dest) integrate() int {
	d.mu.Lock()
	d.seq++
	n := d.seq
	d.mu.Unlock()
	before := d.Log.Size()
	size := d.Log.IntegrateSparse(n)
	if size > before {
		d.rec.progress()
	}
	d.rec.add(ev{Kind: "integrate", Size: size})
	return size
}

// intercept runs under the reference backend's lock, before the backend looks at the request.
func (d *dest) intercept(c reflog.Call) (proto.Message, error, bool) {
	if c.RPC != "AddSequencedLeaves" {
		return nil, nil, false
	}
	req := c.Req.(*trillian.AddSequencedLeavesRequest)
	first := int64(-1)
	if len(req.Leaves) > 0 && req.Leaves[0] != nil {
		first = req.Leaves[0].LeafIndex
	}
	if first < 0 {
		// a request without leaves (the Fetcher passes an empty get-entries page on): no fault plan applies,
		// the backend refuses it like Trillian does (InvalidArgument)
		d.rec.add(ev{Kind: "add", First: first, Served: 0, Digest: reqDigest(req), CallIdx: c.N})
		return nil, nil, false
	}
	d.mu.Lock()
	if _, known := d.outage[first]; !known && len(d.outage) < d.c.LongQuotaStarts {
		d.outage[first] = d.c.LongQuota
	}
	if d.outage[first] > 0 {
		d.outage[first]--
		d.passAdds++
		d.mu.Unlock()
		e := ev{Kind: "add", First: first, Served: len(req.Leaves), Digest: reqDigest(req), CallIdx: c.N, Status: int(codes.ResourceExhausted)}
		d.rec.add(e)
		return nil, status.Error(codes.ResourceExhausted, "quota exceeded: write tokens (long outage)"), true
	}
	k := d.perStart[first]
	d.perStart[first] = k + 1
	d.passAdds++
	nth, pass, cancel := d.passAdds, d.pass, d.cancel
	d.mu.Unlock()
	e := ev{Kind: "add", First: first, Served: len(req.Leaves), Digest: reqDigest(req), CallIdx: c.N}
	if at := d.c.CancelAtAdd[pass]; at > 0 && nth == at {
		cancel("at-add")
		e.Status, e.CancelReason = int(codes.Canceled), "at-add"
		d.rec.add(e)
		return nil, status.Error(codes.Canceled, "context canceled"), true
	}
	p := d.c.DstPlans[int(uint64(first)%uint64(len(d.c.DstPlans)))]
	switch {
	case k < p.Quota:
		e.Status = int(codes.ResourceExhausted)
		d.rec.add(e)
		return nil, status.Error(codes.ResourceExhausted, "quota exceeded: write tokens"), true
	case k < p.Quota+p.FatalN:
		e.Status = p.Fatal
		d.rec.add(e)
		if p.Fatal == fatalWrappedCancel {
			return nil, fmt.Errorf("proxy: upstream call dropped: %w", context.Canceled), true
		}
		return nil, status.Error(codes.Code(p.Fatal), "scripted backend failure"), true
	}
	d.mu.Lock()
	fresh := false
	for _, l := range req.Leaves {
		if l != nil && !d.seen[l.LeafIndex] {
			d.seen[l.LeafIndex], fresh = true, true
		}
	}
	d.mu.Unlock()
	if fresh {
		d.rec.progress()
	}
	d.rec.add(e)
	return nil, nil, false
}

func (d *dest) AddSequencedLeaves(ctx context.Context, in *trillian.AddSequencedLeavesRequest, opts ...grpc.CallOption) (*trillian.AddSequencedLeavesResponse, error) {
	if len(in.Leaves) > 0 && in.Leaves[0] != nil && d.c.DstLatMs > 0 {
		lat := time.Duration(uint64(in.Leaves[0].LeafIndex)%3) * time.Duration(d.c.DstLatMs) * time.Millisecond
		if !vt.Sleep(ctx, lat) {
			return nil, status.FromContextError(ctx.Err()).Err()
		}
	}
	return d.Log.AddSequencedLeaves(ctx, in, opts...)
}

func (d *dest) GetLatestSignedLogRoot(ctx context.Context, in *trillian.GetLatestSignedLogRootRequest, opts ...grpc.CallOption) (*trillian.GetLatestSignedLogRootResponse, error) {
	d.mu.Lock()
	n := d.rootReqs
	d.rootReqs++
	d.mu.Unlock()
	// every fetchTail begins here
	if over, first, dead := d.rec.idle(true); over {
		if first {
			d.abort("restart-storm")
		}
		if dead {
			panic("c20: restart storm does not end after cancellation")
		}
	}
	if d.c.IntegrateMask>>(uint(n)%16)&1 == 1 {
		d.integrate()
	}
	rsp, err := d.Log.GetLatestSignedLogRoot(ctx, in, opts...)
	if err == nil {
		var r types.LogRootV1
		if e := r.UnmarshalBinary(rsp.SignedLogRoot.LogRoot); e != nil {
			panic(e)
		}
		ok := false
		if int(r.TreeSize) <= d.full.Size() {
			want := d.full.Root(int(r.TreeSize))
			ok = string(want[:]) == string(r.RootHash)
		}
		d.rec.add(ev{Kind: "root", Size: int(r.TreeSize), RootOK: ok})
	}
	return rsp, err
}

// ---- scripted master election

type scriptedFactory struct {
	c     *Case
	rec   *recorder
	start time.Time // the pass began
}

func (f *scriptedFactory) NewElection(ctx context.Context, resourceID string) (election2.Election, error) {
	return &scriptedElection{f: f}, nil
}

type scriptedElection struct {
	f       *scriptedFactory
	mu      sync.Mutex
	cancels []context.CancelFunc
	timers  []*time.Timer
}

// state reports whether the instance is master now (and until when), or how long until the next grant.
func (e *scriptedElection) state() (master bool, remaining time.Duration, wait time.Duration) {
	now := time.Since(e.f.start)
	for _, g := range e.f.c.Elect {
		at := time.Duration(g.AtMs) * time.Millisecond
		if now < at {
			return false, 0, at - now
		}
		if g.HoldMs < 0 {
			return true, -1, 0
		}
		if end := at + time.Duration(g.HoldMs)*time.Millisecond; now < end {
			return true, end - now, 0
		}
	}
	return true, -1, 0 // unreachable for normalised cases: the last grant is never revoked
}

func (e *scriptedElection) Await(ctx context.Context) error {
	for {
		master, _, wait := e.state()
		if master {
			e.f.rec.add(ev{Kind: "grant"})
			return nil
		}
		if !vt.Sleep(ctx, wait) {
			return ctx.Err()
		}
	}
}

func (e *scriptedElection) WithMastership(ctx context.Context) (context.Context, error) {
	cctx, cancel := context.WithCancel(ctx)
	master, remaining, _ := e.state()
	if !master {
		cancel()
		return cctx, nil
	}
	e.mu.Lock()
	defer e.mu.Unlock()
	e.cancels = append(e.cancels, cancel)
	if remaining >= 0 {
		e.timers = append(e.timers, time.AfterFunc(remaining, func() {
			e.f.rec.add(ev{Kind: "revoke"})
			cancel()
		}))
	}
	return cctx, nil
}

func (e *scriptedElection) release() {
	e.mu.Lock()
	defer e.mu.Unlock()
	for _, t := range e.timers {
		t.Stop()
	}
	for _, c := range e.cancels {
		c()
	}
	e.timers, e.cancels = nil, nil
}

func (e *scriptedElection) Resign(ctx context.Context) error { e.release(); return nil }
func (e *scriptedElection) Close(ctx context.Context) error  { e.release(); return nil }
