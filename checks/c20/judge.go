package c20

import (
	"bytes"
	"fmt"
	"testing"
	"time"

	"github.com/google/trillian"
	"google.golang.org/grpc/codes"

	"verif/internal/harness"
	"verif/internal/mtree"
)

// seg is one fetchTail as seen from outside: it begins with the destination root request; the source
// STH, the consistency request and the writes that follow belong to it (fetchTail joins its workers
// before it returns, and passes / restarts are sequential).
type seg struct {
	pass     int
	rootSize int
	rootOK   bool
	sth      int  // genuine tree size handed out in this segment (-1: none)
	consOK   bool // a genuine proof for (rootSize, sth) was served
	proven   int  // the STH size that proof was requested for and served: the size verified against the destination root (-1: none)
	consAny  bool
	adds     []ev
	fatal    bool // a scripted fatal reply
	aborted  bool // harness cancellation or mastership loss while the segment was the latest one
}

func shortList(l []int64) string {
	if len(l) > 12 {
		return fmt.Sprintf("%v... (%d in all)", l[:12], len(l))
	}
	return fmt.Sprint(l)
}

// check runs one case and reports each failure mechanism once (with the number of occurrences).
func check(t *testing.T, c Case) harness.Verdict {
	v := judge(t, c)
	var out []harness.Violation
	count := map[string]int{}
	for _, x := range v.Violations {
		count[x.Sig]++
	}
	seen := map[string]bool{}
	for _, x := range v.Violations {
		if seen[x.Sig] {
			continue
		}
		seen[x.Sig] = true
		if n := count[x.Sig]; n > 1 {
			x.Msg += fmt.Sprintf(" (and %d more of this kind)", n-1)
		}
		out = append(out, x)
	}
	v.Violations = out
	return v
}

func judge(t *testing.T, c Case) (v harness.Verdict) {
	c.normalise()
	tr := buildSource(c.final(), c.Seed, c.DupMod, c.SameTS)
	if c.BigN > 0 {
		inflate(tr, c.BigAt, c.BigN, c.BigKB)
	}
	full := &mtree.Tree{}
	for i := range tr {
		full.Append(tr[i].Leaf)
	}
	o := runCase(t, &c, tr, full)
	classify(&c, o, tr, &v)

	if o.setupErr != "" {
		v.Failf("setup-refused", "%s", o.setupErr)
		return
	}
	if o.stormed && o.stormKind == "restart-storm" {
		v.Failf("restart-storm", "more than %d rounds of reading the destination root and fetching a tail without any progress (no fault consumed, no new index written, no growth, no scheduled event); the run was aborted", idleTailLimit)
	} else if o.stormed {
		v.Failf("request-storm", "more than %d requests (or %d MiB of entries) were served by the source log without any progress (no fault consumed, no new index written, no growth, no scheduled event); the run was aborted", idleReqLimit, idleByteLimit>>20)
	}
	if o.timedOut {
		v.Failf("non-termination", "the run did not end within 96 h of virtual time (passes completed: %d of %d)", len(o.passes), c.Passes)
		return
	}

	// ---- walk the observations
	var segs []*seg
	var cur *seg
	maxSTH := -1 // largest tree size the source has announced under a valid signature so far
	written := map[int64][32]byte{}
	passFaults := make([]bool, c.Passes)  // a source-side fault that may legitimately fail a one-shot pass
	quotaFlagged := make([]bool, c.Passes)
	lastSTH := make([]int, c.Passes)
	for i := range lastSTH {
		lastSTH[i] = -1
	}
	garbageCopied, writes := 0, 0
	beyondFlagged, provenFlagged := false, false
	for _, e := range o.evs {
		switch e.Kind {
		case "stray":
			v.Failf("unknown-endpoint", "request for %s", e.CancelReason)
		case "root":
			cur = &seg{pass: e.Pass, rootSize: e.Size, rootOK: e.RootOK, sth: -1, proven: -1}
			segs = append(segs, cur)
		case "sth":
			if e.Fault != fNone {
				passFaults[e.Pass] = true
				break
			}
			if e.Size > maxSTH {
				maxSTH = e.Size
			}
			lastSTH[e.Pass] = e.Size
			if cur != nil {
				cur.sth = e.Size
			}
		case "cons":
			if e.Fault != fNone || e.Status != 200 {
				passFaults[e.Pass] = true
			}
			if cur != nil {
				cur.consAny = true
				if e.Fault == fNone && e.Status == 200 && int(e.First) == cur.rootSize && int(e.Second) == cur.sth {
					// the head in hand when the proof was asked for; a head fetched afterwards is not covered by it
					cur.consOK = true
					if int(e.Second) > cur.proven {
						cur.proven = int(e.Second)
					}
				}
			}
		case "entries":
			if e.Fault == fEmpty {
				// the unchanged Fetcher hands the empty page on as an empty batch, which the backend refuses
				// (InvalidArgument: no leaves): the tail may fail - but it may not be reported as copied
				passFaults[e.Pass] = true
			}
			if e.BeyondSTH && !beyondFlagged {
				beyondFlagged = true
				v.Failf("fetch-beyond-verified-size", "get-entries start=%d end=%d requested although the largest tree size announced under a valid signature is %d (a head that does not verify was taken on trust)", e.First, e.Second, maxSTH)
			}
		case "cancel", "revoke":
			if cur != nil && cur.pass == e.Pass {
				cur.aborted = true
			}
		case "add":
			writes++
			if cur == nil {
				v.Failf("write-without-root", "AddSequencedLeaves before the destination root was read")
				break
			}
			cur.adds = append(cur.adds, e)
			if e.Status != 0 && e.Status != int(codes.ResourceExhausted) && e.CancelReason == "" {
				cur.fatal = true // incl. a Canceled / DeadlineExceeded status that comes from the backend while the migrator's contexts are alive
			}
			if e.Served == 0 && e.Status == 0 {
				cur.fatal = true // a request without leaves (from an empty get-entries page): the backend refuses it (InvalidArgument)
			}
			req := o.adds[e.CallIdx].Req.(*trillian.AddSequencedLeavesRequest)
			if req.LogId != treeID {
				v.Failf("wrong-tree-id", "AddSequencedLeavesRequest.LogId = %d, the configured tree is %d", req.LogId, treeID)
			}
			// the gate: a non-empty destination root may only be built upon after the source proved consistency
			if cur.sth < 0 {
				v.Failf("write-without-sth", "batch starting at %d written although no verifiable STH was obtained since the destination root (size %d) was read", e.First, cur.rootSize)
			} else if !c.NoCheck && cur.rootSize > 0 && !(cur.consOK && cur.rootOK) {
				why := "no get-sth-consistency answer for these sizes carried a genuine proof"
				if !cur.consAny {
					why = "no get-sth-consistency request was made"
				} else if cur.consOK {
					why = "the destination root is not a root of the source log, so no valid proof exists"
				}
				v.Failf("write-past-unproven-root", "batch starting at %d written on top of destination root (size %d) against source STH %d with the consistency check enabled: %s", e.First, cur.rootSize, cur.sth, why)
			}
			for j, l := range req.Leaves {
				if l == nil {
					v.Failf("nil-leaf", "request %d carries a nil leaf at position %d", e.CallIdx, j)
					continue
				}
				idx := l.LeafIndex
				if idx != e.First+int64(j) {
					v.Failf("non-contiguous-batch", "request %d: leaf %d has index %d, first leaf has %d", e.CallIdx, j, idx, e.First)
				}
				if gated := !c.NoCheck && cur.rootSize > 0; gated && cur.proven >= 0 && idx >= int64(cur.proven) && idx < int64(maxSTH) {
					if !provenFlagged {
						provenFlagged = true
						v.Failf("write-beyond-proven-size", "index %d written on top of destination root (size %d): the source proved consistency of that root with tree size %d only; the bigger head (size %d) the entries were fetched under was obtained afterwards and never checked against the destination", idx, cur.rootSize, cur.proven, cur.sth)
					}
				}
				if idx < 0 || idx >= int64(maxSTH) {
					v.Failf("write-beyond-verified-size", "index %d written although the largest tree size the source has announced under a valid signature is %d", idx, maxSTH)
					continue
				}
				w := &tr[idx]
				if !bytes.Equal(l.LeafValue, w.Leaf) {
					hint := ""
					for _, k := range []int64{idx - 1, idx + 1} {
						if k >= 0 && k < int64(len(tr)) && bytes.Equal(l.LeafValue, tr[k].Leaf) {
							hint = fmt.Sprintf(" (it is the source's leaf_input of index %d)", k)
						}
					}
					if bytes.Equal(l.LeafValue, w.Extra) {
						hint = " (it is the source's extra_data of that index)"
					}
					v.Failf("leaf-input-mismatch", "index %d written with a LeafValue (%d bytes) that is not the source's leaf_input (%d bytes)%s", idx, len(l.LeafValue), len(w.Leaf), hint)
				}
				if !bytes.Equal(l.ExtraData, w.Extra) {
					v.Failf("extra-data-mismatch", "index %d written with ExtraData (%d bytes) that is not the source's extra_data (%d bytes)", idx, len(l.ExtraData), len(w.Extra))
				}
				if want := identity(c.IDFunc, idx, w); !bytes.Equal(l.LeafIdentityHash, want) {
					v.Failf("identity-hash-mismatch", "index %d written with identity hash %x, identity function %d demands %x", idx, l.LeafIdentityHash, c.IDFunc, want)
				}
				dg := leafDigest(l)
				if prev, ok := written[idx]; ok && prev != dg {
					v.Failf("conflicting-duplicate", "index %d was written twice with different contents", idx)
				}
				written[idx] = dg
				if !w.Parsable {
					garbageCopied++
				}
			}
		}
	}

	// ---- quota replies must be retried with back-off
	retried := 0
	delayClass := map[string]bool{}
	for _, s := range segs {
		for i, e := range s.adds {
			if e.Status != int(codes.ResourceExhausted) {
				continue
			}
			var again *ev
			for j := i + 1; j < len(s.adds); j++ {
				if s.adds[j].First == e.First && s.adds[j].Digest == e.Digest {
					again = &s.adds[j]
					break
				}
			}
			switch {
			case again == nil && (s.fatal || s.aborted):
				// the pass was being torn down for another reason
			case again == nil:
				if !quotaFlagged[s.pass] {
					quotaFlagged[s.pass] = true
					v.Failf("quota-not-retried", "pass %d: the destination answered ResourceExhausted for batch [%d, %d) at %v and the batch was never sent again (no fatal reply, cancellation or mastership loss in that tail); pass result: %s",
						s.pass, e.First, e.First+int64(e.Served), e.T, passText(o, s.pass))
				}
			case again.T <= e.T:
				v.Failf("quota-retry-without-delay", "batch [%d, %d) was re-sent at %v, the same virtual instant as the ResourceExhausted reply", e.First, e.First+int64(e.Served), again.T)
			default:
				retried++
				d := again.T - e.T
				switch {
				case d < time.Second:
					delayClass["quota-retry-delay:<1s"] = true
				case d < 10*time.Second:
					delayClass["quota-retry-delay:1-10s"] = true
				default:
					delayClass["quota-retry-delay:>=10s"] = true
				}
			}
		}
	}

	streamClean := len(v.Violations) == 0 // otherwise a failing pass is a consequence, not a finding of its own

	// ---- per pass: completeness after success; failures must have a cause
	dst := o.dst
	held := func(idx int64) (*trillian.LogLeaf, bool) {
		if idx < int64(dst.Log.Size()) {
			return dst.Log.Leaf(int(idx)), true
		}
		if l := dst.Log.SparseLeaf(idx); l != nil {
			return l, true
		}
		return nil, false
	}
	// Indices the reference backend itself refused as AlreadyExists because their identity hash is already
	// stored under another index: only possible when the source repeats a certificate under
	// SHA256_CERT_DATA (the documented limitation of that identity function). They still have to be submitted.
	refused := map[int64]bool{}
	if c.IDFunc == 1 && c.DupMod > 0 {
		for _, idx := range dst.Log.IdentityDups {
			refused[idx] = true
		}
	}
	for p, pr := range o.passes {
		if !pr.Returned {
			continue
		}
		forkSeen, fatalSeen := false, false
		for _, s := range segs {
			if s.pass != p {
				continue
			}
			if !c.NoCheck && s.rootSize > 0 && !s.rootOK {
				forkSeen = true
				// Also when the destination is as large as, or larger than, the source's (non-empty) head: there is
				// nothing to copy, but reporting success means accepting a tree the source contradicts / cannot vouch for.
				if pr.ErrNil && !pr.Cancelled && s.sth > 0 {
					v.Failf("fork-accepted", "pass %d returned nil although the destination root (size %d) is not a root of the source log (STH size %d) and the consistency check is enabled", p, s.rootSize, s.sth)
				}
			}
			if s.fatal {
				fatalSeen = true
			}
		}
		if pr.ErrNil && !pr.Cancelled && !o.stormed {
			lo, hi := int64(pr.RootAtStart), int64(lastSTH[p])
			if !c.Continuous {
				if c.Start >= 0 {
					lo = c.Start
				}
				if c.End > 0 && c.End < hi {
					hi = c.End
				}
			}
			if lastSTH[p] < 0 {
				v.Failf("success-without-sth", "pass %d returned nil without ever obtaining a verifiable STH", p)
			}
			var missing, wrong []int64
			for idx := lo; idx < hi; idx++ {
				l, ok := held(idx)
				if !ok {
					if refused[idx] {
						continue // submitted, but the backend cannot hold two leaves with one identity hash
					}
					missing = append(missing, idx)
					continue
				}
				if idx < int64(len(dst.pre)) {
					continue // pre-existing content, judged below
				}
				if !bytes.Equal(l.LeafValue, tr[idx].Leaf) || !bytes.Equal(l.ExtraData, tr[idx].Extra) {
					wrong = append(wrong, idx)
				}
			}
			if len(missing) > 0 {
				v.Failf("gap-after-successful-pass", "pass %d returned nil (range [%d, %d), source STH %d) but the destination lacks indices %s", p, lo, hi, lastSTH[p], shortList(missing))
			}
			if len(wrong) > 0 {
				v.Failf("wrong-content-after-successful-pass", "pass %d returned nil but the destination holds other bytes than the source at indices %s", p, shortList(wrong))
			}
			if hi > lo {
				v.Class("complete-pass")
			}
		}
		if !pr.ErrNil && !pr.Cancelled {
			explained := passFaults[p] || forkSeen || fatalSeen || quotaFlagged[p]
			// where did it stop? an unparsable certificate must not stop the copy
			stuck, bad := int64(-1), int64(-1)
			for idx := int64(pr.RootAtStart); idx < int64(lastSTH[p]); idx++ {
				if _, ok := held(idx); !ok {
					stuck = idx
					break
				}
			}
			for idx := stuck; stuck >= 0 && idx < stuck+int64(c.Batch) && idx < int64(lastSTH[p]); idx++ {
				if !tr[idx].Parsable {
					bad = idx
					break
				}
			}
			switch {
			case explained || !streamClean:
			case bad >= 0:
				v.Failf("unparsable-entry-not-copied", "pass %d failed with %q; the first batch it left out (from index %d) contains index %d, an entry whose certificate does not parse (no fault that may end a pass was injected)", p, pr.Err, stuck, bad)
			case !o.stormed:
				v.Failf("pass-aborted-without-fault", "pass %d failed with %q although no fault that may end a pass was injected (no get-sth / consistency fault, no fatal destination reply, no cancellation, destination not forked)", p, pr.Err)
			}
		}
	}

	// ---- final state of the destination
	var corrupt []int64
	checkLeaf := func(idx int64, l *trillian.LogLeaf) {
		switch {
		case idx < int64(len(dst.pre)):
			if !bytes.Equal(l.LeafValue, dst.pre[idx].Leaf) || !bytes.Equal(l.ExtraData, dst.pre[idx].Extra) {
				corrupt = append(corrupt, idx)
			}
		case idx >= int64(len(tr)):
			corrupt = append(corrupt, idx)
		default:
			if !bytes.Equal(l.LeafValue, tr[idx].Leaf) || !bytes.Equal(l.ExtraData, tr[idx].Extra) || !bytes.Equal(l.LeafIdentityHash, identity(c.IDFunc, idx, &tr[idx])) {
				corrupt = append(corrupt, idx)
			}
		}
	}
	for i := 0; i < dst.Log.Size(); i++ {
		checkLeaf(int64(i), dst.Log.Leaf(i))
	}
	for _, idx := range dst.Log.SparseIndices() {
		checkLeaf(idx, dst.Log.SparseLeaf(idx))
	}
	if len(corrupt) > 0 {
		v.Failf("destination-differs-from-source", "after the run the destination holds, at indices %s, something else than the source's (leaf_input, extra_data, identity hash) or an index beyond the source", shortList(corrupt))
	}
	if c.IDFunc == 1 && c.DupMod == 0 && len(dst.Log.IdentityDups) > 0 {
		v.Failf("harness-identity-collision", "the generated source repeated a certificate under SHA256_CERT_DATA (indices %v)", dst.Log.IdentityDups)
	}

	if retried > 0 {
		v.Class("quota-retried")
	}
	for k := range delayClass {
		v.Class(k)
	}
	if garbageCopied > 0 {
		v.Class("garbage-copied")
	}
	if writes > 0 {
		v.Class("writes")
	}
	return
}

func (o *outcome) dstConflicts() []int64 {
	var out []int64
	if o.dst != nil {
		for _, c := range o.dst.Log.Conflicts {
			out = append(out, c.Index)
		}
	}
	return out
}

func passText(o *outcome, p int) string {
	if p >= len(o.passes) {
		return "(pass did not finish)"
	}
	pr := o.passes[p]
	if pr.ErrNil {
		return "nil"
	}
	return fmt.Sprintf("%q", pr.Err)
}

// classify labels the case for the evidence histogram and applies the non-trivial rule: a fault or a
// restart occurred, or the destination started non-empty.
func classify(c *Case, o *outcome, tr []truth, v *harness.Verdict) {
	mode := "one-shot"
	if c.Continuous {
		mode = "continuous"
	}
	v.Class("mode:" + mode)
	v.Class([]string{"dst:empty", "dst:prefix", "dst:complete", "dst:fork"}[c.DstKind])
	if c.DstKind == dstFork && c.DstLen > c.Sizes[0] {
		v.Class("dst:fork-longer-than-source")
	}
	v.Class(fmt.Sprintf("idfunc:%d", c.IDFunc))
	v.Class(fmt.Sprintf("passes:%d", c.Passes))
	if c.NoCheck {
		v.Class("check:off")
	} else {
		v.Class("check:on")
	}
	if len(c.Elect) > 0 {
		v.Class("election:scripted")
	} else {
		v.Class("election:noop")
	}
	if c.LongQuota > 0 {
		v.Class("dst:long-quota-outage")
	}
	if c.SQLStatuses {
		v.Class("dst:sql-per-leaf-statuses")
	}
	if n := len(o.dstConflicts()); n > 0 {
		v.Class("dst:leaf-resubmitted")
	}
	if c.DupMod > 0 && c.IDFunc == 1 {
		v.Class("source:repeated-certs-under-cert-data")
	}
	if c.DupMod > 0 {
		v.Class("source:repeated-certs")
		if c.SameTS {
			v.Class("source:identical-leaves")
		}
	}
	if c.final() == 0 {
		v.Class("source:empty")
	}
	if c.BigN > 0 {
		v.Class("source:megabyte-entries")
		if c.BigN*c.BigKB > 3<<10 && c.Batch >= c.BigN {
			v.Class("source:batch>3MiB-possible")
		}
	}
	if c.Fetchers > 1 {
		v.Class("fetchers>1")
	}
	if c.Submitters > 1 {
		v.Class("submitters>1")
	}
	if !c.Continuous && c.Start >= 0 {
		v.Class("explicit-start")
	}
	if c.End > 0 {
		v.Class("explicit-end")
	}
	fault := false
	seen := map[string]bool{}
	sizes := map[int]bool{}
	for _, e := range o.evs {
		var cl string
		switch e.Kind {
		case "sth":
			if e.Fault == fSpecial {
				cl = "src:forged-sth"
			} else if e.Fault != fNone {
				cl = "src:sth-fault"
			} else {
				sizes[e.Size] = true
			}
		case "cons":
			switch {
			case e.Fault == fSpecial:
				cl = "src:tampered-proof"
			case e.Fault != fNone:
				cl = "src:consistency-fault"
			case e.Status == 400:
				cl = "src:consistency-impossible"
			default:
				seen["gate:proof-served"] = true
			}
		case "entries":
			switch {
			case e.Fault == f429:
				cl = "src:entries-429"
			case e.Fault == f503 || e.Fault == f500:
				cl = "src:entries-5xx"
			case e.Fault == fSlow:
				cl = "src:entries-timeout"
			case e.Fault == fEmpty:
				cl = "src:entries-empty-page"
			case e.Fault != fNone:
				cl = "src:entries-network/body"
			case e.Short:
				cl = "src:short-read"
			}
		case "add":
			switch codes.Code(e.Status) {
			case codes.OK:
			case codes.ResourceExhausted:
				cl = "dst:quota-reply"
			case codes.Canceled:
				cl = "dst:cancel-at-add"
				if e.CancelReason == "" {
					cl = "dst:canceled-status-from-backend"
				}
			case codes.DeadlineExceeded:
				cl = "dst:deadline-status-from-backend"
			case codes.Code(fatalWrappedCancel):
				cl = "dst:wrapped-context-canceled-from-backend"
			default:
				cl = "dst:fatal-reply"
			}
		case "cancel":
			cl = "cancel:" + e.CancelReason
		case "revoke":
			cl = "election:revoked"
		}
		if cl != "" {
			fault = true
			seen[cl] = true
		}
	}
	for k := range seen {
		v.Class(k)
	}
	if len(sizes) > 1 {
		v.Class("source:growth-seen")
	}
	resumed := false
	for _, pr := range o.passes {
		switch {
		case !pr.Returned:
		case pr.Cancelled:
			v.Class("pass:cancelled")
		case pr.ErrNil:
			v.Class("pass:nil")
		default:
			v.Class("pass:error")
		}
		if pr.RootAtStart > 0 {
			resumed = true
		}
	}
	if resumed {
		v.Class("resumed-from-non-empty")
	}
	v.NonTrivial = fault || c.Passes > 1 || c.DstLen > 0
	v.Sample = map[string]any{"sizes": c.Sizes, "mode": mode, "dst": c.DstKind, "dstLen": c.DstLen, "batch": c.Batch, "fetchers": c.Fetchers, "submitters": c.Submitters,
		"passes": c.Passes, "idfunc": c.IDFunc, "nocheck": c.NoCheck, "elect": len(c.Elect), "events": len(o.evs)}
}
