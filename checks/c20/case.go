package c20

import (
	"pgregory.net/rapid"

	"verif/internal/harness"
)

// Fault kinds of the scripted source log (HTTP level).
const (
	fNone     = 0
	f429      = 1 // 429 Too Many Requests (+ Retry-After)
	f503      = 2
	f500      = 3
	fNet      = 4 // RoundTrip fails (connection refused)
	fBody     = 5 // 200, body breaks off with a read error
	fJSON     = 6 // 200, body is not JSON
	fSlow     = 7 // no answer within the client's 10 s timeout
	fSpecial  = 8 // get-sth: forged STH (bigger tree, signature does not verify); get-sth-consistency: tampered proof
	nSrcFault = 8
	fEmpty    = 9 // get-entries only: 200 with an empty entries array (a zero-length short read)
)

// Destination kinds.
const (
	dstEmpty    = 0
	dstPrefix   = 1
	dstComplete = 2 // the first tree size the source will announce
	dstFork     = 3 // a prefix in which one leaf differs from the source (possibly longer than the source)
)

// SrcPlan scripts the get-entries requests whose start index is congruent to the plan's position modulo
// len(Plans): the first len(Errs) requests for one start index fail with the listed kinds (finite burst),
// every later one is answered after LatMs with 1 + (Short-1) % asked entries (Short == 0: all asked).
type SrcPlan struct {
	Errs  []int
	Short int
	LatMs int64
}

// DstPlan scripts AddSequencedLeaves calls by the index of the first leaf (modulo len(DstPlans)): the
// first Quota calls for one start index are answered ResourceExhausted, the next FatalN ones with the
// gRPC code Fatal (incl. Canceled / DeadlineExceeded coming from the backend, or fatalWrappedCancel), later
// ones reach the reference backend.
type DstPlan struct {
	Quota  int
	Fatal  int
	FatalN int
}

// Grant: mastership is granted AtMs after the pass began and revoked HoldMs later (HoldMs < 0: kept).
type Grant struct {
	AtMs   int64
	HoldMs int64
}

// Case is one source history + destination state + configuration + fault / restart schedule. Plain data.
type Case struct {
	// source log
	Sizes      []int // tree size of the n-th genuine STH handed out (the last one repeats); non-decreasing
	Seed       int
	DupMod     int  // > 0: the log repeats its first DupMod certificates (index i carries the certificate of i % DupMod)
	SameTS     bool // repeated certificates also repeat the timestamp: byte-identical leaves
	BigAt      int  // BigN > 0: the entries [BigAt, BigAt+BigN) carry about BigKB KiB of extra_data each
	BigN       int
	BigKB      int
	SrcKey     int // signing key of the source: 0 p256, 1 rsa2048, 2 p256 (another), 3 rsa3072
	Plans      []SrcPlan
	STHFaults  []int // fault kind of the n-th get-sth request (over all passes)
	ConsFaults []int // fault kind of the n-th get-sth-consistency request
	STHLatMs   int64
	ConsLatMs  int64

	// destination
	DstKind         int
	DstLen          int // resolved by normalise
	ForkAt          int
	DstPlans        []DstPlan
	LongQuota       int   // a long quota outage: the first LongQuotaStarts distinct batch starts the destination sees are
	LongQuotaStarts int   // answered ResourceExhausted LongQuota times each before their plan applies (20-45 replies: 20 min - 1.5 h of back-off)
	SQLStatuses     bool  // per-leaf statuses as Trillian's SQL storages give them: FailedPrecondition ("conflicting LeafIndex" / "conflicting LeafIdentityHash") for a leaf that is stored already, identical or not
	DstLatMs        int64 // AddSequencedLeaves for a batch starting at s takes (s % 3) * DstLatMs
	IntegrateMask   uint  // bit n%16: the sequencer integrates just before the n-th GetLatestSignedLogRoot

	// configuration
	Batch        int
	Fetchers     int // 0 = unset (one)
	Submitters   int // 0 = unset (one)
	ChanSize     int
	Continuous   bool
	Start, End   int64
	NoCheck      bool
	IDFunc       int // 1 SHA256_CERT_DATA, 2 SHA256_LEAF_INDEX
	StartDelayMs int64
	StopAfterS   int64

	// schedule
	Passes      int     // process restarts: each pass is a fresh client + Controller + RunWhenMaster
	CancelAtAdd []int   // per pass: cancel the pass at its n-th AddSequencedLeaves call (0: no)
	CancelAtMs  []int64 // per pass: cancel the pass at this virtual instant (0: no)
	Elect       []Grant // empty: election2.NoopFactory
}

func weighted(t *rapid.T, label string, w ...int) int {
	tot := 0
	for _, x := range w {
		tot += x
	}
	r := rapid.IntRange(0, tot-1).Draw(t, label)
	for i, x := range w {
		if r < x {
			return i
		}
		r -= x
	}
	return len(w) - 1
}

func spread(t *rapid.T, label string, lo, hi int) int {
	v := rapid.IntRange(lo, hi).Draw(t, label)
	if rapid.Bool().Draw(t, label+"Hi") {
		v = hi - (v - lo)
	}
	return v
}

func maxSize() int {
	if harness.Thorough() {
		return 600
	}
	return 200
}

func (c *Case) final() int { return c.Sizes[len(c.Sizes)-1] }

// normalise makes any decoded Case (replays, shrunk cases) a member of the domain.
func (c *Case) normalise() {
	clamp := func(v *int, lo, hi int) {
		if *v < lo {
			*v = lo
		}
		if *v > hi {
			*v = hi
		}
	}
	if len(c.Sizes) == 0 {
		c.Sizes = []int{0}
	}
	for i := range c.Sizes {
		clamp(&c.Sizes[i], 0, poolSize-8)
		if i > 0 && c.Sizes[i] < c.Sizes[i-1] {
			c.Sizes[i] = c.Sizes[i-1]
		}
	}
	clamp(&c.IDFunc, 1, 2)
	if c.DupMod < 0 {
		c.DupMod = 0
	}
	clamp(&c.SrcKey, 0, 3)
	clamp(&c.BigN, 0, 8)
	if c.BigN > 0 {
		clamp(&c.BigKB, 1, 1100)
		if c.BigAt < 0 {
			c.BigAt = 0
		}
		if f := c.final(); f > 0 {
			c.BigAt %= f
		}
	}
	if len(c.Plans) == 0 {
		c.Plans = []SrcPlan{{}}
	}
	for i := range c.Plans {
		if len(c.Plans[i].Errs) > 6 {
			c.Plans[i].Errs = c.Plans[i].Errs[:6]
		}
		for j := range c.Plans[i].Errs {
			if c.Plans[i].Errs[j] != fEmpty {
				clamp(&c.Plans[i].Errs[j], 1, fSlow)
			}
		}
		if c.Plans[i].Short < 0 {
			c.Plans[i].Short = 0
		}
		if c.Plans[i].LatMs < 0 {
			c.Plans[i].LatMs = 0
		}
	}
	if len(c.STHFaults) > 12 {
		c.STHFaults = c.STHFaults[:12]
	}
	for i := range c.STHFaults {
		clamp(&c.STHFaults[i], 0, nSrcFault)
	}
	if len(c.ConsFaults) > 12 {
		c.ConsFaults = c.ConsFaults[:12]
	}
	for i := range c.ConsFaults {
		clamp(&c.ConsFaults[i], 0, nSrcFault)
	}
	if c.STHLatMs < 1 {
		c.STHLatMs = 1
	}
	if c.ConsLatMs < 0 {
		c.ConsLatMs = 0
	}
	clamp(&c.DstKind, 0, 3)
	if c.DstLen < 0 {
		c.DstLen = -c.DstLen
	}
	if c.ForkAt < 0 {
		c.ForkAt = -c.ForkAt
	}
	s0 := c.Sizes[0]
	switch c.DstKind {
	case dstEmpty:
		c.DstLen = 0
	case dstPrefix:
		c.DstLen %= s0 + 1
	case dstComplete:
		c.DstLen = s0
	case dstFork:
		c.DstLen = 1 + c.DstLen%(s0+3)
		c.ForkAt %= c.DstLen
	}
	if c.IDFunc == 1 && c.DupMod > 0 && (c.DstKind == dstPrefix || c.DstKind == dstComplete) && c.DstLen > c.DupMod {
		// a tree keyed by SHA256_CERT_DATA cannot have held a repeated certificate in the first place
		c.DstKind, c.DstLen = dstPrefix, c.DupMod
	}
	if c.DstLen == 0 {
		c.DstKind = dstEmpty
	}
	clamp(&c.LongQuota, 0, 60)
	clamp(&c.LongQuotaStarts, 0, 3)
	if c.LongQuota == 0 || c.LongQuotaStarts == 0 {
		c.LongQuota, c.LongQuotaStarts = 0, 0
	}
	if c.DstLatMs < 0 {
		c.DstLatMs = 0
	}
	if len(c.DstPlans) == 0 {
		c.DstPlans = []DstPlan{{}}
	}
	for i := range c.DstPlans {
		p := &c.DstPlans[i]
		clamp(&p.Quota, 0, 5)
		clamp(&p.Fatal, 0, fatalWrappedCancel)
		if p.Fatal == 8 { // ResourceExhausted is scripted through Quota
			p.Fatal = 13
		}
		clamp(&p.FatalN, 0, 3)
		if p.Fatal == 0 {
			p.FatalN = 0
		} else if p.FatalN == 0 {
			p.FatalN = 1
		}
	}
	clamp(&c.Batch, 1, 1000)
	clamp(&c.Fetchers, 0, 8)
	clamp(&c.Submitters, 0, 8)
	clamp(&c.ChanSize, 0, 64)
	if c.Start < -1 {
		c.Start = -1
	}
	if c.End < 0 {
		c.End = 0
	}
	if c.StartDelayMs < 0 {
		c.StartDelayMs = 0
	}
	if c.StopAfterS < 0 {
		c.StopAfterS = 0
	}
	if !c.Continuous {
		c.StopAfterS = 0
	}
	clamp(&c.Passes, 1, 4)
	for len(c.CancelAtAdd) < c.Passes {
		c.CancelAtAdd = append(c.CancelAtAdd, 0)
	}
	for len(c.CancelAtMs) < c.Passes {
		c.CancelAtMs = append(c.CancelAtMs, 0)
	}
	c.CancelAtAdd, c.CancelAtMs = c.CancelAtAdd[:c.Passes], c.CancelAtMs[:c.Passes]
	for i := range c.CancelAtMs {
		if c.CancelAtAdd[i] < 0 {
			c.CancelAtAdd[i] = 0
		}
		if c.CancelAtMs[i] < 0 {
			c.CancelAtMs[i] = 0
		}
		if c.Continuous {
			// a continuous pass ends through StopAfter (any instant in [S, 2S) plus the tail in progress) or
			// through cancellation; one that keeps failing (forked destination) only through cancellation.
			limit := 2*c.StopAfterS*1000 + 900000
			if c.StopAfterS == 0 {
				limit = 1800000
			}
			if c.CancelAtMs[i] == 0 || c.CancelAtMs[i] > limit {
				c.CancelAtMs[i] = limit
			}
		}
	}
	if len(c.Elect) > 6 {
		c.Elect = c.Elect[:6]
	}
	for i := range c.Elect {
		if c.Elect[i].AtMs < 0 {
			c.Elect[i].AtMs = 0
		}
		if i > 0 {
			prevEnd := c.Elect[i-1].AtMs + c.Elect[i-1].HoldMs
			if c.Elect[i].AtMs < prevEnd {
				c.Elect[i].AtMs = prevEnd
			}
		}
		if i == len(c.Elect)-1 {
			c.Elect[i].HoldMs = -1
		} else if c.Elect[i].HoldMs < 1 {
			c.Elect[i].HoldMs = 1
		}
	}
}

// fatalWrappedCancel is not a gRPC code: the reply is a plain (non-status) error wrapping context.Canceled,
// as a proxy or interceptor in front of the backend may produce; the migrator's own contexts stay alive.
const fatalWrappedCancel = 17

// Codes a destination may answer with (1 = Canceled, 4 = DeadlineExceeded: the backend gave up, not the caller).
var fatalCodes = []int{13, 7, 3, 2, 9, 14, 4, 10, 5, 16, 1, 1, 4, fatalWrappedCancel}

func genSrcFault(t *rapid.T, label string, special bool) int {
	hi := fSlow
	if special {
		hi = fSpecial
	}
	if weighted(t, label+"Slow", 9, 1) == 1 {
		return fSlow
	}
	if special && weighted(t, label+"Special", 2, 1) == 1 {
		return fSpecial
	}
	k := rapid.IntRange(1, hi).Draw(t, label)
	if k == fSlow {
		k = f503
	}
	return k
}

func genCase(t *rapid.T, elect bool) Case {
	var c Case
	mx := maxSize()

	// --- source history
	var first int
	switch weighted(t, "sizeClass", 10, 4, 1) {
	case 0:
		first = spread(t, "size", 1, mx*3/4)
	case 1:
		first = rapid.IntRange(1, 8).Draw(t, "size")
	default:
		first = 0
	}
	c.Sizes = []int{first}
	nGrow := weighted(t, "nGrow", 3, 4, 2, 1, 1)
	cur := first
	for i := 0; i < nGrow; i++ {
		switch weighted(t, "growClass", 2, 3, 1) {
		case 0:
			cur += rapid.IntRange(1, 3).Draw(t, "grow")
		case 1:
			cur += rapid.IntRange(1, 40).Draw(t, "grow")
		default: // the same STH again (no growth seen)
		}
		if cur > mx {
			cur = mx
		}
		c.Sizes = append(c.Sizes, cur)
	}
	c.Seed = rapid.IntRange(0, poolSize-1).Draw(t, "seed")
	c.IDFunc = 1 + weighted(t, "idFunc", 1, 1)
	if c.IDFunc == 2 && weighted(t, "dups", 1, 1) == 1 || c.IDFunc == 1 && weighted(t, "dupsCertData", 3, 1) == 1 {
		c.DupMod = rapid.IntRange(1, 12).Draw(t, "dupMod")
		c.SameTS = rapid.Bool().Draw(t, "sameTS")
	}
	c.SrcKey = weighted(t, "srcKey", 5, 1, 2, 1)

	nPlans := rapid.IntRange(1, 5).Draw(t, "nPlans")
	for i := 0; i < nPlans; i++ {
		var p SrcPlan
		if weighted(t, "planErr", 3, 2) == 1 {
			n := rapid.IntRange(1, 4).Draw(t, "nErrs")
			for j := 0; j < n; j++ {
				if weighted(t, "srcEmpty", 5, 1) == 1 {
					p.Errs = append(p.Errs, fEmpty)
				} else {
					p.Errs = append(p.Errs, genSrcFault(t, "srcErr", false))
				}
			}
		}
		if weighted(t, "planShort", 1, 1) == 1 {
			p.Short = rapid.IntRange(1, 50).Draw(t, "short")
		}
		switch weighted(t, "planLat", 3, 3, 1) {
		case 1:
			p.LatMs = int64(rapid.IntRange(1, 500).Draw(t, "lat"))
		case 2:
			p.LatMs = int64(rapid.IntRange(500, 9000).Draw(t, "lat"))
		}
		c.Plans = append(c.Plans, p)
	}
	if weighted(t, "sthFaults", 3, 1) == 1 {
		n := rapid.IntRange(1, 5).Draw(t, "nSTHFaults")
		for i := 0; i < n; i++ {
			k := 0
			if weighted(t, "sthFaultHere", 1, 2) == 1 {
				k = genSrcFault(t, "sthFault", true)
			}
			c.STHFaults = append(c.STHFaults, k)
		}
	}
	if weighted(t, "consFaults", 2, 1) == 1 {
		n := rapid.IntRange(1, 4).Draw(t, "nConsFaults")
		for i := 0; i < n; i++ {
			k := 0
			if weighted(t, "consFaultHere", 1, 2) == 1 {
				k = genSrcFault(t, "consFault", true)
			}
			c.ConsFaults = append(c.ConsFaults, k)
		}
	}
	c.STHLatMs = int64(rapid.IntRange(1, 2000).Draw(t, "sthLat"))
	c.ConsLatMs = int64(rapid.IntRange(0, 2000).Draw(t, "consLat"))

	// --- destination
	c.DstKind = weighted(t, "dstKind", 4, 5, 2, 3)
	c.DstLen = rapid.IntRange(0, mx+2).Draw(t, "dstLen")
	if c.DstKind == dstPrefix && weighted(t, "dstNear", 2, 1) == 1 {
		c.DstLen = first - rapid.IntRange(0, 3).Draw(t, "dstBack")
	}
	if c.DstKind == dstFork {
		switch weighted(t, "forkSize", 5, 3, 3) {
		case 1:
			c.DstLen = rapid.IntRange(0, 2).Draw(t, "forkLen") // destinations of 1-3 entries
		case 2:
			// as large as the first head of the source, or 1-2 entries ahead of it (normalise adds one)
			c.DstLen = first - 1 + rapid.IntRange(0, 2).Draw(t, "forkFull")
			if c.DstLen < 0 {
				c.DstLen = 0
			}
		}
	}
	c.ForkAt = rapid.IntRange(0, mx+2).Draw(t, "forkAt")
	nDP := rapid.IntRange(1, 4).Draw(t, "nDstPlans")
	for i := 0; i < nDP; i++ {
		var p DstPlan
		switch weighted(t, "dstFault", 5, 3, 2, 1) {
		case 1:
			p.Quota = rapid.IntRange(1, 4).Draw(t, "quota")
		case 2:
			p.Fatal = rapid.SampledFrom(fatalCodes).Draw(t, "fatal")
			p.FatalN = rapid.IntRange(1, 2).Draw(t, "fatalN")
		case 3:
			p.Quota = rapid.IntRange(1, 3).Draw(t, "quota")
			p.Fatal = rapid.SampledFrom(fatalCodes).Draw(t, "fatal")
			p.FatalN = 1
		}
		c.DstPlans = append(c.DstPlans, p)
	}
	c.SQLStatuses = weighted(t, "sqlStatuses", 1, 2) == 1
	if weighted(t, "longQuota", 11, 1) == 1 {
		c.LongQuota = rapid.IntRange(20, 45).Draw(t, "longQuotaN")
		c.LongQuotaStarts = rapid.IntRange(1, 3).Draw(t, "longQuotaStarts")
	}
	if weighted(t, "dstLat", 1, 1) == 1 {
		c.DstLatMs = int64(rapid.IntRange(1, 400).Draw(t, "dstLatMs"))
	}
	c.IntegrateMask = uint(rapid.IntRange(0, 0xffff).Draw(t, "integrateMask"))

	// --- configuration
	c.Batch = spread(t, "batch", 1, 40)
	if weighted(t, "smallBatch", 2, 1) == 1 {
		c.Batch = rapid.IntRange(1, 4).Draw(t, "batchSmall")
	}
	c.Fetchers = rapid.IntRange(0, 4).Draw(t, "fetchers")
	c.Submitters = rapid.IntRange(0, 4).Draw(t, "submitters")
	c.ChanSize = rapid.IntRange(0, 8).Draw(t, "chanSize")
	c.Continuous = weighted(t, "continuous", 3, 2) == 1
	c.Start = -1
	if !c.Continuous {
		switch weighted(t, "startClass", 6, 2, 2, 1) {
		case 1:
			c.Start = 0
		case 2:
			c.Start = int64(rapid.IntRange(0, mx).Draw(t, "start"))
		case 3:
			c.Start = int64(rapid.IntRange(0, mx+5).Draw(t, "startAny"))
		}
		switch weighted(t, "endClass", 6, 2, 1) {
		case 1:
			c.End = int64(rapid.IntRange(1, mx).Draw(t, "end"))
		case 2:
			c.End = int64(cur + rapid.IntRange(1, 10).Draw(t, "endBeyond"))
		}
	}
	c.NoCheck = weighted(t, "noCheck", 3, 1) == 1
	if weighted(t, "startDelay", 2, 1) == 1 {
		c.StartDelayMs = int64(rapid.IntRange(1, 5000).Draw(t, "startDelayMs"))
	}
	if c.Continuous && weighted(t, "stopAfter", 1, 3) == 1 {
		c.StopAfterS = int64(rapid.IntRange(20, 400).Draw(t, "stopAfterS"))
	}

	// --- a few entries with very large certificate chains (rare: each costs megabytes)
	if c.final() >= 4 && weighted(t, "big", 32, 1) == 1 {
		c.BigN = rapid.IntRange(4, 5).Draw(t, "bigN")
		c.BigKB = rapid.IntRange(800, 1000).Draw(t, "bigKB")
		c.BigAt = rapid.IntRange(0, c.final()-1).Draw(t, "bigAt")
		if c.Batch < c.BigN+2 {
			c.Batch = c.BigN + rapid.IntRange(0, 6).Draw(t, "bigBatch")
		}
		if weighted(t, "bigWhole", 1, 3) == 1 {
			for i := range c.Plans {
				c.Plans[i].Short = 0
			}
		}
	}

	// --- schedule
	c.Passes = 1 + weighted(t, "passes", 3, 4, 2)
	if c.BigN > 0 && c.Passes > 2 {
		c.Passes = 2 // every restart re-fetches megabytes
	}
	for p := 0; p < c.Passes; p++ {
		a, ms := 0, int64(0)
		switch weighted(t, "cancelClass", 6, 2, 2) {
		case 1:
			a = rapid.IntRange(1, 12).Draw(t, "cancelAtAdd")
		case 2:
			switch weighted(t, "cancelMsClass", 1, 1, 1) {
			case 0:
				ms = int64(rapid.IntRange(1, 3000).Draw(t, "cancelAtMs"))
			case 1:
				ms = int64(rapid.IntRange(3000, 60000).Draw(t, "cancelAtMs"))
			default:
				ms = int64(rapid.IntRange(60000, 600000).Draw(t, "cancelAtMs"))
			}
		}
		c.CancelAtAdd = append(c.CancelAtAdd, a)
		c.CancelAtMs = append(c.CancelAtMs, ms)
	}
	if c.Continuous && c.DstKind == dstFork && !c.NoCheck {
		// this configuration fails for ever (by design); do not let it spin for virtual hours
		for p := range c.CancelAtMs {
			if c.CancelAtMs[p] == 0 || c.CancelAtMs[p] > 40000 {
				c.CancelAtMs[p] = int64(rapid.IntRange(2000, 40000).Draw(t, "forkCancelMs"))
			}
		}
		if c.STHLatMs < 300 {
			c.STHLatMs += 300
		}
	}
	if elect {
		n := 1 + weighted(t, "nGrants", 1, 4, 3, 2)
		at := int64(0)
		for i := 0; i < n; i++ {
			switch weighted(t, "grantGap", 2, 2, 1) {
			case 1:
				at += int64(rapid.IntRange(1, 2000).Draw(t, "grantGapMs"))
			case 2:
				at += int64(rapid.IntRange(2000, 90000).Draw(t, "grantGapMs"))
			}
			var hold int64
			switch weighted(t, "holdClass", 2, 2, 1) {
			case 0:
				hold = int64(rapid.IntRange(1, 1500).Draw(t, "holdMs"))
			case 1:
				hold = int64(rapid.IntRange(1500, 40000).Draw(t, "holdMs"))
			default:
				hold = int64(rapid.IntRange(40000, 400000).Draw(t, "holdMs"))
			}
			c.Elect = append(c.Elect, Grant{AtMs: at, HoldMs: hold})
			at += hold
		}
	}
	c.normalise()
	return c
}

func genMirror(t *rapid.T) Case { return genCase(t, false) }
func genElect(t *rapid.T) Case  { return genCase(t, true) }
