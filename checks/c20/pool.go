package c20

import (
	"crypto/sha256"
	"encoding/binary"
	"fmt"
	"sync"

	"verif/internal/derx"
	"verif/internal/rfc6962"
	"verif/internal/world"
)

// The source log of a case is laid out over a process-wide pool of RFC 6962 entries: certificates and
// precertificates issued by internal/world (each pool member has its own serial number, so no two
// members share the bytes Migrillian's SHA256_CERT_DATA identity function hashes), every sixth member
// damaged so that its certificate / TBSCertificate / submitted precertificate does not parse while the
// TLS structure of leaf_input and extra_data stays well-formed. A Case only says which member sits at
// which index; building costs signatures, so members are made on first use and cached.

const (
	kindCert    = 0
	kindPrecert = 1
	t0          = uint64(1700000000000) // timestamp (ms) of index 0
	poolSize    = 640
)

type poolEntry struct {
	Kind     int
	Parsable bool // every certificate of the entry is well-formed
	LeafBad  bool // the certificate / TBSCertificate inside leaf_input is damaged (what ct.LogEntryFromLeaf parses)
	Entry    rfc6962.Entry
	Extra    []byte // extra_data, structurally well-formed
	Cert     []byte // the bytes a client calls "the certificate" of the entry: ASN.1Cert of an X.509 entry, the submitted precertificate of a precert entry
}

var (
	poolMu sync.Mutex
	pool   = map[int]*poolEntry{}
)

var interSets = [][]string{nil, {"p256"}, {"p384", "p256"}, {"p256", "p256"}, {"rsa2048"}}

func member(i int) *poolEntry {
	i %= poolSize
	poolMu.Lock()
	defer poolMu.Unlock()
	if e, ok := pool[i]; ok {
		return e
	}
	kinds := world.LeafKinds
	s := world.ChainSpec{
		ID: uint32(20000 + i), Root: []int{0, 2, 0, 3, 0, 1, 2, 0}[i%8], Inters: interSets[(i/2)%len(interSets)], LeafKind: kinds[i%len(kinds)],
		Precert: i%2 == 1, PreIssuer: i%4 == 3, PreIssAKI: i%8 == 7, LeafAKI: i%3 != 0, PoisonPos: i % 7, ExtRot: i % 5, SigAlg: i % 3,
	}
	b := world.Build(s)
	e := &poolEntry{Kind: kindCert, Parsable: true, Entry: b.Entry(), Extra: b.ExtraData(), Cert: b.Leaf.DER}
	if s.Precert {
		e.Kind = kindPrecert
	}
	if i%6 == 5 || i%12 == 2 { // i%6==5: damaged precertificate entries (odd i); i%12==2: damaged certificates (even i)
		e.Parsable = false
		tagBytes := make([]byte, 4)
		binary.BigEndian.PutUint32(tagBytes, uint32(i))
		switch e.Kind {
		case kindCert:
			var g []byte
			switch (i / 12) % 3 {
			case 0:
				g = append([]byte{0xde, 0xad, 0xbe, 0xef}, tagBytes...)
			case 1:
				g = derx.Seq(derx.Seq(derx.Octets(append([]byte("not a certificate "), tagBytes...))))
			default:
				g = append(append([]byte{}, e.Entry.Cert[:len(e.Entry.Cert)-19]...), tagBytes...) // truncated real certificate
			}
			e.Entry = rfc6962.Entry{Type: rfc6962.X509Entry, Cert: g}
			e.Cert, e.LeafBad = g, true
		case kindPrecert:
			switch (i / 6) % 3 {
			case 0: // TBSCertificate in the leaf is garbage, submitted precertificate intact
				e.Entry = rfc6962.Entry{Type: rfc6962.PrecertEntry, TBS: append([]byte{0x30, 0x82, 0xff}, tagBytes...), IssuerKeyHash: e.Entry.IssuerKeyHash}
				e.LeafBad = true
			case 1: // the submitted precertificate inside extra_data is garbage
				g := append([]byte("garbage precert "), tagBytes...)
				x, err := rfc6962.EncodePrecertChainEntry(g, b.Full[1:])
				if err != nil {
					panic(err)
				}
				e.Extra, e.Cert = x, g
			default: // both
				g := append(append([]byte{}, b.Leaf.DER[:len(b.Leaf.DER)/2]...), tagBytes...)
				x, err := rfc6962.EncodePrecertChainEntry(g, b.Full[1:])
				if err != nil {
					panic(err)
				}
				e.Extra, e.Cert = x, g
				e.Entry = rfc6962.Entry{Type: rfc6962.PrecertEntry, TBS: append([]byte{0x04, 0x03, 1, 2, 3}, tagBytes...), IssuerKeyHash: sha256.Sum256([]byte(fmt.Sprint("issuer", i)))}
				e.LeafBad = true
			}
		}
	}
	pool[i] = e
	return e
}

// truth is what the oracle knows about one index of the source log.
type truth struct {
	Member   int
	Kind     int
	Parsable bool
	LeafBad  bool
	Leaf     []byte // leaf_input
	Extra    []byte // extra_data
	Cert     []byte
}

// buildSource lays pool members out over n indices. dupMod == 0: all members distinct (n <= poolSize);
// dupMod > 0: index i carries the member of index i % dupMod (the log contains repeated certificates);
// sameTS additionally repeats the timestamp, so whole leaves are byte-identical at different indices.
func buildSource(n, seed, dupMod int, sameTS bool) []truth {
	if seed < 0 {
		seed = -seed
	}
	out := make([]truth, n)
	for i := 0; i < n; i++ {
		j := i
		if dupMod > 0 {
			j = i % dupMod
		}
		m := (seed + j) % poolSize
		pe := member(m)
		ts := t0 + uint64(i)
		if dupMod > 0 && sameTS {
			ts = t0 + uint64(j)
		}
		leaf, err := rfc6962.EncodeLeaf(rfc6962.Leaf{Timestamp: ts, Entry: pe.Entry})
		if err != nil {
			panic(err)
		}
		out[i] = truth{Member: m, Kind: pe.Kind, Parsable: pe.Parsable, LeafBad: pe.LeafBad, Leaf: leaf, Extra: pe.Extra, Cert: pe.Cert}
	}
	return out
}

var bigBlob = func() []byte {
	b := make([]byte, 1200<<10)
	x := uint32(20)
	for i := range b {
		x = x*1664525 + 1013904223
		b[i] = byte(x >> 24)
	}
	return b
}()

// inflate gives n entries from index at on an extra_data of about kb KiB: one more (opaque) certificate is
// appended to the chain. The structure stays well-formed; leaf_input and the certificate are untouched.
// A handful of such entries in one batch exceed gRPC's default message limit.
func inflate(tr []truth, at, n, kb int) {
	for i := at; i < at+n && i < len(tr); i++ {
		blob := append([]byte{byte(i), byte(i >> 8)}, bigBlob[:kb<<10]...)
		var x []byte
		var err error
		if tr[i].Kind == kindPrecert {
			pre, chain, _, e := rfc6962.DecodePrecertChainEntry(tr[i].Extra)
			if e != nil {
				panic(e)
			}
			x, err = rfc6962.EncodePrecertChainEntry(pre, append(chain, blob))
		} else {
			chain, _, e := rfc6962.DecodeChain(tr[i].Extra)
			if e != nil {
				panic(e)
			}
			x, err = rfc6962.EncodeChain(append(chain, blob))
		}
		if err != nil {
			panic(err)
		}
		tr[i].Extra = x
	}
}

// identity recomputes the configured identity hash from the oracle's knowledge (not from the parsers
// of the repository): 1 = SHA256_CERT_DATA, 2 = SHA256_LEAF_INDEX (SHA-256 of the index as 8
// little-endian bytes, as configpb documents "hash of the leaf index" and trillian.go fixes the width).
func identity(idFunc int, index int64, tr *truth) []byte {
	if idFunc == 2 {
		var b [8]byte
		binary.LittleEndian.PutUint64(b[:], uint64(index))
		h := sha256.Sum256(b[:])
		return h[:]
	}
	h := sha256.Sum256(tr.Cert)
	return h[:]
}
