package c20

import (
	"bytes"
	"context"
	"crypto/sha256"
	"encoding/json"
	"fmt"
	"net/http"
	"strconv"
	"sync"
	"testing"
	"time"

	"github.com/google/certificate-transparency-go/client"
	"github.com/google/certificate-transparency-go/jsonclient"
	"github.com/google/certificate-transparency-go/trillian/migrillian/configpb"
	"github.com/google/certificate-transparency-go/trillian/migrillian/core"
	"github.com/google/trillian"
	"github.com/google/trillian/crypto/keyspb"
	"github.com/google/trillian/monitoring"
	"github.com/google/trillian/types"
	"github.com/google/trillian/util/election2"
	"google.golang.org/grpc"
	"pgregory.net/rapid"

	"verif/internal/harness"
	"verif/internal/vt"
)

// HiCase: the tail of a very large source log. The source serves only the windows [Base, Base+N) and,
// with Second, [Base+2^32, Base+2^32+N) (an STH of that size, signed; entries of the window); the
// destination is an empty recording PREORDERED_LOG, so no consistency proof is due. One one-shot
// controller run per window (StartIndex = window base, EndIndex 0), both into the same destination.
type HiCase struct {
	Base       int64
	N          int
	IDFunc     int
	Batch      int
	Fetchers   int
	Submitters int
	Second     bool
	Seed       int
}

const ruleHigh = "core.Controller.RunWhenMaster one-shot from StartIndex = base, base drawn around 0, 2^31, 2^32, 2^33, 2^40, 2^62: the source serves a signed STH of size base+n (n 1-12) and the entries of [base, base+n); optionally a second run for the window 2^32 further on into the same (empty, recording) destination; both identity functions, batch 1-8, 1-3 fetchers, 1-3 submitters. Every leaf must be written under its index with the source's bytes and the configured identity hash (SHA256 of the index as 8 little-endian bytes / of the certificate data), and no two indices may share an identity hash. Non-trivial: the window reaches 2^32 or beyond"

var High = harness.Define(harness.Opts{Name: "highidx", Rule: ruleHigh, Quick: 60, Thorough: 400}, genHigh, checkHigh)

func genHigh(t *rapid.T) HiCase {
	c := HiCase{
		N:          rapid.IntRange(1, 12).Draw(t, "n"),
		IDFunc:     rapid.SampledFrom([]int{2, 2, 1}).Draw(t, "idfunc"),
		Batch:      rapid.IntRange(1, 8).Draw(t, "batch"),
		Fetchers:   rapid.IntRange(1, 3).Draw(t, "fetchers"),
		Submitters: rapid.IntRange(1, 3).Draw(t, "submitters"),
		Second:     rapid.Bool().Draw(t, "second"),
		Seed:       rapid.IntRange(0, 95).Draw(t, "seed"),
	}
	k := int64(rapid.IntRange(0, 20).Draw(t, "k"))
	switch rapid.IntRange(0, 7).Draw(t, "base") {
	case 0:
		c.Base = k
	case 1:
		c.Base = 1<<31 - k
	case 2:
		c.Base = 1<<32 - k
	case 3:
		c.Base = 1<<32 + k
	case 4:
		c.Base = 1<<33 + k
	case 5:
		c.Base = 1<<40 - k
	case 6:
		c.Base = 1<<62 - 40 + k
	default:
		c.Base = rapid.Int64Range(0, 1<<62).Draw(t, "anybase")
	}
	return c
}

type hiSource struct {
	base int64
	tr   []truth
	mu   sync.Mutex
	bad  []string
}

func (s *hiSource) RoundTrip(req *http.Request) (*http.Response, error) {
	q := req.URL.Query()
	switch req.URL.Path {
	case "/log20/ct/v1/get-sth":
		key := srcKey(0)
		size := uint64(s.base) + uint64(len(s.tr))
		ts := t0 + uint64(len(s.tr))
		var root [32]byte
		copy(root[:], bytes.Repeat([]byte{0x5a}, 32))
		b, _ := json.Marshal(map[string]any{"tree_size": size, "timestamp": ts, "sha256_root_hash": b64(root[:]), "tree_head_signature": b64(signSTH(key, ts, size, root))})
		return httpRsp(req, 200, b, nil), nil
	case "/log20/ct/v1/get-entries":
		start, e1 := strconv.ParseInt(q.Get("start"), 10, 64)
		end, e2 := strconv.ParseInt(q.Get("end"), 10, 64)
		if e1 != nil || e2 != nil || start < s.base || end < start || start >= s.base+int64(len(s.tr)) {
			s.mu.Lock()
			s.bad = append(s.bad, req.URL.RawQuery)
			s.mu.Unlock()
			return httpRsp(req, 400, []byte("bad parameters"), nil), nil
		}
		type je struct {
			LeafInput string `json:"leaf_input"`
			ExtraData string `json:"extra_data"`
		}
		var out []je
		for i := start; i <= end && i < s.base+int64(len(s.tr)); i++ {
			w := &s.tr[i-s.base]
			out = append(out, je{b64(w.Leaf), b64(w.Extra)})
		}
		b, _ := json.Marshal(map[string]any{"entries": out})
		return httpRsp(req, 200, b, nil), nil
	}
	s.mu.Lock()
	s.bad = append(s.bad, req.URL.String())
	s.mu.Unlock()
	return httpRsp(req, 404, []byte("not found"), nil), nil
}

// hiDest is an empty PREORDERED_LOG that records what is written to it.
type hiDest struct {
	trillian.TrillianLogClient
	mu     sync.Mutex
	leaves []*trillian.LogLeaf
}

func (d *hiDest) GetLatestSignedLogRoot(ctx context.Context, in *trillian.GetLatestSignedLogRootRequest, opts ...grpc.CallOption) (*trillian.GetLatestSignedLogRootResponse, error) {
	empty := sha256.Sum256(nil)
	r := types.LogRootV1{TreeSize: 0, RootHash: empty[:], TimestampNanos: t0 * 1e6}
	b, err := r.MarshalBinary()
	if err != nil {
		return nil, err
	}
	return &trillian.GetLatestSignedLogRootResponse{SignedLogRoot: &trillian.SignedLogRoot{LogRoot: b}}, nil
}

func (d *hiDest) AddSequencedLeaves(ctx context.Context, in *trillian.AddSequencedLeavesRequest, opts ...grpc.CallOption) (*trillian.AddSequencedLeavesResponse, error) {
	d.mu.Lock()
	defer d.mu.Unlock()
	rsp := &trillian.AddSequencedLeavesResponse{}
	for _, l := range in.Leaves {
		d.leaves = append(d.leaves, l)
		rsp.Results = append(rsp.Results, &trillian.QueuedLogLeaf{Leaf: l})
	}
	return rsp, nil
}

func checkHigh(t *testing.T, c HiCase) (v harness.Verdict) {
	n := c.N
	all := buildSource(2*n, c.Seed, 0, false)
	type window struct {
		base int64
		tr   []truth
	}
	ws := []window{{c.Base, all[:n]}}
	if c.Second {
		ws = append(ws, window{c.Base + 1<<32, all[n:]})
	}
	v.NonTrivial = ws[len(ws)-1].base+int64(n) > 1<<32
	v.Class(fmt.Sprintf("idfunc-%d", c.IDFunc))
	if v.NonTrivial {
		v.Class("beyond-2^32")
	}
	d := &hiDest{}
	var errs, bad []string
	var setupErr string
	res := vt.Run(t, 24*time.Hour, func(ctx context.Context) {
		for _, w := range ws {
			src := &hiSource{base: w.base, tr: w.tr}
			cfg := &configpb.MigrationConfig{
				SourceUri: srcURI, PublicKey: &keyspb.PublicKey{Der: srcKey(0).SPKI}, LogId: treeID,
				BatchSize: int32(c.Batch), StartIndex: w.base, EndIndex: 0,
				NumFetchers: int32(c.Fetchers), NumSubmitters: int32(c.Submitters), ChannelSize: 2,
				IdentityFunction: configpb.IdentityFunction(c.IDFunc),
			}
			if err := core.ValidateMigrationConfig(cfg); err != nil {
				setupErr = fmt.Sprintf("ValidateMigrationConfig refused a valid configuration: %v", err)
				return
			}
			hc := &http.Client{Transport: src, Timeout: 10 * time.Second}
			lc, err := client.New(cfg.SourceUri, hc, jsonclient.Options{PublicKeyDER: cfg.PublicKey.Der, Logger: nopLogger{}})
			if err != nil {
				setupErr = fmt.Sprintf("client.New: %v", err)
				return
			}
			tree := &trillian.Tree{TreeId: cfg.LogId, TreeType: trillian.TreeType_PREORDERED_LOG}
			plc, err := core.NewPreorderedLogClient(d, tree, cfg.IdentityFunction, "c20hi")
			if err != nil {
				setupErr = fmt.Sprintf("NewPreorderedLogClient: %v", err)
				return
			}
			ctrl := core.NewController(core.OptionsFromConfig(cfg), lc, plc, election2.NoopFactory{}, monitoring.InertMetricFactory{})
			if err := ctrl.RunWhenMaster(ctx); err != nil {
				errs = append(errs, fmt.Sprintf("window at %d: %v", w.base, err))
			}
			hc.CloseIdleConnections()
			src.mu.Lock()
			bad = append(bad, src.bad...)
			src.mu.Unlock()
		}
	})
	if setupErr != "" {
		v.Failf("harness-setup", "%s", setupErr)
		return v
	}
	if res.TimedOut {
		v.Failf("high-index-run-hangs", "one-shot run from start index %d over %d entries did not return within 24 virtual hours", c.Base, n)
		return v
	}
	if len(errs) > 0 {
		v.Failf("high-index-run-fails", "fault-free one-shot run against an empty destination failed: %v", errs)
	}
	if len(bad) > 0 {
		v.Failf("high-index-stray-request", "requests outside the configured range / API: %v", bad)
	}
	find := func(idx int64) *truth {
		for _, w := range ws {
			if idx >= w.base && idx < w.base+int64(n) {
				return &w.tr[idx-w.base]
			}
		}
		return nil
	}
	d.mu.Lock()
	defer d.mu.Unlock()
	written := map[int64]bool{}
	byHash := map[string]int64{}
	for _, l := range d.leaves {
		idx := l.LeafIndex
		w := find(idx)
		if w == nil {
			v.Failf("high-index-outside-range", "leaf written at index %d, outside the configured windows (base %d, n %d)", idx, c.Base, n)
			continue
		}
		written[idx] = true
		if !bytes.Equal(l.LeafValue, w.Leaf) || !bytes.Equal(l.ExtraData, w.Extra) {
			v.Failf("high-index-wrong-leaf", "index %d written with other bytes than the source's leaf_input / extra_data", idx)
		}
		if want := identity(c.IDFunc, idx, w); !bytes.Equal(l.LeafIdentityHash, want) {
			v.Failf("identity-hash-mismatch", "index %d written with identity hash %x, identity function %d demands %x", idx, l.LeafIdentityHash, c.IDFunc, want)
		}
		if prev, ok := byHash[string(l.LeafIdentityHash)]; ok && prev != idx {
			v.Failf("identity-hash-collision", "indices %d and %d (different leaves) written with the same identity hash %x", prev, idx, l.LeafIdentityHash)
		}
		byHash[string(l.LeafIdentityHash)] = idx
	}
	if len(errs) == 0 {
		for _, w := range ws {
			for i := int64(0); i < int64(n); i++ {
				if !written[w.base+i] {
					v.Failf("high-index-not-written", "run returned nil but index %d of [%d, %d) was never written", w.base+i, w.base, w.base+int64(n))
				}
			}
		}
	}
	v.Sample = c
	return v
}
