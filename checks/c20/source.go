package c20

import (
	"bytes"
	"context"
	"crypto"
	"crypto/rand"
	"crypto/rsa"
	"crypto/sha256"
	"encoding/base64"
	"encoding/json"
	"errors"
	"fmt"
	"io"
	"net"
	"net/http"
	"strconv"
	"sync"
	"time"

	"github.com/google/trillian"
	"github.com/google/trillian/types"

	"verif/internal/keys"
	"verif/internal/reflog"
	"verif/internal/rfc6962"
	"verif/internal/vt"
)

const srcURI = "https://source.verif.example/log20"

func srcKey(i int) *keys.Key {
	switch i {
	case 1:
		return keys.Pick("rsa2048", 3)
	case 2:
		return keys.Pick("p256", 11)
	case 3:
		return keys.Pick("rsa3072", 0)
	}
	return keys.Pick("p256", 4)
}

// signDS signs a digitally-signed input with SHA-256 and the key's algorithm (RFC 5246 s7.4.1.4.1 codes).
func signDS(k *keys.Key, in []byte) []byte {
	h := sha256.Sum256(in)
	var sig []byte
	var err error
	alg := uint8(3) // ecdsa
	if _, ok := k.Pub.(*rsa.PublicKey); ok {
		alg = 1
		sig, err = rsa.SignPKCS1v15(rand.Reader, k.Signer.(*rsa.PrivateKey), crypto.SHA256, h[:])
	} else {
		sig, err = k.Signer.Sign(rand.Reader, h[:], crypto.SHA256)
	}
	if err != nil {
		panic(err)
	}
	out, err := rfc6962.EncodeDS(rfc6962.DigitallySigned{Hash: 4, Sig: alg, Signature: sig})
	if err != nil {
		panic(err)
	}
	return out
}

var (
	sigMu    sync.Mutex
	sigCache = map[string][]byte{}
)

func signSTH(k *keys.Key, ts, size uint64, root [32]byte) []byte {
	in, err := rfc6962.STHSignatureInput(0, ts, size, root)
	if err != nil {
		panic(err)
	}
	key := k.Name + string(in)
	sigMu.Lock()
	defer sigMu.Unlock()
	if s, ok := sigCache[key]; ok {
		return s
	}
	if len(sigCache) > 20000 {
		sigCache = map[string][]byte{}
	}
	s := signDS(k, in)
	sigCache[key] = s
	return s
}

// ev is one observation of the run (source side, destination side or harness action), in arrival order.
type ev struct {
	T    time.Duration // virtual instant since the bubble began
	Pass int
	Kind string // "sth" "cons" "entries" "root" "add" "cancel" "grant" "revoke" "integrate"
	// source
	Fault        int
	Size         int   // sth: tree size announced (genuine ones only); root: destination root size; integrate: new size
	First        int64 // cons: first; entries: start; add: first leaf index
	Second       int64 // cons: second; entries: end
	Served       int   // entries: how many were returned; add: number of leaves
	Status       int   // HTTP status answered (0: transport error) / gRPC code of the add reply
	RootOK       bool  // root: the destination root is a genuine prefix root of the source
	Digest       [32]byte
	CallIdx      int // add: index into the recorder's AddSequencedLeaves call list
	Short        bool
	BeyondSTH    bool // entries: start index not covered by any genuine STH handed out so far
	CancelReason string
}

type recorder struct {
	mu    sync.Mutex
	start time.Time
	pass  int
	evs   []ev
	// stagnation guard: source requests / fetchTail rounds since the run last made progress (a scripted
	// fault was consumed, a new index reached the destination, the source grew, the sequencer advanced, a
	// scheduled cancellation or mastership change happened). All of these are finite, so a run that goes
	// on for ever eventually stagnates; virtual time alone (a few ms per round) cannot end such a loop.
	idleReqs  int
	idleTails int
	idleBytes int // get-entries payload served since the last progress
	tripped   bool
}

const (
	idleReqLimit  = 25000
	idleTailLimit = 1500
	idleByteLimit = 48 << 20
)

func (r *recorder) progress() { r.mu.Lock(); r.idleReqs, r.idleTails, r.idleBytes = 0, 0, 0; r.mu.Unlock() }

func (r *recorder) served(n int) { r.mu.Lock(); r.idleBytes += n; r.mu.Unlock() }

// idle counts one more request / round without progress; it reports (limit passed, first time, hopeless).
func (r *recorder) idle(tail bool) (over, first, dead bool) {
	r.mu.Lock()
	defer r.mu.Unlock()
	if tail {
		r.idleTails++
	} else {
		r.idleReqs++
	}
	over = r.idleReqs > idleReqLimit || r.idleTails > idleTailLimit || r.idleBytes > idleByteLimit
	first = over && !r.tripped
	if over {
		r.tripped = true
	}
	dead = r.idleReqs > 3*idleReqLimit || r.idleTails > 3*idleTailLimit || r.idleBytes > 3*idleByteLimit
	return
}

func (r *recorder) add(e ev) {
	r.mu.Lock()
	e.T = time.Since(r.start)
	e.Pass = r.pass
	r.evs = append(r.evs, e)
	switch {
	case e.Kind == "cancel" || e.Kind == "grant" || e.Kind == "revoke":
		r.idleReqs, r.idleTails, r.idleBytes = 0, 0, 0
	case (e.Kind == "sth" || e.Kind == "cons" || e.Kind == "entries") && e.Fault != fNone:
		r.idleReqs, r.idleTails, r.idleBytes = 0, 0, 0
	case e.Kind == "add" && e.Status != 0:
		r.idleReqs, r.idleTails, r.idleBytes = 0, 0, 0
	}
	r.mu.Unlock()
}

func (r *recorder) setPass(p int) { r.mu.Lock(); r.pass = p; r.mu.Unlock() }


// source is the scripted RFC 6962 log: a reference log (internal/reflog) holding the leaves announced
// so far, served through the three read endpoints Migrillian uses. Every decision is a function of the
// Case and of request counters; every fault burst is finite.
type source struct {
	c     *Case
	truth []truth
	key   *keys.Key
	other *keys.Key
	log   *reflog.Log
	rec   *recorder
	abort func(reason string) // cancels the whole run (request storm)

	mu        sync.Mutex
	loaded    int // leaves appended to log so far
	published bool
	sthReqs   int
	consReqs  int
	genuine   int // genuine STHs handed out
	maxSTH    int // largest genuine tree size handed out (-1: none)
	servable  int // largest tree size any answer (genuine or forged) has spoken of: the log serves up to here
	perStart  map[int64]int
}

func newSource(c *Case, tr []truth, rec *recorder, abort func(string)) *source {
	s := &source{c: c, truth: tr, key: srcKey(c.SrcKey), other: srcKey((c.SrcKey + 2) % 4), rec: rec, abort: abort, maxSTH: -1, servable: -1, perStart: map[int64]int{}}
	s.log = reflog.New(1, uint64(t0)*1e6)
	return s
}

// grow makes the reference log hold exactly n leaves (monotone) and publishes its root.
func (s *source) grow(n int) {
	if n <= s.loaded && s.published {
		return
	}
	s.published = true
	for i := s.loaded; i < n; i++ {
		s.log.AppendRaw(s.truth[i].Leaf, s.truth[i].Extra)
	}
	s.loaded = n
	s.log.Publish((t0 + uint64(n)) * 1e6)
}

type brokenBody struct {
	head []byte
	off  int
}

func (b *brokenBody) Read(p []byte) (int, error) {
	if b.off < len(b.head) {
		n := copy(p, b.head[b.off:])
		b.off += n
		return n, nil
	}
	return 0, io.ErrUnexpectedEOF
}
func (b *brokenBody) Close() error { return nil }

func httpRsp(req *http.Request, status int, body []byte, hdr map[string]string) *http.Response {
	h := http.Header{"Content-Type": {"application/json"}}
	for k, v := range hdr {
		h.Set(k, v)
	}
	return &http.Response{Status: fmt.Sprintf("%d %s", status, http.StatusText(status)), StatusCode: status, Proto: "HTTP/1.1", ProtoMajor: 1, ProtoMinor: 1,
		Header: h, Body: io.NopCloser(bytes.NewReader(body)), ContentLength: int64(len(body)), Request: req}
}

// fault serves one scripted fault; status 0 means a transport-level failure.
func (s *source) fault(req *http.Request, kind int, good []byte) (*http.Response, error, int) {
	switch kind {
	case f429:
		return httpRsp(req, 429, []byte("slow down"), map[string]string{"Retry-After": "7"}), nil, 429
	case f503:
		return httpRsp(req, 503, []byte("busy"), nil), nil, 503
	case f500:
		return httpRsp(req, 500, []byte("oops"), nil), nil, 500
	case fNet:
		return nil, &net.OpError{Op: "dial", Net: "tcp", Err: errors.New("connect: connection refused")}, 0
	case fBody:
		r := httpRsp(req, 200, nil, nil)
		r.Body = &brokenBody{head: good[:len(good)/2]}
		r.ContentLength = int64(len(good))
		return r, nil, 200
	case fJSON:
		return httpRsp(req, 200, []byte("<html>maintenance</html>"), nil), nil, 200
	}
	panic("c20: unknown fault kind")
}

// slow never answers: the client's 10 s timeout (or the cancellation of the pass) ends the wait.
func (s *source) slow(ctx context.Context, e ev) (*http.Response, error) {
	s.rec.add(e)
	<-ctx.Done()
	return nil, ctx.Err()
}

func b64(b []byte) string { return base64.StdEncoding.EncodeToString(b) }

func (s *source) RoundTrip(req *http.Request) (*http.Response, error) {
	ctx := req.Context()
	if over, first, dead := s.rec.idle(false); over {
		if first {
			s.abort("request-storm")
		}
		if dead {
			panic("c20: request storm does not end after cancellation")
		}
		return nil, context.Canceled
	}
	q := req.URL.Query()
	switch req.URL.Path {
	case "/log20/ct/v1/get-sth":
		return s.getSTH(ctx, req)
	case "/log20/ct/v1/get-sth-consistency":
		first, e1 := strconv.ParseInt(q.Get("first"), 10, 64)
		second, e2 := strconv.ParseInt(q.Get("second"), 10, 64)
		if e1 != nil || e2 != nil {
			return httpRsp(req, 400, []byte("bad parameters"), nil), nil
		}
		return s.getConsistency(ctx, req, first, second)
	case "/log20/ct/v1/get-entries":
		start, e1 := strconv.ParseInt(q.Get("start"), 10, 64)
		end, e2 := strconv.ParseInt(q.Get("end"), 10, 64)
		if e1 != nil || e2 != nil {
			return httpRsp(req, 400, []byte("bad parameters"), nil), nil
		}
		return s.getEntries(ctx, req, start, end)
	}
	s.rec.add(ev{Kind: "stray", Status: 404, CancelReason: req.URL.String()})
	return httpRsp(req, 404, []byte("not found"), nil), nil
}

func (s *source) root() types.LogRootV1 {
	rsp, err := s.log.GetLatestSignedLogRoot(context.Background(), &trillian.GetLatestSignedLogRootRequest{LogId: 1})
	if err != nil {
		panic(err)
	}
	var r types.LogRootV1
	if err := r.UnmarshalBinary(rsp.SignedLogRoot.LogRoot); err != nil {
		panic(err)
	}
	return r
}

func (s *source) getSTH(ctx context.Context, req *http.Request) (*http.Response, error) {
	s.mu.Lock()
	n := s.sthReqs
	s.sthReqs++
	kind := fNone
	if n < len(s.c.STHFaults) {
		kind = s.c.STHFaults[n]
	}
	s.mu.Unlock()
	if kind == fSlow {
		return s.slow(ctx, ev{Kind: "sth", Fault: kind, Size: -1})
	}
	if !vt.Sleep(ctx, time.Duration(s.c.STHLatMs)*time.Millisecond) {
		return nil, ctx.Err()
	}
	s.mu.Lock()
	defer s.mu.Unlock()
	// what a genuine answer would be now
	g := s.genuine
	if g >= len(s.c.Sizes) {
		g = len(s.c.Sizes) - 1
	}
	size := s.c.Sizes[g]
	if size < s.maxSTH {
		size = s.maxSTH
	}
	mk := func(size uint64, ts uint64, root [32]byte, key *keys.Key) []byte {
		b, _ := json.Marshal(map[string]any{"tree_size": size, "timestamp": ts, "sha256_root_hash": b64(root[:]), "tree_head_signature": b64(signSTH(key, ts, size, root))})
		return b
	}
	switch kind {
	case fNone:
		s.grow(size)
		root := s.log.Tree().Root(size) // the log may already hold more (a forged head spoke of its future)
		body := mk(uint64(size), t0+uint64(size), [32]byte(root), s.key)
		s.genuine++
		if size > s.maxSTH {
			s.rec.progress()
		}
		s.maxSTH = size
		if size > s.servable {
			s.servable = size
		}
		s.rec.add(ev{Kind: "sth", Size: size, Status: 200})
		return httpRsp(req, 200, body, nil), nil
	case fSpecial:
		// a forged head the client must refuse. Even requests: the log's true future tree (entries it really
		// holds and will serve) under a signature by another key - or, when the history has no future, a
		// bigger tree under an invented root; odd requests: a genuine signature, but made over a smaller tree.
		cur := s.loaded
		var body []byte
		if future := min(cur+17, len(s.truth)); n%2 == 0 && future > cur {
			s.grow(future)
			r := s.root()
			var root [32]byte
			copy(root[:], r.RootHash)
			body = mk(r.TreeSize, r.TimestampNanos/1e6, root, s.other)
			if future > s.servable {
				s.servable = future
			}
		} else {
			r := s.root()
			var root [32]byte
			copy(root[:], r.RootHash)
			if n%2 == 0 {
				fake := sha256.Sum256(append([]byte("forged"), root[:]...))
				body = mk(r.TreeSize+17, r.TimestampNanos/1e6+1, fake, s.other)
			} else {
				b, _ := json.Marshal(map[string]any{"tree_size": r.TreeSize + 5, "timestamp": r.TimestampNanos / 1e6, "sha256_root_hash": b64(root[:]),
					"tree_head_signature": b64(signSTH(s.key, r.TimestampNanos/1e6, r.TreeSize, root))})
				body = b
			}
		}
		s.rec.add(ev{Kind: "sth", Fault: kind, Size: -1, Status: 200})
		return httpRsp(req, 200, body, nil), nil
	}
	rsp, err, st := s.fault(req, kind, []byte(`{"tree_size":1,"timestamp":1,"sha256_root_hash":"AAAAAAAAAAAAAAAAAAAAAAAAAAAAAAAAAAAAAAAAAAA=","tree_head_signature":"BAMA"}`))
	s.rec.add(ev{Kind: "sth", Fault: kind, Size: -1, Status: st})
	return rsp, err
}

func (s *source) getConsistency(ctx context.Context, req *http.Request, first, second int64) (*http.Response, error) {
	s.mu.Lock()
	n := s.consReqs
	s.consReqs++
	kind := fNone
	if n < len(s.c.ConsFaults) {
		kind = s.c.ConsFaults[n]
	}
	s.mu.Unlock()
	if kind == fSlow {
		return s.slow(ctx, ev{Kind: "cons", Fault: kind, First: first, Second: second})
	}
	if !vt.Sleep(ctx, time.Duration(s.c.ConsLatMs)*time.Millisecond) {
		return nil, ctx.Err()
	}
	s.mu.Lock()
	defer s.mu.Unlock()
	if first < 0 || second < first || second > int64(s.servable) {
		s.rec.add(ev{Kind: "cons", First: first, Second: second, Status: 400})
		return httpRsp(req, 400, []byte("impossible tree sizes"), nil), nil
	}
	var hashes [][]byte
	if first > 0 && first < second {
		rsp, err := s.log.GetConsistencyProof(context.Background(), &trillian.GetConsistencyProofRequest{LogId: 1, FirstTreeSize: first, SecondTreeSize: second})
		if err != nil || rsp.Proof == nil {
			panic(fmt.Sprintf("c20: reference consistency proof %d %d: %v", first, second, err))
		}
		hashes = rsp.Proof.Hashes
	}
	enc := func(hs [][]byte) []byte {
		l := make([]string, len(hs))
		for i, h := range hs {
			l[i] = b64(h)
		}
		b, _ := json.Marshal(map[string]any{"consistency": l})
		return b
	}
	switch kind {
	case fNone:
		s.rec.add(ev{Kind: "cons", First: first, Second: second, Status: 200})
		return httpRsp(req, 200, enc(hashes), nil), nil
	case fSpecial:
		bad := make([][]byte, len(hashes))
		for i := range hashes {
			bad[i] = append([]byte{}, hashes[i]...)
		}
		if len(bad) == 0 {
			x := sha256.Sum256([]byte("bogus"))
			bad = append(bad, x[:])
		} else {
			bad[n%len(bad)][n%32] ^= 0x40
		}
		s.rec.add(ev{Kind: "cons", Fault: kind, First: first, Second: second, Status: 200})
		return httpRsp(req, 200, enc(bad), nil), nil
	}
	rsp, err, st := s.fault(req, kind, enc(hashes))
	s.rec.add(ev{Kind: "cons", Fault: kind, First: first, Second: second, Status: st})
	return rsp, err
}

func (s *source) getEntries(ctx context.Context, req *http.Request, start, end int64) (*http.Response, error) {
	s.mu.Lock()
	n := s.perStart[start]
	s.perStart[start] = n + 1
	p := s.c.Plans[int(uint64(start)%uint64(len(s.c.Plans)))]
	s.mu.Unlock()
	kind := fNone
	if n < len(p.Errs) {
		kind = p.Errs[n]
	}
	lat := p.LatMs
	if kind != fNone && lat > 50 {
		lat = 50
	}
	if kind == fSlow {
		return s.slow(ctx, ev{Kind: "entries", Fault: kind, First: start, Second: end})
	}
	if !vt.Sleep(ctx, time.Duration(lat)*time.Millisecond) {
		return nil, ctx.Err()
	}
	s.mu.Lock()
	defer s.mu.Unlock()
	beyond := start >= int64(s.maxSTH) // not covered by any head the client could have verified
	if start < 0 || end < start || start >= int64(s.servable) {
		// RFC 6962 s4.6: nothing to return for a range outside the tree the log has spoken of
		s.rec.add(ev{Kind: "entries", First: start, Second: end, Status: 400, BeyondSTH: beyond})
		return httpRsp(req, 400, []byte("range outside the tree"), nil), nil
	}
	rsp, err := s.log.GetLeavesByRange(context.Background(), &trillian.GetLeavesByRangeRequest{LogId: 1, StartIndex: start, Count: end - start + 1})
	if err != nil {
		panic(fmt.Sprintf("c20: reference get-entries %d %d: %v", start, end, err))
	}
	leaves := rsp.Leaves
	asked := int(end - start + 1)
	if int64(asked) > int64(s.servable)-start {
		asked = s.servable - int(start)
	}
	if len(leaves) > asked {
		leaves = leaves[:asked] // never serve what no STH has announced yet
	}
	k := len(leaves)
	if p.Short > 0 {
		k = 1 + (p.Short-1)%len(leaves)
	}
	type je struct {
		LeafInput string `json:"leaf_input"`
		ExtraData string `json:"extra_data"`
	}
	out := make([]je, k)
	for i := 0; i < k; i++ {
		out[i] = je{b64(leaves[i].LeafValue), b64(leaves[i].ExtraData)}
	}
	body, _ := json.Marshal(map[string]any{"entries": out})
	if kind == fEmpty {
		s.rec.add(ev{Kind: "entries", Fault: kind, First: start, Second: end, Status: 200})
		return httpRsp(req, 200, []byte(`{"entries":[]}`), nil), nil
	}
	if kind != fNone {
		r, e, st := s.fault(req, kind, body)
		s.rec.add(ev{Kind: "entries", Fault: kind, First: start, Second: end, Status: st})
		return r, e
	}
	s.rec.served(len(body))
	s.rec.add(ev{Kind: "entries", First: start, Second: end, Served: k, Status: 200, Short: k < int(end-start+1), BeyondSTH: beyond})
	return httpRsp(req, 200, body, nil), nil
}
