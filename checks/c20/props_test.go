package c20

import (
	"testing"

	ct "github.com/google/certificate-transparency-go"
	"github.com/google/certificate-transparency-go/x509"

	"verif/internal/harness"
)

const ruleMirror = "core.Controller.RunWhenMaster (election2.NoopFactory) in a synctest bubble under -race: source = reference log of 0-200 generated RFC 6962 leaves (thorough 0-600; every sixth with an unparsable certificate / TBSCertificate / precertificate; optionally repeated certificates and byte-identical leaves) behind an in-process RFC 6962 round tripper (STHs signed with a pool key) read by a real client.LogClient, growing with every STH handed out; per-start-index finite bursts of 429 / 503 / 500 / connection / broken body / non-JSON / timeout and short reads on get-entries, scripted faults incl. forged STHs on get-sth and tampered proofs on get-sth-consistency; destination = reference PREORDERED_LOG backend, empty / prefix / complete / fork (also longer than the source), sequencer between passes and before drawn root reads, ResourceExhausted x k, fatal gRPC codes, cancellation at the n-th write or at a virtual instant; batch 1-40, 0-4 fetchers, 0-4 submitters, channel 0-8, one-shot (start -1 / 0 / any, end 0 / inside / beyond) or continuous (StopAfter or cancel), consistency check on / off, both identity functions, 1-3 process restarts. Non-trivial: a fault, cancellation or restart occurred, or the destination started non-empty"
const ruleElect = "the same domain with a scripted election2.Factory: mastership is granted and revoked at 1-5 drawn virtual instants (the last grant is kept), so Run is cancelled and re-entered inside one RunWhenMaster call"

var Mirror = harness.Define(harness.Opts{Name: "mirror", Rule: ruleMirror, Quick: 420, Thorough: 2500, Crashy: true}, genMirror, check)
var Elect = harness.Define(harness.Opts{Name: "elect", Rule: ruleElect, Quick: 200, Thorough: 1200, Crashy: true}, genElect, check)

// poolSanity guards the oracle's "by construction" knowledge with the repository's own parser: the
// intact members parse, the damaged ones do not, and every member has a well-formed leaf structure.
// A failure here is a harness problem, not a verdict.
func poolSanity(t *testing.T) {
	seenCert := map[string]int{}
	bad := 0
	for i, tr := range buildSource(96, 0, 0, false) {
		le := ct.LeafEntry{LeafInput: tr.Leaf, ExtraData: tr.Extra}
		e, err := ct.LogEntryFromLeaf(int64(i), &le)
		if !tr.Parsable {
			bad++
		}
		if !tr.LeafBad {
			if err != nil || e == nil {
				t.Fatalf("pool member %d should parse: %v", i, err)
			}
		} else if err == nil || !x509.IsFatal(err) {
			t.Fatalf("pool member %d should be unparsable (err=%v)", i, err)
		}
		r, err := ct.RawLogEntryFromLeaf(int64(i), &le)
		if err != nil || r == nil {
			t.Fatalf("pool member %d: leaf structure must decode: %v", i, err)
		}
		if j, dup := seenCert[string(tr.Cert)]; dup {
			t.Fatalf("pool members %d and %d share certificate bytes", j, i)
		}
		seenCert[string(tr.Cert)] = i
	}
	if bad < 10 {
		t.Fatalf("only %d damaged members among 96", bad)
	}
}

func TestProps(t *testing.T) {
	poolSanity(t)
	harness.Main(t, "C20", Mirror, Elect, High)
}
