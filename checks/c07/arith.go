// Package c07: get-entries serves the stored bytes for exactly the range it claims.
package c07

import (
	"crypto"
	"crypto/rand"
	"crypto/sha256"
	"encoding/base64"
	"encoding/json"
	"flag"
	"fmt"
	"math"
	"math/big"
	"net/url"
	"strconv"
	"strings"
	"testing"

	"github.com/google/certificate-transparency-go/trillian/ctfe"
	"github.com/google/certificate-transparency-go/trillian/ctfe/configpb"
	"github.com/google/trillian/crypto/keyspb"
	"github.com/google/trillian"
	"github.com/google/trillian/types"
	"google.golang.org/grpc/codes"
	"google.golang.org/grpc/status"
	"google.golang.org/protobuf/proto"
	"pgregory.net/rapid"

	"verif/internal/ctfex"
	"verif/internal/harness"
	"verif/internal/keys"
	"verif/internal/pki"
	"verif/internal/reflog"
	"verif/internal/rfc6962"
)

// ArithCase is one get-entries request against a spy backend.
type ArithCase struct {
	Start, End  string // raw parameter values
	HasStart    bool
	HasEnd      bool
	Max         int64
	Align       bool
	TreeSize    uint64 // what the backend claims
	ServeLeaves int    // how many leaves the backend returns at most (short read), >= 1
	Metrics     bool   // process option --getentries_metrics
	Frozen      bool   // the log is configured with a frozen STH whose tree size is the size the backend claims (get-entries is served as for any other log)
	Shift       int    // > 0: the backend's reply is an unbroken run of leaves that starts Shift indices after the one asked for (a damaged read)
	QuotaFaults int    // the backend answers that many range requests with ResourceExhausted before it serves one
	QStyle      int    // spelling of the query string: 0 canonical, 1 every value octet percent-encoded with unknown parameters around, 2 reverse order between empty pairs
}

var maxChoices = []int64{1, 2, 3, 7, 256, 1000, math.MaxInt32, 1 << 62, math.MaxInt64}

func genInt64Near(t *rapid.T, max int64, label string) int64 {
	m := big.NewInt(max)
	anchors := []*big.Int{big.NewInt(0), big.NewInt(1), m, new(big.Int).Mul(m, big.NewInt(2)), new(big.Int).Mul(m, big.NewInt(int64(rapid.IntRange(0, 1000).Draw(t, label+"k")))),
		big.NewInt(1 << 31), big.NewInt(1 << 32), new(big.Int).Sub(big.NewInt(math.MaxInt64), m), big.NewInt(math.MaxInt64), big.NewInt(rapid.Int64Range(0, math.MaxInt64).Draw(t, label+"r"))}
	a := anchors[rapid.IntRange(0, len(anchors)-1).Draw(t, label+"a")]
	d := big.NewInt(rapid.Int64Range(-3, 3).Draw(t, label+"d"))
	v := new(big.Int).Add(a, d)
	if v.Sign() < 0 {
		v.SetInt64(0)
	}
	if !v.IsInt64() {
		v.SetInt64(math.MaxInt64)
	}
	return v.Int64()
}

var garbage = []string{"", "abc", "1.5", "0x10", " 1", "1 ", "9223372036854775808", "18446744073709551616", "-1", "-9223372036854775808", "1e3", "٣", "१२", "--1", "1_000", "NaN", "0b1", "+", "-", "99999999999999999999999"}

func genArith(t *rapid.T) ArithCase {
	c := ArithCase{HasStart: true, HasEnd: true}
	if rapid.IntRange(0, 9).Draw(t, "maxsmall") < 6 {
		c.Max = maxChoices[rapid.IntRange(1, 5).Draw(t, "max")]
	} else {
		c.Max = maxChoices[rapid.IntRange(0, len(maxChoices)-1).Draw(t, "max")]
	}
	c.Align = rapid.Bool().Draw(t, "align")
	start := genInt64Near(t, c.Max, "start")
	var end int64
	switch rapid.IntRange(0, 5).Draw(t, "endmode") {
	case 0: // short range after start
		d := rapid.Int64Range(0, 5).Draw(t, "len")
		if start > math.MaxInt64-d {
			end = math.MaxInt64
		} else {
			end = start + d
		}
	case 1: // around start + max
		e := new(big.Int).Add(big.NewInt(start), big.NewInt(c.Max))
		e.Add(e, big.NewInt(rapid.Int64Range(-3, 3).Draw(t, "ed")))
		if !e.IsInt64() {
			e.SetInt64(math.MaxInt64)
		}
		end = e.Int64()
		if end < 0 {
			end = 0
		}
	case 2:
		end = math.MaxInt64 - rapid.Int64Range(0, 3).Draw(t, "fromtop")
	default:
		end = genInt64Near(t, c.Max, "end")
	}
	if end < start && rapid.IntRange(0, 9).Draw(t, "fixorder") < 8 {
		start, end = end, start
	}
	c.Start, c.End = strconv.FormatInt(start, 10), strconv.FormatInt(end, 10)
	switch rapid.IntRange(0, 19).Draw(t, "shape") {
	case 0:
		c.Start = garbage[rapid.IntRange(0, len(garbage)-1).Draw(t, "gs")]
	case 1:
		c.End = garbage[rapid.IntRange(0, len(garbage)-1).Draw(t, "ge")]
	case 2:
		c.HasStart = false
	case 3:
		c.HasEnd = false
	case 4: // swapped => start > end mostly
		c.Start, c.End = c.End, c.Start
	case 5, 6: // non-canonical decimal spellings: leading zeros, a plus sign
		pads := []string{"0", "00", "000000", "+", "+0"}
		if rapid.Bool().Draw(t, "padstart") {
			c.Start = pads[rapid.IntRange(0, len(pads)-1).Draw(t, "ps")] + c.Start
		}
		if rapid.Bool().Draw(t, "padend") {
			c.End = pads[rapid.IntRange(0, len(pads)-1).Draw(t, "pe")] + c.End
		}
	}
	// tree size around start (or anywhere)
	switch rapid.IntRange(0, 9).Draw(t, "ts") {
	case 0:
		c.TreeSize = uint64(start)
	case 1, 2, 3, 4:
		c.TreeSize = uint64(start) + uint64(rapid.IntRange(1, 5).Draw(t, "tsd"))
	case 5, 6, 7:
		c.TreeSize = math.MaxUint64
	default:
		c.TreeSize = uint64(rapid.Int64Range(0, math.MaxInt64).Draw(t, "tsr"))
	}
	c.ServeLeaves = rapid.IntRange(1, 4).Draw(t, "serve")
	c.Metrics = rapid.IntRange(0, 3).Draw(t, "metrics") == 0
	if rapid.IntRange(0, 3).Draw(t, "respell") == 0 {
		c.QStyle = rapid.IntRange(1, 2).Draw(t, "qstyle")
	}
	c.Frozen = c.TreeSize < 1<<62 && rapid.IntRange(0, 4).Draw(t, "frozen") == 0
	if rapid.IntRange(0, 9).Draw(t, "shifted") == 0 {
		c.Shift = rapid.IntRange(1, 3).Draw(t, "shift")
	}
	if rapid.IntRange(0, 5).Draw(t, "quota") == 0 {
		c.QuotaFaults = rapid.IntRange(1, 4).Draw(t, "nquota")
	}
	return c
}

// classify parameter syntax: canonical decimal (value), non-canonical but numeric ("+5", "007": don't care), garbage.
func parseParam(s string, present bool) (v *big.Int, canonical, garbage bool) {
	if !present {
		return nil, false, true
	}
	if s == "" {
		return nil, false, true
	}
	body := s
	neg := false
	if body[0] == '+' || body[0] == '-' {
		neg = body[0] == '-'
		body = body[1:]
	}
	if body == "" {
		return nil, false, true
	}
	for _, r := range body {
		if r < '0' || r > '9' {
			return nil, false, true
		}
	}
	v, _ = new(big.Int).SetString(body, 10)
	if neg {
		v.Neg(v)
	}
	if !v.IsInt64() {
		return nil, false, true // out of int64 range: malformed for an int64 parameter
	}
	canonical = s == v.String()
	return v, canonical, false
}

var (
	sharedRoot = pki.Issue(nil, pki.CATemplate("C07 Root", keys.Pick("p256", 0), 1, nil), "root")
)

func setMetrics(on bool) {
	flag.Lookup("getentries_metrics").Value.Set(strconv.FormatBool(on))
}

func setAlign(on bool) {
	flag.Lookup("align_getentries").Value.Set(strconv.FormatBool(on))
}

func checkArith(t *testing.T, c ArithCase) (v harness.Verdict) {
	ctfe.MaxGetEntriesAllowed = c.Max
	setAlign(c.Align)
	setMetrics(c.Metrics)
	defer func() { ctfe.MaxGetEntriesAllowed = 1000; setAlign(true); setMetrics(false) }()
	if c.Metrics {
		v.Class("getentries-metrics-on")
	}

	be := reflog.New(6962, 1)
	var served []*trillian.LogLeaf
	shifted := false
	be.Intercept = func(call reflog.Call) (proto.Message, error, bool) {
		if call.RPC != "GetLeavesByRange" {
			return nil, nil, false
		}
		req := call.Req.(*trillian.GetLeavesByRangeRequest)
		if call.N < c.QuotaFaults {
			return nil, status.Error(codes.ResourceExhausted, "quota"), true
		}
		root := types.LogRootV1{TreeSize: c.TreeSize, RootHash: make([]byte, 32), TimestampNanos: 5}
		rb, _ := root.MarshalBinary()
		rsp := &trillian.GetLeavesByRangeResponse{SignedLogRoot: &trillian.SignedLogRoot{LogRoot: rb}}
		if req.StartIndex >= 0 && uint64(req.StartIndex) < c.TreeSize && req.Count > 0 {
			n := int64(c.ServeLeaves)
			if req.Count < n {
				n = req.Count
			}
			if avail := c.TreeSize - uint64(req.StartIndex); avail < uint64(n) {
				n = int64(avail)
			}
			for i := int64(0); i < n; i++ {
				idx := req.StartIndex + i
				if req.StartIndex <= math.MaxInt64-n-int64(c.Shift) {
					idx += int64(c.Shift)
					shifted = true
				}
				lf := &trillian.LogLeaf{LeafIndex: idx, LeafValue: []byte(fmt.Sprintf("leaf-%d", idx)), ExtraData: []byte(fmt.Sprintf("extra-%d", idx))}
				rsp.Leaves = append(rsp.Leaves, lf)
			}
		}
		served = rsp.Leaves
		return rsp, nil, true
	}
	logKey := keys.Pick("p256", 1)
	var cfgEdit func(*configpb.LogConfig)
	if c.Frozen {
		var root [32]byte
		in, _ := rfc6962.STHSignatureInput(0, 1700000000000, c.TreeSize, root)
		h := sha256.Sum256(in)
		sig, err := logKey.Signer.Sign(rand.Reader, h[:], crypto.SHA256)
		if err != nil {
			t.Fatalf("sign frozen STH: %v", err)
		}
		ds, _ := rfc6962.EncodeDS(rfc6962.DigitallySigned{Hash: 4, Sig: 3, Signature: sig})
		cfgEdit = func(cfg *configpb.LogConfig) {
			cfg.PublicKey = &keyspb.PublicKey{Der: logKey.SPKI}
			cfg.FrozenSth = &configpb.SignedTreeHead{TreeSize: int64(c.TreeSize), Timestamp: 1700000000000, Sha256RootHash: root[:], TreeHeadSignature: ds}
		}
		v.Class("frozen-sth-configured")
	}
	inst, err := ctfex.New(ctfex.Opts{LogKey: logKey, Roots: []*pki.Cert{sharedRoot}, Backend: be, Cfg: cfgEdit})
	if err != nil {
		t.Fatalf("instance: %v", err)
	}
	q := url.Values{}
	if c.HasStart {
		q.Set("start", c.Start)
	}
	if c.HasEnd {
		q.Set("end", c.End)
	}
	raw := q.Encode()
	switch c.QStyle {
	case 1:
		var parts []string
		for _, k := range []string{"start", "end"} {
			if vs, ok := q[k]; ok {
				enc := ""
				for _, b := range []byte(vs[0]) {
					enc += fmt.Sprintf("%%%02x", b)
				}
				parts = append(parts, k+"="+enc)
			}
		}
		raw = "starts=7&" + strings.Join(parts, "&") + "&ends=9&x"
		v.Class("query-percent-encoded")
	case 2:
		var parts []string
		for _, k := range []string{"end", "start"} {
			if vs, ok := q[k]; ok {
				parts = append(parts, k+"="+url.QueryEscape(vs[0]))
			}
		}
		raw = "&" + strings.Join(parts, "&&") + "&"
		v.Class("query-reordered")
	}
	rsp := inst.Get("/ct/v1/get-entries", raw)
	calls := be.CallsOf("GetLeavesByRange")
	other := be.NumCalls() - len(calls)

	sv, sCanon, sGarbage := parseParam(c.Start, c.HasStart)
	ev, eCanon, eGarbage := parseParam(c.End, c.HasEnd)
	valid := !sGarbage && !eGarbage && sv.Sign() >= 0 && ev.Sign() >= 0 && sv.Cmp(ev) <= 0
	dontCare := !sGarbage && !eGarbage && (!sCanon || !eCanon)

	if other != 0 {
		v.Failf("unexpected-rpc", "get-entries issued %d backend calls other than GetLeavesByRange", other)
	}
	refused := rsp.Status >= 400 && rsp.Status < 500 && len(calls) == 0
	if !valid || (dontCare && refused) {
		v.NonTrivial = true
		v.Class("refusal")
		if !refused {
			v.Failf("bad-request-not-refused", "start=%q(%v) end=%q(%v): status %d, %d backend calls; want 4xx and no backend call", c.Start, c.HasStart, c.End, c.HasEnd, rsp.Status, len(calls))
		}
		return v
	}
	if dontCare {
		v.Class("noncanonical-accepted")
	}
	// valid range
	span := new(big.Int).Sub(ev, sv)
	span.Add(span, big.NewInt(1))
	want := big.NewInt(c.Max)
	truncated := span.Cmp(want) > 0
	if !truncated {
		want = span
	}
	if c.QuotaFaults > 0 {
		// the backend is short of quota for a while: however the front end reacts, every request it makes must be a
		// non-empty range beginning at start and within the limits, and it must not answer 200 unless it was served
		v.NonTrivial = true
		v.Class("backend-quota-exhausted")
		if len(calls) == 0 {
			v.Failf("backend-call-count", "start=%s end=%s: no backend call, status %d", c.Start, c.End, rsp.Status)
			return v
		}
		for k, call := range calls {
			rq := call.Req.(*trillian.GetLeavesByRangeRequest)
			if rq.StartIndex != sv.Int64() || rq.Count < 1 || big.NewInt(rq.Count).Cmp(want) > 0 {
				v.Failf("range-under-quota-fault", "start=%s end=%s max=%d: backend request %d of %d (after %d quota refusals) asks start=%d count=%d, want start=%s count 1..%s", sv, ev, c.Max, k+1, len(calls), c.QuotaFaults, rq.StartIndex, rq.Count, sv, want)
			}
		}
		if len(calls) <= c.QuotaFaults {
			if rsp.Status == 200 {
				v.Failf("served-without-backend", "every backend request was refused for quota, yet the answer is 200")
			}
			return v
		}
		calls = calls[len(calls)-1:]
	}
	if len(calls) != 1 {
		v.Failf("backend-call-count", "start=%s end=%s max=%d align=%v: %d GetLeavesByRange calls, status %d", c.Start, c.End, c.Max, c.Align, len(calls), rsp.Status)
		return v
	}
	req := calls[0].Req.(*trillian.GetLeavesByRangeRequest)
	if req.StartIndex != sv.Int64() {
		v.Failf("range-start", "asked start=%s, backend request starts at %d", sv, req.StartIndex)
	}
	cnt := big.NewInt(req.Count)
	if cnt.Sign() < 1 || cnt.Cmp(want) > 0 {
		sig := "range-count"
		if req.Count < 1 && ev.Int64() == math.MaxInt64 {
			sig = "range-count-overflow"
		}
		v.Failf(sig, "start=%s end=%s max=%d align=%v: backend Count=%d, want 1..%s", sv, ev, c.Max, c.Align, req.Count, want)
	} else if !c.Align && cnt.Cmp(want) != 0 {
		v.Failf("range-count-unaligned", "start=%s end=%s max=%d alignment off: backend Count=%d, want exactly %s", sv, ev, c.Max, req.Count, want)
	}
	aligned := c.Align && cnt.Cmp(want) < 0
	nearEdge := new(big.Int).Sub(big.NewInt(math.MaxInt64), ev).Cmp(big.NewInt(c.Max)) <= 0
	v.NonTrivial = truncated || aligned || nearEdge
	if truncated {
		v.Class("truncated")
	}
	if aligned {
		v.Class("aligned-shorter")
	}
	if nearEdge {
		v.Class("near-int64-max")
	}
	// response
	if c.TreeSize <= uint64(sv.Int64()) {
		v.Class("beyond-tree")
		v.NonTrivial = true
		if rsp.Status < 400 || rsp.Status >= 500 {
			v.Failf("beyond-tree-status", "tree size %d <= start %s but status %d", c.TreeSize, sv, rsp.Status)
		}
		return v
	}
	if c.Shift > 0 && shifted {
		// what the backend returned does not begin at start: it cannot be served as the range that was asked for
		v.NonTrivial = true
		v.Class("backend-run-starts-elsewhere")
		if rsp.Status == 200 {
			v.Failf("shifted-run-served", "start=%s end=%s: the backend answered with leaves %d.. instead of %s.., and the front end served them with 200", sv, ev, sv.Int64()+int64(c.Shift), sv)
		}
		return v
	}
	if rsp.Status != 200 {
		if len(v.Violations) == 0 {
			v.Failf("valid-range-refused", "start=%s end=%s tree=%d: status %d body %q", sv, ev, c.TreeSize, rsp.Status, rsp.Body)
		}
		return v
	}
	v.Class("served")
	var out struct {
		Entries []struct {
			LeafInput string `json:"leaf_input"`
			ExtraData string `json:"extra_data"`
		} `json:"entries"`
	}
	if err := json.Unmarshal(rsp.Body, &out); err != nil {
		v.Failf("bad-json", "200 body does not parse: %v", err)
		return v
	}
	if len(out.Entries) != len(served) {
		v.Failf("entry-count", "backend served %d leaves, response has %d entries", len(served), len(out.Entries))
		return v
	}
	for i, e := range out.Entries {
		li, _ := base64.StdEncoding.DecodeString(e.LeafInput)
		xd, _ := base64.StdEncoding.DecodeString(e.ExtraData)
		idx := sv.Int64() + int64(i)
		if string(li) != fmt.Sprintf("leaf-%d", idx) || string(xd) != fmt.Sprintf("extra-%d", idx) {
			v.Failf("entry-bytes", "entry %d of response is (%q,%q), want the stored bytes of index %d", i, li, xd, idx)
		}
	}
	return v
}

// Arith is the range-arithmetic half of C07.
var Arith = harness.Define(harness.Opts{
	Name:  "arith",
	Rule:  "raw start/end strings biased to int64/alignment/max boundaries x max in {1,2,3,7,256,1000,2^31-1,2^62,2^63-1} x alignment x claimed tree size; a spy backend records GetLeavesByRange; oracle in math/big. Non-trivial: refusal expected, truncation or alignment applied, end within max of 2^63-1, or start beyond tree",
	Quick: 6000, Thorough: 60000,
}, genArith, checkArith)
