package c07

import (
	"bytes"
	"context"
	"encoding/base64"
	"encoding/json"
	"errors"
	"fmt"
	"net/http"
	"testing"
	"time"

	ct "github.com/google/certificate-transparency-go"
	"github.com/google/certificate-transparency-go/client"
	"github.com/google/certificate-transparency-go/jsonclient"
	"github.com/google/certificate-transparency-go/trillian/ctfe"
	"github.com/google/certificate-transparency-go/trillian/ctfe/cache"
	"github.com/google/certificate-transparency-go/x509"
	"google.golang.org/grpc/codes"
	"google.golang.org/grpc/status"
	"pgregory.net/rapid"

	"verif/internal/ctfex"
	"verif/internal/harness"
	"verif/internal/keys"
	"verif/internal/memstore"
	"verif/internal/reflog"
	"verif/internal/rfc6962"
	"verif/internal/world"
)

// FidCase: a log filled through the front end (plus opaque leaves), then read back.
type FidCase struct {
	Items      []FidItem
	BackendMax int   // backend short-read cap (0 = none)
	Max        int64 // MaxGetEntriesAllowed
	Align      bool
	Reads      [][2]int // (start, len-1) reduced modulo the tree size at run time
	ClockMs    int64
	Indirect   bool // external issuance-chain storage (in-memory) instead of chains inside the backend leaf
	Metrics    bool // process option --getentries_metrics: reads are also counted; what is served must not change
	// Huge: three-megabyte certificates, so that one range holds more than 8 MiB of entries
	Huge bool
	// CacheLRU > 0 (external storage): an LRU issuance-chain cache of that many entries instead of none
	CacheLRU int
	// Twin (external storage): a second log with its own backend and its own chain storage, configured alike,
	// is served by the same process and receives every submission right after the first log
	Twin bool
	// FailGets (external storage): these chain-storage reads, counted from the first read request, fail with
	// the error class FailKind; a read request that met a fault may be refused, but what it serves must be right
	FailGets []int
	FailKind int
	// FailAdds (external storage): these chain-storage writes, counted from the first submission, fail; the
	// refused submission is sent again. ColdReads: the reads go through a second front end of the same log that
	// was started after all submissions (same backend, same chain storage, nothing cached).
	FailAdds  []int
	ColdReads bool
	// CorruptGets (external storage): these chain-storage reads, counted like FailGets, return the chain with
	// one octet changed and no error (a damaged read); afterwards storage is healthy again
	CorruptGets []int
	// Verbosity is the process-wide klog -v level
	Verbosity int
}

type FidItem struct {
	Spec   *world.ChainSpec // nil => opaque leaf
	Opaque []byte
	Extra  []byte
	// TrailSpec != nil (opaque leaf): the stored leaf is the well-formed leaf of that chain followed by Opaque
	TrailSpec *world.ChainSpec
}

func genFid(t *rapid.T) FidCase {
	var c FidCase
	n := rapid.IntRange(1, 7).Draw(t, "n")
	for i := 0; i < n; i++ {
		if rapid.IntRange(0, 4).Draw(t, "opaque") == 0 {
			it := FidItem{Opaque: rapid.SliceOfN(rapid.Byte(), 1, 150).Draw(t, "ov"), Extra: rapid.SliceOfN(rapid.Byte(), 0, 20).Draw(t, "ox")}
			if rapid.IntRange(0, 2).Draw(t, "trailing") == 0 {
				// a well-formed leaf followed by octets that do not belong to it (stored by something else than this front end)
				sp := world.GenSpec(t, fmt.Sprintf("t%d", i))
				it.TrailSpec, it.Opaque = &sp, it.Opaque[:1+len(it.Opaque)%3]
			}
			c.Items = append(c.Items, it)
		} else {
			s := world.GenSpecX(t, fmt.Sprintf("c%d", i))
			c.Items = append(c.Items, FidItem{Spec: &s})
			if s.Cross && rapid.Bool().Draw(t, "twin") {
				// another certificate from the same issuing CA whose path continues to the other root
				tw := s
				tw.ID = s.ID ^ 0x5a5a5a
				tw.CrossAlt = !s.CrossAlt
				c.Items = append(c.Items, FidItem{Spec: &tw})
			}
		}
	}
	c.BackendMax = rapid.IntRange(0, 3).Draw(t, "bmax")
	c.Max = rapid.SampledFrom([]int64{1, 2, 3, 7, 1000}).Draw(t, "max")
	c.Align = rapid.Bool().Draw(t, "align")
	nr := rapid.IntRange(1, 5).Draw(t, "reads")
	for i := 0; i < nr; i++ {
		c.Reads = append(c.Reads, [2]int{rapid.IntRange(0, 20).Draw(t, "rs"), rapid.IntRange(0, 9).Draw(t, "rl")})
	}
	c.ClockMs = rapid.Int64Range(1, 4102444800000).Draw(t, "clock")
	c.Indirect = rapid.IntRange(0, 2).Draw(t, "indirect") == 0
	c.Metrics = rapid.IntRange(0, 2).Draw(t, "metrics") == 0
	if rapid.IntRange(0, 3).Draw(t, "verbose") == 0 {
		c.Verbosity = rapid.IntRange(1, 5).Draw(t, "v")
	}
	if c.Indirect {
		if rapid.Bool().Draw(t, "lru") {
			c.CacheLRU = rapid.SampledFrom([]int{1, 1, 2, 64}).Draw(t, "lrusize")
		}
		c.Twin = rapid.IntRange(0, 2).Draw(t, "twinlog") == 0
		for i, nf := 0, rapid.IntRange(0, 2).Draw(t, "nfail"); i < nf; i++ {
			c.FailGets = append(c.FailGets, rapid.IntRange(0, 12).Draw(t, "failget"))
		}
		c.FailKind = rapid.IntRange(0, 4).Draw(t, "failkind")
		for i, nf := 0, rapid.IntRange(0, 2).Draw(t, "nfailadd"); i < nf; i++ {
			c.FailAdds = append(c.FailAdds, rapid.IntRange(0, 8).Draw(t, "failadd"))
		}
		c.ColdReads = rapid.Bool().Draw(t, "cold")
		for i, nf := 0, rapid.IntRange(0, 2).Draw(t, "ncorrupt"); i < nf; i++ {
			c.CorruptGets = append(c.CorruptGets, rapid.IntRange(0, 6).Draw(t, "corruptget"))
		}
	}
	if rapid.IntRange(0, 24).Draw(t, "huge") == 0 {
		// big, big, big, small, big, small: the whole tree in one range is well over 8 MiB
		c.Huge, c.Max, c.BackendMax, c.Twin = true, 1000, 0, false
		c.Items = nil
		for i, big := range []bool{true, true, true, false, true, false} {
			sp := world.GenSpec(t, fmt.Sprintf("h%d", i))
			sp.Quirky = false
			if big {
				sp.Bulk = rapid.IntRange(2300, 2900).Draw(t, "hugekib") << 10
			}
			c.Items = append(c.Items, FidItem{Spec: &sp})
		}
		c.Reads = append([][2]int{{0, 5}, {1, 4}}, c.Reads...)
	}
	return c
}

func addChainBody(chain [][]byte) []byte {
	var req struct {
		Chain []string `json:"chain"`
	}
	for _, c := range chain {
		req.Chain = append(req.Chain, base64.StdEncoding.EncodeToString(c))
	}
	b, _ := json.Marshal(req)
	return b
}

func checkFid(t *testing.T, c FidCase) (v harness.Verdict) {
	if c.Verbosity > 0 {
		harness.SetKlogVerbosity(c.Verbosity)
		defer harness.SetKlogVerbosity(0)
		v.Class(fmt.Sprintf("klog-v=%d", c.Verbosity))
	}
	ctfe.MaxGetEntriesAllowed = c.Max
	setAlign(c.Align)
	setMetrics(c.Metrics)
	defer func() { ctfe.MaxGetEntriesAllowed = 1000; setAlign(true); setMetrics(false) }()
	if c.Metrics {
		v.Class("getentries-metrics-on")
	}
	be := reflog.New(6962, 1)
	be.MaxLeavesPerRange = c.BackendMax
	clock := ctfex.NewClock(time.UnixMilli(c.ClockMs).Add(123456 * time.Nanosecond))
	o := ctfex.Opts{LogKey: keys.Pick("p256", 1), Roots: world.Roots(), Backend: be, Clock: clock}
	var store *memstore.Store
	if c.Indirect {
		store = memstore.New()
		o.ChainStorage = store
		v.Class("external-chain-storage")
		if c.CacheLRU > 0 {
			o.Inst = func(io *ctfe.InstanceOptions) {
				io.CacheType, io.CacheOption = cache.LRU, cache.Option{Size: c.CacheLRU, TTL: time.Hour}
			}
			v.Class("lru-chain-cache")
		}
	}
	if c.Huge {
		v.Class("range-over-8MiB")
	}
	inst, err := ctfex.New(o)
	if err != nil {
		t.Fatalf("instance: %v", err)
	}
	// the twin log: same configuration, its own backend, chain storage and key
	var twin *ctfex.Instance
	var twinBE *reflog.Log
	if c.Indirect && c.Twin {
		twinBE = reflog.New(6963, 1)
		o2 := o
		o2.LogKey, o2.Backend, o2.ChainStorage, o2.Prefix, o2.LogID = keys.Pick("p256", 4), twinBE, memstore.New(), "twin", 6963
		if twin, err = ctfex.New(o2); err != nil {
			t.Fatalf("twin instance: %v", err)
		}
		v.Class("twin-log-with-own-chain-storage")
	}
	twinWant := map[string][]byte{}
	if store != nil && len(c.FailAdds) > 0 {
		failAdd := map[int]bool{}
		for _, k := range c.FailAdds {
			failAdd[k] = true
		}
		store.FailAdd = func(n int) error {
			if failAdd[n] {
				return errors.New("injected storage failure (Add)")
			}
			return nil
		}
	}
	type stored struct {
		built *world.Built
		ts    uint64
	}
	byLeafValue := map[string]stored{}
	for i, it := range c.Items {
		if it.Spec == nil {
			if c.Indirect {
				// with external chain storage the front end must interpret extra_data, so opaque bytes are
				// outside the domain; instead pre-load an entry written before the feature was switched on
				// (full chain inside the backend leaf), which must be served unchanged
				pb := world.Build(world.ChainSpec{ID: uint32(50000 + i), Root: i % 4, Inters: []string{"p256", "p384"}[:len(it.Opaque)%3], LeafKind: "p256", Precert: len(it.Extra)%2 == 1, IncludeRoot: true})
				plv, err := rfc6962.EncodeLeaf(rfc6962.Leaf{Timestamp: uint64(1500000000000 + i), Entry: pb.Entry()})
				if err != nil {
					t.Fatalf("reference leaf: %v", err)
				}
				be.AppendRaw(plv, pb.ExtraData())
				v.Class("preloaded-direct-layout")
				continue
			}
			if it.TrailSpec != nil {
				tb := world.Build(*it.TrailSpec)
				tlv, err := rfc6962.EncodeLeaf(rfc6962.Leaf{Timestamp: uint64(1400000000000 + i), Entry: tb.Entry()})
				if err != nil {
					t.Fatalf("reference leaf: %v", err)
				}
				be.AppendRaw(append(tlv, it.Opaque...), tb.ExtraData())
				v.Class("stored-leaf-with-trailing-octets")
				continue
			}
			be.AppendRaw(it.Opaque, it.Extra)
			continue
		}
		// sequence what was queued so far to keep submission order = index order
		b := world.Build(*it.Spec)
		path := "/ct/v1/add-chain"
		if it.Spec.Precert {
			path = "/ct/v1/add-pre-chain"
		}
		clock.Add(time.Duration(i+1) * time.Millisecond)
		a0 := 0
		if store != nil {
			a0, _ = store.Calls()
		}
		rsp := inst.Post(path, addChainBody(b.Submit))
		for try := 0; try <= len(c.FailAdds) && rsp.Status != 200 && store != nil && store.FailAdd != nil; try++ {
			a1, _ := store.Calls()
			fired := false
			for n := a0; n < a1; n++ {
				fired = fired || store.FailAdd(n) != nil
			}
			if !fired {
				break
			}
			// the chain could not be written: the submitter tries again
			v.Class("storage-write-fault-then-retry")
			time.Sleep(300 * time.Microsecond)
			a0 = a1
			rsp = inst.Post(path, addChainBody(b.Submit))
		}
		if rsp.Status != 200 {
			v.Failf("valid-chain-refused", "item %d: %s answered %d: %s", i, path, rsp.Status, rsp.Body)
			return v
		}
		var acr ct.AddChainResponse
		if err := json.Unmarshal(rsp.Body, &acr); err != nil {
			v.Failf("bad-json", "add-chain body: %v", err)
			return v
		}
		before := be.Size()
		be.Sequence(-1, uint64(i+2))
		if be.Size() == before+1 {
			byLeafValue[string(be.Leaf(before).LeafValue)] = stored{b, acr.Timestamp}
		} else {
			v.Class("duplicate-submission")
		}
		if twin != nil {
			time.Sleep(300 * time.Microsecond) // the first log's best-effort cache write runs in the background
			if rsp := twin.Post(path, addChainBody(b.Submit)); rsp.Status != 200 {
				v.Failf("valid-chain-refused", "item %d: twin log: %s answered %d: %s", i, path, rsp.Status, rsp.Body)
				return v
			}
			tb := twinBE.Size()
			twinBE.Sequence(-1, uint64(i+2))
			if twinBE.Size() == tb+1 {
				twinWant[string(twinBE.Leaf(tb).LeafValue)] = b.ExtraData()
			}
		}
	}
	if twin != nil {
		// every entry of the twin log must be readable from ITS storage, whatever the first log cached meanwhile
		twinBE.Publish(99)
		time.Sleep(300 * time.Microsecond)
		for i := 0; i < twinBE.Size(); i++ {
			rsp := twin.Get("/ct/v1/get-entries", fmt.Sprintf("start=%d&end=%d", i, i))
			var ger ct.GetEntriesResponse
			if rsp.Status != 200 || json.Unmarshal(rsp.Body, &ger) != nil || len(ger.Entries) != 1 {
				v.Failf("twin-entry-unreadable", "the second log of the process cannot serve its entry %d: %d %s", i, rsp.Status, rsp.Body)
				continue
			}
			lv := twinBE.Leaf(i).LeafValue
			if w, ok := twinWant[string(lv)]; !bytes.Equal(ger.Entries[0].LeafInput, lv) || (ok && !bytes.Equal(ger.Entries[0].ExtraData, w)) {
				v.Failf("twin-entry-bytes", "the second log of the process serves other bytes than stored for entry %d", i)
			}
		}
	}
	be.Publish(99)
	size := be.Size()
	if size == 0 {
		v.Discard = true
		return v
	}
	lc, err := client.New("http://log.example/log", &http.Client{Transport: ctfex.RoundTripper{Inst: inst}}, jsonclient.Options{})
	if err != nil {
		t.Fatalf("client: %v", err)
	}
	if store != nil && c.ColdReads {
		time.Sleep(300 * time.Microsecond)
		o3 := o
		o3.Prefix = "cold"
		cold, err := ctfex.New(o3)
		if err != nil {
			t.Fatalf("second front end: %v", err)
		}
		inst = cold
		lc, err = client.New("http://log.example/cold", &http.Client{Transport: ctfex.RoundTripper{Inst: inst}}, jsonclient.Options{})
		if err != nil {
			t.Fatalf("client: %v", err)
		}
		v.Class("reads-through-a-second-front-end")
	}
	ctx := context.Background()
	getCalls := func() int {
		if store == nil {
			return 0
		}
		_, g := store.Calls()
		return g
	}
	if store != nil && len(c.FailGets) > 0 {
		base := getCalls()
		failErr := []error{errors.New("injected storage failure"), fmt.Errorf("storage: %w", context.DeadlineExceeded), status.Error(codes.DeadlineExceeded, "injected"), fmt.Errorf("storage: %w", context.Canceled), status.Error(codes.Unavailable, "injected")}[c.FailKind%5]
		fail := map[int]bool{}
		for _, k := range c.FailGets {
			fail[base+k] = true
		}
		store.FailGet = func(n int) error {
			if fail[n] {
				return failErr
			}
			return nil
		}
	}
	corruptAt := map[int]bool{}
	if store != nil && len(c.CorruptGets) > 0 {
		base := getCalls()
		for _, k := range c.CorruptGets {
			corruptAt[base+k] = true
		}
		store.Corrupt = func(key, chain []byte) []byte {
			// called under the store's lock, after the call counter moved on
			if n := store.GetCalls - 1; corruptAt[n] && len(chain) > 0 {
				chain[len(chain)/2] ^= 0x40
				v.Class("damaged-storage-read")
			}
			return chain
		}
	}
	faultIn := func(from, to int) bool {
		if store == nil {
			return false
		}
		for n := from; n < to; n++ {
			if corruptAt[n] || (store.FailGet != nil && store.FailGet(n) != nil) {
				return true
			}
		}
		return false
	}
	for _, r := range c.Reads {
		start := r[0] % size
		end := start + r[1]
		g0 := getCalls()
		rsp := inst.Get("/ct/v1/get-entries", fmt.Sprintf("start=%d&end=%d", start, end))
		if rsp.Status != 200 && faultIn(g0, getCalls()) {
			v.Class("storage-read-fault-surfaced-as-error")
			continue
		}
		if rsp.Status == 200 && faultIn(g0, getCalls()) {
			v.Class("answered-200-despite-storage-read-fault")
		}
		if rsp.Status != 200 {
			v.Failf("in-range-read-refused", "get-entries %d..%d on size %d: %d %s", start, end, size, rsp.Status, rsp.Body)
			continue
		}
		var ger ct.GetEntriesResponse
		if err := json.Unmarshal(rsp.Body, &ger); err != nil {
			v.Failf("bad-json", "get-entries body: %v", err)
			continue
		}
		if len(ger.Entries) == 0 || len(ger.Entries) > end-start+1 || int64(len(ger.Entries)) > c.Max {
			v.Failf("entry-count", "get-entries %d..%d (max %d) returned %d entries", start, end, c.Max, len(ger.Entries))
		}
		if len(ger.Entries) < end-start+1 && start+len(ger.Entries) < size {
			v.NonTrivial = true
			v.Class("short-answer")
		}
		g1 := getCalls()
		raw, rerr := lc.GetRawEntries(ctx, int64(start), int64(end))
		if faultIn(g1, getCalls()) {
			raw, rerr = nil, errors.New("storage fault met") // judged above through the direct call only
		} else if rerr != nil {
			v.Failf("client-raw", "GetRawEntries(%d,%d): %v", start, end, rerr)
		} else if len(raw.Entries) != len(ger.Entries) {
			v.Failf("client-raw-count", "GetRawEntries returned %d entries, direct call %d", len(raw.Entries), len(ger.Entries))
		}
		for i, e := range ger.Entries {
			idx := start + i
			if idx >= size {
				v.Failf("beyond-tree", "entry for index %d served from a tree of %d", idx, size)
				break
			}
			want := be.Leaf(idx)
			if st, ok := byLeafValue[string(want.LeafValue)]; ok && c.Indirect {
				// the backend leaf holds the chain hash; what must be served is the RFC 6962 chain structure
				want.ExtraData = st.built.ExtraData()
			}
			if !bytes.Equal(e.LeafInput, want.LeafValue) || !bytes.Equal(e.ExtraData, want.ExtraData) {
				v.Failf("entry-bytes", "get-entries %d..%d: entry %d differs from stored leaf %d", start, end, i, idx)
				continue
			}
			if rerr == nil && i < len(raw.Entries) && (!bytes.Equal(raw.Entries[i].LeafInput, want.LeafValue) || !bytes.Equal(raw.Entries[i].ExtraData, want.ExtraData)) {
				v.Failf("client-raw-bytes", "GetRawEntries entry %d differs from stored leaf %d", i, idx)
			}
			st, ok := byLeafValue[string(want.LeafValue)]
			le, err := ct.LogEntryFromLeaf(int64(idx), &e)
			if !ok {
				v.Class("opaque-leaf")
				v.NonTrivial = true
				if err == nil && le != nil && (le.X509Cert != nil || le.Precert != nil) {
					// random bytes that happen to parse are astronomically unlikely; count, don't judge
					v.Class("opaque-parsed")
				}
				continue
			}
			if le == nil || x509.IsFatal(err) {
				v.Failf("decode-submitted", "LogEntryFromLeaf(index %d) did not recover the submitted entry: %v", idx, err)
				continue
			}
			if err != nil {
				v.Class("decoded-with-nonfatal-error")
			}
			b := st.built
			if le.Index != int64(idx) || le.Leaf.TimestampedEntry.Timestamp != st.ts {
				v.Failf("decode-meta", "index %d: decoded index %d timestamp %d, want %d / %d", idx, le.Index, le.Leaf.TimestampedEntry.Timestamp, idx, st.ts)
			}
			if b.Spec.Precert {
				v.Class("precert-entry")
				if le.Leaf.TimestampedEntry.EntryType != ct.PrecertLogEntryType || le.Precert == nil || le.X509Cert != nil {
					v.Failf("decode-type", "index %d: precert submission decoded as type %v", idx, le.Leaf.TimestampedEntry.EntryType)
				} else if !bytes.Equal(le.Precert.Submitted.Data, b.Leaf.DER) {
					v.Failf("decode-cert", "index %d: decoded precertificate differs from the submitted one", idx)
				}
			} else {
				v.Class("x509-entry")
				if le.Leaf.TimestampedEntry.EntryType != ct.X509LogEntryType || le.X509Cert == nil || le.Precert != nil {
					v.Failf("decode-type", "index %d: certificate submission decoded as type %v", idx, le.Leaf.TimestampedEntry.EntryType)
				} else if !bytes.Equal(le.X509Cert.Raw, b.Leaf.DER) {
					v.Failf("decode-cert", "index %d: decoded certificate differs from the submitted one", idx)
				}
			}
			if len(le.Chain) != len(b.Full)-1 {
				v.Failf("decode-chain", "index %d: decoded chain has %d certificates, want %d", idx, len(le.Chain), len(b.Full)-1)
			} else {
				for j := range le.Chain {
					if !bytes.Equal(le.Chain[j].Data, b.Full[j+1]) {
						v.Failf("decode-chain", "index %d: chain element %d differs", idx, j)
					}
				}
			}
		}
		// get-entry-and-proof for the first index of the read, at a drawn tree size and at the smallest one
		for _, n := range []int{start + 1 + (r[1] % (size - start)), start + 1} {
			g2 := getCalls()
			eap := inst.Get("/ct/v1/get-entry-and-proof", fmt.Sprintf("leaf_index=%d&tree_size=%d", start, n))
			if eap.Status != 200 && faultIn(g2, getCalls()) {
				v.Class("storage-read-fault-surfaced-as-error")
				continue
			}
			if eap.Status != 200 {
				v.Failf("entry-and-proof-refused", "get-entry-and-proof(%d,%d) on size %d: %d %s", start, n, size, eap.Status, eap.Body)
				continue
			}
			var er ct.GetEntryAndProofResponse
			if err := json.Unmarshal(eap.Body, &er); err != nil {
				v.Failf("bad-json", "get-entry-and-proof body: %v", err)
				continue
			}
			want := be.Leaf(start)
			if st, ok := byLeafValue[string(want.LeafValue)]; ok && c.Indirect {
				want.ExtraData = st.built.ExtraData()
			}
			if !bytes.Equal(er.LeafInput, want.LeafValue) || !bytes.Equal(er.ExtraData, want.ExtraData) {
				v.Failf("entry-and-proof-bytes", "get-entry-and-proof(%d,%d) bytes differ from get-entries / stored entry (external storage: %v)", start, n, c.Indirect)
			}
			if n == 1 {
				v.Class("entry-and-proof-tree-size-1")
			}
		}
	}
	if len(c.Items) >= 2 {
		v.NonTrivial = true
	}
	return v
}

// Fidelity is the byte-fidelity half of C07.
var Fidelity = harness.Define(harness.Opts{
	Name:  "fidelity",
	Rule:  "direct or external chain storage; 1-7 leaves (generated PKI chains submitted through add-chain/add-pre-chain, plus opaque leaves written straight into the reference backend), backend short reads 0-3, max in {1,2,3,7,1000}, alignment on/off, 1-5 reads; entries compared byte for byte with the reference backend and decoded with ct.LogEntryFromLeaf / client.GetRawEntries; get-entry-and-proof compared with get-entries. Non-trivial: >= 2 leaves, or a short answer, or an opaque leaf",
	Quick: 250, Thorough: 2500,
}, genFid, checkFid)
