package c07

import (
	"bytes"
	"context"
	"encoding/json"
	"fmt"
	"sync"
	"testing"
	"time"

	ct "github.com/google/certificate-transparency-go"
	"github.com/google/certificate-transparency-go/trillian/ctfe"
	"pgregory.net/rapid"

	"verif/internal/ctfex"
	"verif/internal/harness"
	"verif/internal/keys"
	"verif/internal/memstore"
	"verif/internal/reflog"
	"verif/internal/world"
)

// ConcCase: many readers at once against a stable log; every response must carry the stored bytes of
// exactly the indices it claims ("unmodified and in order" must also hold when requests overlap).
type ConcCase struct {
	Specs    []world.ChainSpec
	Readers  int
	Rounds   int
	Indirect bool
	Reads    [][2]int
}

func genConc(t *rapid.T) ConcCase {
	c := ConcCase{Readers: rapid.IntRange(2, 8).Draw(t, "readers"), Rounds: rapid.IntRange(2, 6).Draw(t, "rounds"), Indirect: rapid.Bool().Draw(t, "indirect")}
	n := rapid.IntRange(3, 8).Draw(t, "n")
	for i := 0; i < n; i++ {
		c.Specs = append(c.Specs, world.GenSpec(t, fmt.Sprintf("c%d", i)))
	}
	for i := 0; i < 6; i++ {
		c.Reads = append(c.Reads, [2]int{rapid.IntRange(0, 20).Draw(t, "rs"), rapid.IntRange(0, 5).Draw(t, "rl")})
	}
	return c
}

func checkConc(t *testing.T, c ConcCase) (v harness.Verdict) {
	be := reflog.New(6962, 1)
	// The system clock is used here: the front end derives the deadline of every backend / storage call from
	// its clock, and a storage fake that honours contexts would see an expired one under a clock set in the past.
	o := ctfex.Opts{LogKey: keys.Pick("p256", 1), Roots: world.Roots(), Backend: be, Inst: func(io *ctfe.InstanceOptions) { io.Deadline = time.Hour }}
	var store *memstore.Store
	if c.Indirect {
		store = memstore.New()
		o.ChainStorage = store
	}
	inst, err := ctfex.New(o)
	if err != nil {
		t.Fatalf("instance: %v", err)
	}
	want := map[string][]byte{} // leaf_input -> extra_data that must be served
	for i, s := range c.Specs {
		b := world.Build(s)
		path := "/ct/v1/add-chain"
		if s.Precert {
			path = "/ct/v1/add-pre-chain"
		}
		if rsp := inst.Post(path, addChainBody(b.Submit)); rsp.Status != 200 {
			v.Failf("valid-chain-refused", "item %d: %d %s", i, rsp.Status, rsp.Body)
			return v
		}
		before := be.Size()
		be.Sequence(-1, uint64(i+2))
		if be.Size() == before+1 {
			want[string(be.Leaf(before).LeafValue)] = b.ExtraData()
		}
	}
	size := be.Size()
	stored := make([][]byte, size)
	for i := range stored {
		stored[i] = be.Leaf(i).LeafValue
	}
	inst.SlowWriter = true
	var mu sync.Mutex
	var wg sync.WaitGroup
	if store != nil {
		// a storage read takes a moment and, like a database driver, gives up when ITS caller's context ends
		store.Latency = 300 * time.Microsecond
		// bystanders: requests whose callers hang up almost at once; whatever they are answered, the
		// healthy readers below must not be affected by them
		stopBy := make(chan struct{})
		defer close(stopBy)
		for b := 0; b < 2; b++ {
			go func(b int) {
				for k := 0; ; k++ {
					select {
					case <-stopBy:
						return
					default:
					}
					ctx, cancel := context.WithTimeout(context.Background(), time.Duration(50+20*b)*time.Microsecond)
					rd := c.Reads[(k+b)%len(c.Reads)]
					start := rd[0] % size
					inst.Do(ctx, "GET", "/ct/v1/get-entries", fmt.Sprintf("start=%d&end=%d", start, start+rd[1]), nil)
					cancel()
				}
			}(b)
		}
	}
	for g := 0; g < c.Readers; g++ {
		wg.Add(1)
		go func(g int) {
			defer wg.Done()
			for r := 0; r < c.Rounds; r++ {
				for k := range c.Reads {
					rd := c.Reads[(k+g)%len(c.Reads)]
					start := rd[0] % size
					var es []ct.LeafEntry
					var what string
					if (k+r)%3 == 0 {
						n := start + 1 + rd[1]%(size-start)
						what = fmt.Sprintf("get-entry-and-proof(%d,%d)", start, n)
						rsp := inst.Get("/ct/v1/get-entry-and-proof", fmt.Sprintf("leaf_index=%d&tree_size=%d", start, n))
						var er ct.GetEntryAndProofResponse
						if rsp.Status != 200 || json.Unmarshal(rsp.Body, &er) != nil {
							mu.Lock()
							v.Failf("concurrent-read-broken", "%s under %d concurrent readers: status %d, body %q", what, c.Readers, rsp.Status, trunc(rsp.Body))
							mu.Unlock()
							continue
						}
						es = []ct.LeafEntry{{LeafInput: er.LeafInput, ExtraData: er.ExtraData}}
					} else {
						what = fmt.Sprintf("get-entries(%d,%d)", start, start+rd[1])
						rsp := inst.Get("/ct/v1/get-entries", fmt.Sprintf("start=%d&end=%d", start, start+rd[1]))
						var ger ct.GetEntriesResponse
						if rsp.Status != 200 || json.Unmarshal(rsp.Body, &ger) != nil {
							mu.Lock()
							v.Failf("concurrent-read-broken", "%s under %d concurrent readers: status %d, body %q", what, c.Readers, rsp.Status, trunc(rsp.Body))
							mu.Unlock()
							continue
						}
						es = ger.Entries
					}
					mu.Lock()
					if len(es) == 0 || start+len(es) > size {
						v.Failf("concurrent-entry-count", "%s returned %d entries (tree %d)", what, len(es), size)
					}
					for i, e := range es {
						if start+i >= size {
							break
						}
						if !bytes.Equal(e.LeafInput, stored[start+i]) {
							v.Failf("concurrent-entry-bytes", "%s under %d concurrent readers: entry %d is not the stored leaf %d", what, c.Readers, i, start+i)
						} else if x, ok := want[string(e.LeafInput)]; ok && !bytes.Equal(e.ExtraData, x) {
							v.Failf("concurrent-entry-bytes", "%s under %d concurrent readers: extra_data of entry %d differs from the stored chain", what, c.Readers, i)
						}
					}
					mu.Unlock()
				}
			}
		}(g)
	}
	wg.Wait()
	v.NonTrivial = true
	if c.Indirect {
		v.Class("external-chain-storage")
	}
	return v
}

func trunc(b []byte) string {
	if len(b) > 120 {
		return string(b[:120]) + "..."
	}
	return string(b)
}

// Concurrent is the overlapping-readers sub-property of C07.
var Concurrent = harness.Define(harness.Opts{
	Name:  "concurrent-readers",
	Rule:  "a log of 3-8 submitted entries (direct or external chain storage), then 2-8 goroutines issue get-entries / get-entry-and-proof for overlapping ranges at the same time through a slow in-process ResponseWriter (32-byte chunks with yields); every response must parse and carry the stored bytes of exactly the indices asked for. Every case is non-trivial",
	Quick: 60, Thorough: 500,
}, genConc, checkConc)
