package c07

import (
	"testing"

	"verif/internal/harness"
)

func TestProps(t *testing.T) { harness.Main(t, "C07", Arith, Fidelity, Concurrent) }
