package c05

import (
	"crypto/ecdsa"
	"crypto/rsa"
	"fmt"
	"sync"
	"testing"
	"testing/cryptotest"

	ct "github.com/google/certificate-transparency-go"
	"github.com/google/certificate-transparency-go/tls"
	"pgregory.net/rapid"

	"verif/internal/harness"
	"verif/internal/keys"
)

// ConcItem is one verification (or signing) job.
type ConcItem struct {
	Kind string // "blob" | "sct" | "sth" | "create"
	Key  string
	Hash int // 1..6
	Msg  []byte
	Obj  *ObjCase // sct / sth (Key, Hash, Muts inside)
	Muts []Mut    // blob: 0-1 mutation
}

// ConcCase: Workers goroutines run every item Rounds times at the same moment; every verdict must be
// the verdict the reference computed beforehand for that item.
type ConcCase struct {
	Seed    uint64
	Workers int
	Rounds  int
	Items   []ConcItem
}

// concKinds keeps the slow kinds (RSA-3072, DSA, P-521) rare; RSA is frequent because PKCS#1 v1.5
// verification reads the digest late, which is where shared state between callers shows.
var concKinds = []string{"p256", "p256", "p256", "p256", "p256", "p256", "rsa2048", "rsa2048", "rsa2048", "rsa2048", "rsa2048", "rsa2048", "rsa1024", "rsa1024", "rsa2050", "rsa2062", "p384", "p224", "rsa3072", "dsa1024"}

func genConc(t *rapid.T) ConcCase {
	c := ConcCase{Seed: rapid.Uint64().Draw(t, "seed"), Workers: 4 + pick(t, "workers", 13), Rounds: 4 + pick(t, "rounds", 9)}
	n := 6 + pick(t, "items", 15)
	// few distinct hash codes per case, so that callers collide on the same algorithm
	hashes := []int{hashSHA256, 1 + pick(t, "h2", 6)}
	for i := 0; i < n; i++ {
		l := fmt.Sprintf("it%d", i)
		it := ConcItem{Key: genKeyOf(t, l+".key", concKinds...), Hash: hashes[pick(t, l+".h", 2)]}
		switch x := pick(t, l+".kind", 10); {
		case x < 5:
			it.Kind = "blob"
		case x < 7:
			it.Kind = "sct"
		case x < 8:
			it.Kind = "sth"
		default:
			it.Kind = "create"
			if ns := nativeSig(getKey(it.Key)); ns != sigRSA && ns != sigECDSA {
				it.Kind = "blob"
			}
		}
		k := getKey(it.Key)
		switch it.Kind {
		case "blob", "create":
			ml := pick(t, l+".len", 48)
			if pick(t, l+".long", 6) == 0 {
				ml = 200 + pick(t, l+".len2", 4000)
			}
			it.Msg = rapid.SliceOfN(rapid.Byte(), ml, ml).Draw(t, l+".msg")
			if it.Kind == "blob" && pick(t, l+".bad", 3) == 0 {
				it.Muts = []Mut{genMut(t, l+".mut", k)}
			}
		default:
			o := ObjCase{Kind: it.Kind, Key: it.Key, Hash: it.Hash, Timestamp: genU64(t, l+".ts"), LogID: genBytes32(t, l+".logid")}
			if it.Kind == "sct" {
				o.EntryType = pick(t, l+".etype", 2)
				cl := 1 + pick(t, l+".clen", 1500)
				o.Cert = rapid.SliceOfN(rapid.Byte(), cl, cl).Draw(t, l+".cert")
				o.TBS = rapid.SliceOfN(rapid.Byte(), 1, 64).Draw(t, l+".tbs")
				o.IKH = genBytes32(t, l+".ikh")
			} else {
				o.TreeSize = genU64(t, l+".size")
				o.Root = genBytes32(t, l+".root")
			}
			if pick(t, l+".bad", 3) == 0 {
				o.Muts = []Mut{genObjMut(t, l+".mut", it.Kind, k)}
			}
			it.Obj = &o
		}
		c.Items = append(c.Items, it)
	}
	return c
}

// concJob is a prepared item: run() is what the goroutines call, want the reference verdict.
// slowKind: verification with these costs a millisecond or more.
func slowKind(k *keys.Key) bool {
	if k == nil {
		return false
	}
	switch k.Kind {
	case "rsa3072", "dsa1024", "dsa2048", "p521", "p384", "bp256t1":
		return true
	}
	return false
}

type concJob struct {
	slow bool // signing, or a slow key kind: first round only
	desc string
	want *refErr
	run  func() (err error, pan any)
}

func checkConc(t *testing.T, c ConcCase) (v harness.Verdict) {
	cryptotest.SetGlobalRandom(t, c.Seed)
	ct.AllowVerificationWithNonCompliantKeys = false
	v.NonTrivial = true

	var jobs []concJob
	for i, it := range c.Items {
		k := getKey(it.Key)
		v.Class("item:"+it.Kind, "key:"+k.Kind, hashClass(it.Hash))
		switch it.Kind {
		case "blob":
			p := &presented{pub: k.Pub, key: k, keyName: k.Name, hash: it.Hash, sig: nativeSig(k), msg: append([]byte(nil), it.Msg...), val: signStd(k, it.Hash, it.Msg)}
			for _, m := range it.Muts {
				applyMut(p, m)
			}
			ds := tls.DigitallySigned{Algorithm: tls.SignatureAndHashAlgorithm{Hash: tls.HashAlgorithm(p.hash), Signature: tls.SignatureAlgorithm(p.sig)}, Signature: p.val}
			jobs = append(jobs, concJob{slow: slowKind(p.key), desc: fmt.Sprintf("item %d VerifySignature key=%s hash=%d sigalg=%d msglen=%d", i, p.keyName, p.hash, p.sig, len(p.msg)),
				want: refVerify(p.pub, p.hash, p.sig, p.msg, p.val),
				run:  func() (error, any) { return callVerify(p.pub, p.msg, ds) }})
		case "sct", "sth":
			o, _, err := newObjState(*it.Obj)
			if err != nil {
				v.Failf("harness-selfcheck", "item %d: %v", i, err)
				return v
			}
			for _, m := range it.Obj.Muts {
				if m.Kind == "field" {
					o.applyField(it.Kind, m)
				} else {
					applyMut(&o.p, m)
				}
			}
			var want *refErr
			if input, ierr := o.refInput(it.Kind); ierr != nil {
				want = refuse("unsignable", "%v", ierr)
			} else {
				want = refVerify(o.p.pub, o.p.hash, o.p.sig, input, o.p.val)
			}
			sv := &ct.SignatureVerifier{PubKey: o.p.pub}
			kind := it.Kind
			jobs = append(jobs, concJob{slow: slowKind(o.p.key), desc: fmt.Sprintf("item %d Verify%sSignature key=%s hash=%d sigalg=%d", i, kind, o.p.keyName, o.p.hash, o.p.sig),
				want: want, run: func() (error, any) { return o.verifyWith(kind, sv) }})
		case "create":
			hash, msg := it.Hash, it.Msg
			jobs = append(jobs, concJob{slow: true, desc: fmt.Sprintf("item %d CreateSignature key=%s hash=%d msglen=%d", i, k.Name, hash, len(msg)),
				run: func() (err error, pan any) {
					defer func() { pan = recover() }()
					var ds tls.DigitallySigned
					switch priv := k.Signer.(type) {
					case *rsa.PrivateKey:
						ds, err = tls.CreateSignature(*priv, tls.HashAlgorithm(hash), msg)
					case *ecdsa.PrivateKey:
						ds, err = tls.CreateSignature(*priv, tls.HashAlgorithm(hash), msg)
					}
					if err != nil {
						return err, nil
					}
					// a created signature must be valid for the message it was created for
					if e := refVerify(k.Pub, int(ds.Algorithm.Hash), int(ds.Algorithm.Signature), msg, ds.Signature); e != nil {
						return e, nil
					}
					return nil, nil
				}})
		}
	}

	// one sequential pass first: a disagreement here is not about concurrency
	for _, j := range jobs {
		got, pan := j.run()
		if pan != nil || (got == nil) != (j.want == nil) {
			v.Failf("sequential-verdict-differs", "%s: sequential call gave (%v, panic %v), reference %v", j.desc, got, pan, j.want)
			return v
		}
		if j.want == nil {
			v.Class("expect-accept")
		} else {
			v.Class("expect-reject")
		}
	}

	type miss struct {
		job    int
		got    error
		pan    any
		worker int
	}
	var mu sync.Mutex
	var misses []miss
	start := make(chan struct{})
	var wg sync.WaitGroup
	for w := 0; w < c.Workers; w++ {
		wg.Add(1)
		go func(w int) {
			defer wg.Done()
			<-start
			for r := 0; r < c.Rounds; r++ {
				for x := range jobs {
					ji := (x + w*7 + r*3) % len(jobs) // every worker walks the items in its own rotation
					if jobs[ji].slow && r > 0 {
						continue
					}
					got, pan := jobs[ji].run()
					if pan != nil || (got == nil) != (jobs[ji].want == nil) {
						mu.Lock()
						if len(misses) < 8 {
							misses = append(misses, miss{ji, got, pan, w})
						}
						mu.Unlock()
					}
				}
			}
		}(w)
	}
	close(start)
	wg.Wait()
	v.Class(fmt.Sprintf("workers:%d-%d", c.Workers/4*4, c.Workers/4*4+3))
	for _, m := range misses {
		j := jobs[m.job]
		switch {
		case m.pan != nil:
			v.Failf("concurrent-panic", "%s (worker %d of %d): panic %v", j.desc, m.worker, c.Workers, m.pan)
		case j.want == nil:
			v.Failf("concurrent-rejects-valid", "%s (worker %d of %d): refused under concurrent callers (%v); accepted sequentially and by the reference", j.desc, m.worker, c.Workers, m.got)
		default:
			v.Failf("concurrent-accepts-invalid", "%s (worker %d of %d): accepted under concurrent callers; reference refuses: %v", j.desc, m.worker, c.Workers, j.want)
		}
	}
	return v
}

// Conc is the concurrent-callers clause: verdicts do not depend on what other goroutines verify.
var Conc = harness.Define(harness.Opts{
	Name:  "concurrent",
	Rule:  "6-20 prepared jobs (tls.VerifySignature on valid / once-mutated signatures, VerifySCTSignature, VerifySTHSignature, tls.CreateSignature whose output must satisfy the reference; two hash codes per case; P-256 and RSA-2048 frequent, RSA-3072 / DSA-1024 / P-384 rare; messages up to 4 KiB) run by 4-16 goroutines released together, 4-12 rounds each in rotated order (signing and slow key kinds in the first round only); every verdict must equal the reference verdict computed beforehand (and the verdict of a sequential pass). No timing is asserted. Every case is non-trivial",
	Quick: 200, Thorough: 1500,
}, genConc, checkConc)
