package c05

import (
	"crypto/ecdh"
	"crypto/ecdsa"
	"crypto/elliptic"
	"crypto/rsa"
	"crypto/sha256"
	"fmt"
	"math/big"
	"testing"
	"testing/cryptotest"

	ct "github.com/google/certificate-transparency-go"
	"github.com/google/certificate-transparency-go/trillian/ctfe"
	"github.com/google/certificate-transparency-go/trillian/ctfe/configpb"
	"github.com/google/trillian/crypto/keyspb"
	"pgregory.net/rapid"

	"verif/internal/harness"
	"verif/internal/keys"
	"verif/internal/rfc6962"
)

// PolicyCase: may a SignatureVerifier be constructed for this key with / without the opt-in?
type PolicyCase struct {
	Shape string // "pool" | "rsa-bits" | "ec256-other" | "p256-generic" | "nil" | "rsa-value" | "ecdsa-value" | "ecdh-p256" | "x25519" | "bytes" | "string"
	Key   string // pool name (pool, *-value)
	Bits  int    // rsa-bits: exact modulus bit length
	Low   []byte // rsa-bits: low-order bytes of the modulus
	OptIn bool

	// Frozen != "": before the verifier is asked for, a mirror log configuration carrying a frozen STH
	// signed by FrozenKey is put through ctfe.ValidateLogConfig in the same process ("valid" or "corrupt"
	// signature). Nothing but the caller may change the opt-in.
	Frozen    string
	FrozenKey string
	Seed      uint64
}

var rsaBitChoices = []int{512, 1023, 1024, 1025, 2040, 2046, 2047, 2048, 2049, 2056, 3072, 4096, 8192}

func genPolicy(t *rapid.T) PolicyCase {
	c := PolicyCase{OptIn: rapid.Bool().Draw(t, "optin")}
	c.Shape = pickStr(t, "shape", []string{"pool", "pool", "pool", "pool", "rsa-bits", "rsa-bits", "rsa-bits", "ec256-other", "p256-generic", "nil", "rsa-value", "ecdsa-value", "ecdh-p256", "x25519", "bytes", "string"})
	switch c.Shape {
	case "pool":
		c.Key = genKey(t, "key")
	case "rsa-bits":
		c.Bits = rsaBitChoices[pick(t, "bits", len(rsaBitChoices))]
		c.Low = rapid.SliceOfN(rapid.Byte(), 0, 16).Draw(t, "low")
	case "rsa-value":
		c.Key = genKeyOf(t, "key", "rsa1024", "rsa2048", "rsa3072")
	case "ecdsa-value", "p256-generic":
		c.Key = genKeyOf(t, "key", "p256", "p384")
	}
	if pick(t, "frozen", 3) == 0 {
		c.Frozen = pickStr(t, "frozenkind", []string{"valid", "valid", "corrupt"})
		c.FrozenKey = genKeyOf(t, "frozenkey", "p256", "p256", "rsa2048", "p384", "rsa1024", "rsa2050", "p224")
		c.Seed = rapid.Uint64().Draw(t, "seed")
	}
	return c
}

// validateFrozen runs ctfe.ValidateLogConfig on a mirror configuration with a frozen STH and judges its
// own verdict: accepted iff a verifier may be built for the key and the signature is valid.
func validateFrozen(t *testing.T, v *harness.Verdict, c PolicyCase) {
	cryptotest.SetGlobalRandom(t, c.Seed)
	k := getKey(c.FrozenKey)
	root := sha256.Sum256([]byte(c.FrozenKey))
	size, ts := uint64(c.Seed%1000), uint64(1700000000000+c.Seed%100000)
	input, err := rfc6962.STHSignatureInput(0, ts, size, root)
	if err != nil {
		panic(err)
	}
	val := signStd(k, hashSHA256, input)
	if c.Frozen == "corrupt" {
		val = flipBit(val, int(c.Seed>>8%4096))
	}
	ds, err := rfc6962.EncodeDS(rfc6962.DigitallySigned{Hash: hashSHA256, Sig: uint8(nativeSig(k)), Signature: val})
	if err != nil {
		panic(err)
	}
	cfg := &configpb.LogConfig{LogId: 7, Prefix: "c05", IsMirror: true, PublicKey: &keyspb.PublicKey{Der: spkiOf(k)},
		FrozenSth: &configpb.SignedTreeHead{TreeSize: int64(size), Timestamp: int64(ts), Sha256RootHash: root[:], TreeHeadSignature: ds}}
	var verr error
	var pan any
	func() {
		defer func() { pan = recover() }()
		_, verr = ctfe.ValidateLogConfig(cfg)
	}()
	want := refVerify(k.Pub, hashSHA256, nativeSig(k), input, val)
	if ok, class := refPolicy(k.Pub, c.OptIn); !ok {
		want = refuse("policy", "no verifier may be built for a %s key (opt-in %v)", class, c.OptIn)
	}
	v.Class("frozen-sth:"+c.Frozen, "frozen-key:"+k.Kind)
	judge(v, "ctfe.ValidateLogConfig(frozen STH)", verr, pan, want, &presented{pub: k.Pub, key: k, keyName: k.Name, hash: hashSHA256, sig: nativeSig(k), msg: input, val: val})
	if ct.AllowVerificationWithNonCompliantKeys != c.OptIn {
		v.Failf("optin-global-changed", "ctfe.ValidateLogConfig (frozen STH under %s) left AllowVerificationWithNonCompliantKeys = %v; the caller had set %v", k.Name, ct.AllowVerificationWithNonCompliantKeys, c.OptIn)
	}
}

func policyKey(c PolicyCase) (pub any, name string) {
	switch c.Shape {
	case "pool":
		return getKey(c.Key).Pub, c.Key
	case "rsa-bits":
		n := new(big.Int).Lsh(big.NewInt(1), uint(c.Bits-1))
		n.Or(n, new(big.Int).SetBytes(c.Low))
		n.SetBit(n, 0, 1)
		return &rsa.PublicKey{N: n, E: 65537}, fmt.Sprintf("rsa modulus of %d bits", n.BitLen())
	case "p256-generic":
		// the same curve described by a plain CurveParams value instead of the P256() singleton
		k := keys.Pick("p256", len(c.Key)).Pub.(*ecdsa.PublicKey)
		p := *elliptic.P256().Params()
		return &ecdsa.PublicKey{Curve: &p, X: k.X, Y: k.Y}, "P-256 as generic CurveParams"
	case "ec256-other":
		return getKey("bp256t1-0").Pub, "ECDSA key on brainpoolP256t1 (256 bits, not P-256)"
	case "nil":
		return nil, "nil"
	case "rsa-value":
		return *getKey(c.Key).Pub.(*rsa.PublicKey), "rsa.PublicKey value"
	case "ecdsa-value":
		return *getKey(c.Key).Pub.(*ecdsa.PublicKey), "ecdsa.PublicKey value"
	case "ecdh-p256":
		k, err := keys.Pick("p256", 0).Pub.(*ecdsa.PublicKey).ECDH()
		if err != nil {
			panic(err)
		}
		return k, "*ecdh.PublicKey (P-256)"
	case "x25519":
		k, err := ecdh.X25519().NewPublicKey(make([]byte, 32))
		if err != nil {
			panic(err)
		}
		return k, "*ecdh.PublicKey (X25519)"
	case "bytes":
		return []byte{1, 2, 3}, "[]byte"
	}
	return "key", "string"
}

func checkPolicy(t *testing.T, c PolicyCase) (v harness.Verdict) {
	ct.AllowVerificationWithNonCompliantKeys = c.OptIn
	defer func() { ct.AllowVerificationWithNonCompliantKeys = false }()
	pub, name := policyKey(c)
	v.NonTrivial = true
	v.Class("shape:" + c.Shape)
	if c.Shape == "pool" {
		v.Class("key:" + getKey(c.Key).Kind)
	}
	if c.Shape == "rsa-bits" {
		v.Class(fmt.Sprintf("rsa-bits:%d", c.Bits))
	}
	if c.Frozen != "" {
		validateFrozen(t, &v, c)
	}
	sv := verifierFor(&v, pub, name, c.OptIn)
	_ = sv
	if ct.AllowVerificationWithNonCompliantKeys != c.OptIn {
		v.Failf("optin-global-changed", "NewSignatureVerifier(%s) changed AllowVerificationWithNonCompliantKeys from %v", name, c.OptIn)
	}
	if ok, _ := refPolicy(pub, c.OptIn); ok {
		v.Class("constructible")
	} else {
		v.Class("refused")
	}
	return v
}

// Policy is the verifier-construction clause of C05.
var Policy = harness.Define(harness.Opts{
	Name:  "policy",
	Rule:  "ct.NewSignatureVerifier over pool keys of every kind, fabricated RSA moduli of 512..8192 bits around the 2048 boundary, P-256 given as generic CurveParams, and undefined key types (nil, Ed25519, DSA, ECDH, value-type structs, []byte, string) x opt-in flag (global reset per case), in a third of the cases after ctfe.ValidateLogConfig checked a frozen STH in the same process (its verdict judged, the opt-in flag must be untouched): succeeds iff (RSA >= 2048 bits or ECDSA P-256) or (RSA / ECDSA and opt-in). Every case is non-trivial",
	Quick: 1000, Thorough: 4000,
}, genPolicy, checkPolicy)
