package c05

import (
	"crypto/ecdh"
	"crypto/ecdsa"
	"crypto/elliptic"
	"crypto/rsa"
	"fmt"
	"math/big"
	"testing"

	ct "github.com/google/certificate-transparency-go"
	"pgregory.net/rapid"

	"verif/internal/harness"
	"verif/internal/keys"
)

// PolicyCase: may a SignatureVerifier be constructed for this key with / without the opt-in?
type PolicyCase struct {
	Shape string // "pool" | "rsa-bits" | "ec256-other" | "p256-generic" | "nil" | "rsa-value" | "ecdsa-value" | "ecdh-p256" | "x25519" | "bytes" | "string"
	Key   string // pool name (pool, *-value)
	Bits  int    // rsa-bits: exact modulus bit length
	Low   []byte // rsa-bits: low-order bytes of the modulus
	OptIn bool
}

var rsaBitChoices = []int{512, 1023, 1024, 1025, 2040, 2046, 2047, 2048, 2049, 2056, 3072, 4096, 8192}

func genPolicy(t *rapid.T) PolicyCase {
	c := PolicyCase{OptIn: rapid.Bool().Draw(t, "optin")}
	c.Shape = pickStr(t, "shape", []string{"pool", "pool", "pool", "pool", "rsa-bits", "rsa-bits", "rsa-bits", "ec256-other", "p256-generic", "nil", "rsa-value", "ecdsa-value", "ecdh-p256", "x25519", "bytes", "string"})
	switch c.Shape {
	case "pool":
		c.Key = genKey(t, "key")
	case "rsa-bits":
		c.Bits = rsaBitChoices[pick(t, "bits", len(rsaBitChoices))]
		c.Low = rapid.SliceOfN(rapid.Byte(), 0, 16).Draw(t, "low")
	case "rsa-value":
		c.Key = genKeyOf(t, "key", "rsa1024", "rsa2048", "rsa3072")
	case "ecdsa-value", "p256-generic":
		c.Key = genKeyOf(t, "key", "p256", "p384")
	}
	return c
}

func policyKey(c PolicyCase) (pub any, name string) {
	switch c.Shape {
	case "pool":
		return getKey(c.Key).Pub, c.Key
	case "rsa-bits":
		n := new(big.Int).Lsh(big.NewInt(1), uint(c.Bits-1))
		n.Or(n, new(big.Int).SetBytes(c.Low))
		n.SetBit(n, 0, 1)
		return &rsa.PublicKey{N: n, E: 65537}, fmt.Sprintf("rsa modulus of %d bits", n.BitLen())
	case "p256-generic":
		// the same curve described by a plain CurveParams value instead of the P256() singleton
		k := keys.Pick("p256", len(c.Key)).Pub.(*ecdsa.PublicKey)
		p := *elliptic.P256().Params()
		return &ecdsa.PublicKey{Curve: &p, X: k.X, Y: k.Y}, "P-256 as generic CurveParams"
	case "ec256-other":
		return getKey("bp256t1-0").Pub, "ECDSA key on brainpoolP256t1 (256 bits, not P-256)"
	case "nil":
		return nil, "nil"
	case "rsa-value":
		return *getKey(c.Key).Pub.(*rsa.PublicKey), "rsa.PublicKey value"
	case "ecdsa-value":
		return *getKey(c.Key).Pub.(*ecdsa.PublicKey), "ecdsa.PublicKey value"
	case "ecdh-p256":
		k, err := keys.Pick("p256", 0).Pub.(*ecdsa.PublicKey).ECDH()
		if err != nil {
			panic(err)
		}
		return k, "*ecdh.PublicKey (P-256)"
	case "x25519":
		k, err := ecdh.X25519().NewPublicKey(make([]byte, 32))
		if err != nil {
			panic(err)
		}
		return k, "*ecdh.PublicKey (X25519)"
	case "bytes":
		return []byte{1, 2, 3}, "[]byte"
	}
	return "key", "string"
}

func checkPolicy(t *testing.T, c PolicyCase) (v harness.Verdict) {
	ct.AllowVerificationWithNonCompliantKeys = c.OptIn
	defer func() { ct.AllowVerificationWithNonCompliantKeys = false }()
	pub, name := policyKey(c)
	v.NonTrivial = true
	v.Class("shape:" + c.Shape)
	if c.Shape == "pool" {
		v.Class("key:" + getKey(c.Key).Kind)
	}
	if c.Shape == "rsa-bits" {
		v.Class(fmt.Sprintf("rsa-bits:%d", c.Bits))
	}
	sv := verifierFor(&v, pub, name, c.OptIn)
	_ = sv
	if ct.AllowVerificationWithNonCompliantKeys != c.OptIn {
		v.Failf("optin-global-changed", "NewSignatureVerifier(%s) changed AllowVerificationWithNonCompliantKeys from %v", name, c.OptIn)
	}
	if ok, _ := refPolicy(pub, c.OptIn); ok {
		v.Class("constructible")
	} else {
		v.Class("refused")
	}
	return v
}

// Policy is the verifier-construction clause of C05.
var Policy = harness.Define(harness.Opts{
	Name:  "policy",
	Rule:  "ct.NewSignatureVerifier over pool keys of every kind, fabricated RSA moduli of 512..8192 bits around the 2048 boundary, P-256 given as generic CurveParams, and undefined key types (nil, Ed25519, DSA, ECDH, value-type structs, []byte, string) x opt-in flag (global reset per case): succeeds iff (RSA >= 2048 bits or ECDSA P-256) or (RSA / ECDSA and opt-in). Every case is non-trivial",
	Quick: 1000, Thorough: 4000,
}, genPolicy, checkPolicy)
