package c05

import (
	"crypto/dsa"
	"crypto/ecdsa"
	"crypto/rand"
	"crypto/rsa"
	"fmt"
	"io"
	"log"
	"math/big"
	"strings"
	"testing"
	"testing/cryptotest"

	"github.com/google/certificate-transparency-go/tls"
	"pgregory.net/rapid"

	"verif/internal/derx"
	"verif/internal/harness"
	"verif/internal/keys"
)

func init() { log.SetOutput(io.Discard) } // the code under test logs every trailing byte and every opt-in

// Mut is one mutation of a presented (key, algorithm pair, message, signature) tuple.
type Mut struct {
	Kind string `json:"k"`
	A    int    `json:"a,omitempty"`
	Key  string `json:"key,omitempty"`
	Data []byte `json:"d,omitempty"`
}

// BlobCase: a signature made with the standard library (or tls.CreateSignature), then up to two mutations.
type BlobCase struct {
	Seed   uint64 // pins crypto/rand for the case
	Key    string // signing key (pool name)
	Hash   int    // hash code used for signing (1..6; 0..255 only with Source "create")
	Source string // "std" | "create"
	Msg    []byte
	Muts   []Mut
}

// presented is the tuple handed to the verifier.
type presented struct {
	pub       any
	key       *keys.Key // pool entry behind pub (also for the value-type copy); nil for the nil key
	keyName   string
	hash, sig int
	msg, val  []byte
}

var sigMutKinds = []string{"flipsig", "flipsig", "append", "append", "trunc", "empty", "negr", "negs", "zeror", "zeros", "nonminr", "nonmins", "swaprs", "extra", "extra", "longlen", "compl", "compl", "addn", "dertweak", "dertweak", "stripr", "strips", "stripr", "strips", "zeroprepend", "zerostrip"}

func genSigMut(t *rapid.T, label string) Mut {
	m := Mut{Kind: pickStr(t, label+".sk", sigMutKinds)}
	switch m.Kind {
	case "flipsig", "trunc", "dertweak", "zeroprepend", "zerostrip":
		m.A = pick(t, label+".a", 1<<14)
	case "append":
		m.Data = rapid.SliceOfN(rapid.Byte(), 1, 6).Draw(t, label+".d")
	case "extra": // raw bytes, or a well-formed third element
		switch pick(t, label+".shape", 4) {
		case 0:
			m.Data = []byte{0x02, 0x01, byte(pick(t, label+".v", 128))}
		case 1:
			m.Data = [][]byte{{0x05, 0x00}, {0x04, 0x01, 0x41}, {0x30, 0x00}, {0x02, 0x02, 0x00, 0x80}}[pick(t, label+".tlv", 4)]
		default:
			m.Data = rapid.SliceOfN(rapid.Byte(), 1, 6).Draw(t, label+".d")
		}
	}
	return m
}

func genCode(t *rapid.T, label string, validMax int) int {
	if rapid.IntRange(0, 9).Draw(t, label+".valid") < 5 {
		return 1 + pick(t, label+".v", validMax)
	}
	return rapid.IntRange(0, 255).Draw(t, label+".any")
}

// genMut draws a mutation of the blob-level tuple. cur is the kind of the signing key.
func genMut(t *rapid.T, label string, signer *keys.Key) Mut {
	if strings.HasPrefix(signer.Kind, "rsa") && pick(t, label+".pss", 8) == 0 {
		// the same input signed with RSASSA-PSS but still declared rsa(1) = PKCS#1 v1.5
		return Mut{Kind: "pss", A: pick(t, label+".salt", 3)}
	}
	if strings.HasPrefix(signer.Kind, "rsa") && pick(t, label+".rsazero", 5) == 0 {
		// length-changing, value-preserving re-framings of an RSA signature (I2OSP is fixed-width)
		return Mut{Kind: pickStr(t, label+".zk", []string{"zeroprepend", "zerostrip", "zerostrip"}), A: pick(t, label+".a", 1<<14)}
	}
	switch pick(t, label+".m", 16) {
	case 0, 1:
		return Mut{Kind: "flipmsg", A: pick(t, label+".a", 1<<12)}
	case 2, 3:
		return Mut{Kind: "hash", A: genCode(t, label+".h", 6)}
	case 4, 5:
		return Mut{Kind: "sigalg", A: genCode(t, label+".s", 3)}
	case 6:
		// another key of the same type
		var kinds []string
		switch signer.Kind[:2] {
		case "rs":
			kinds = []string{"rsa1024", "rsa2048", "rsa3072", "rsa2050", "rsa2052", "rsa1030"}
		case "ds":
			kinds = []string{"dsa1024", "dsa2048", "dsa2048n224"}
		case "ed":
			kinds = []string{"ed25519"}
		default:
			kinds = []string{"p224", "p256", "p384", "p521", "bp256t1", signer.Kind, signer.Kind}
		}
		return Mut{Kind: "key", Key: genKeyOf(t, label+".k", kinds...)}
	case 7:
		return Mut{Kind: "key", Key: genKey(t, label+".k")}
	case 8:
		return Mut{Kind: pickStr(t, label+".odd", []string{"nilkey", "valkey", "valkey"})}
	default:
		return genSigMut(t, label)
	}
}

func genBlob(t *rapid.T) BlobCase {
	c := BlobCase{Seed: rapid.Uint64().Draw(t, "seed"), Key: genKey(t, "key"), Source: "std"}
	k := getKey(c.Key)
	if rapid.IntRange(0, 9).Draw(t, "sha256") < 5 {
		c.Hash = hashSHA256
	} else {
		c.Hash = 1 + pick(t, "hash", 6)
	}
	if ns := nativeSig(k); (ns == sigRSA || ns == sigECDSA) && rapid.IntRange(0, 4).Draw(t, "src") == 0 {
		c.Source = "create"
		if rapid.IntRange(0, 9).Draw(t, "createbad") == 0 {
			c.Hash = rapid.SampledFrom([]int{0, 7, 8, 64, 255, 0, rapid.IntRange(7, 255).Draw(t, "badhash")}).Draw(t, "badsel")
		}
	}
	n := rapid.IntRange(0, 40).Draw(t, "msglen")
	if rapid.IntRange(0, 9).Draw(t, "longmsg") == 0 {
		n = rapid.IntRange(41, 400).Draw(t, "msglen2")
	}
	c.Msg = rapid.SliceOfN(rapid.Byte(), n, n).Draw(t, "msg")
	nm := []int{0, 0, 0, 1, 1, 1, 1, 1, 2, 2, 2}[pick(t, "nmut", 11)]
	for i := 0; i < nm; i++ {
		c.Muts = append(c.Muts, genMut(t, fmt.Sprintf("mut%d", i), k))
	}
	return c
}

// applyMut applies m to p; it reports the effective kind (structural mutations of a value that is not a
// well-formed (r,s) SEQUENCE degrade to a bit flip).
func applyMut(p *presented, m Mut) string {
	switch m.Kind {
	case "flipmsg":
		p.msg = flipBit(p.msg, m.A)
	case "wsmsg": // white space / line ending / BOM added before or after the signed bytes
		ws := wsChoices[(m.A/2)%len(wsChoices)]
		if m.A%2 == 0 {
			p.msg = append(append([]byte(nil), p.msg...), ws...)
		} else {
			p.msg = append([]byte(ws), p.msg...)
		}
	case "flipsig":
		p.val = flipBit(p.val, m.A)
	case "hash":
		p.hash = m.A
	case "sigalg":
		p.sig = m.A
	case "key":
		k := getKey(m.Key)
		p.pub, p.key, p.keyName = k.Pub, k, k.Name
	case "nilkey":
		p.pub, p.key, p.keyName = nil, nil, "nil"
	case "valkey":
		switch k := p.pub.(type) {
		case *rsa.PublicKey:
			p.pub = *k
		case *ecdsa.PublicKey:
			p.pub = *k
		case *dsa.PublicKey:
			p.pub = *k
		default:
			p.pub = "not a key"
		}
		p.keyName = "value:" + p.keyName
	case "append":
		p.val = append(append([]byte(nil), p.val...), m.Data...)
	case "trunc":
		if len(p.val) > 0 {
			p.val = append([]byte(nil), p.val[:len(p.val)-1-m.A%len(p.val)]...)
		}
	case "empty":
		p.val = nil
	case "pss":
		// Re-sign the presented message under the presented key with RSASSA-PSS (salt auto / hash-sized /
		// empty), leaving the declared codes alone. A valid PSS signature is not a valid PKCS#1 v1.5 one.
		if p.key != nil {
			if priv, ok := p.key.Signer.(*rsa.PrivateKey); ok {
				if digest, h, ok := refDigest(p.hash, p.msg); ok {
					salt := []int{rsa.PSSSaltLengthAuto, rsa.PSSSaltLengthEqualsHash, 0}[m.A%3]
					sig, err := rsa.SignPSS(rand.Reader, priv, h, digest, &rsa.PSSOptions{SaltLength: salt, Hash: h})
					if err != nil { // hash-sized salt does not fit a small modulus
						sig, err = rsa.SignPSS(rand.Reader, priv, h, digest, &rsa.PSSOptions{SaltLength: 0, Hash: h})
					}
					if err == nil {
						p.val = sig
						return "pss"
					}
				}
			}
		}
		p.val = flipBit(p.val, m.A+3)
		return "flipsig"
	case "zeroprepend", "zerostrip":
		// the same integer in more or fewer octets: never the same signature value
		if m.Kind == "zerostrip" && len(p.val) > 1 && p.val[0] == 0 {
			out := p.val
			for len(out) > 1 && out[0] == 0 {
				out = out[1:]
			}
			p.val = append([]byte(nil), out...)
			return "zerostrip"
		}
		p.val = append(make([]byte, 1+m.A%3), p.val...)
		return "zeroprepend"
	default:
		r, s, rest, err := readRS(p.val)
		if err != nil {
			p.val = flipBit(p.val, m.A+len(m.Kind))
			return "flipsig"
		}
		rc, sc := derx.IntContent(r), derx.IntContent(s)
		var extra []byte
		long := false
		kindOut := m.Kind
		n := new(big.Int)
		if p.key != nil {
			if o := groupOrder(p.key); o != nil {
				n = o
			}
		}
		switch m.Kind {
		case "negr":
			rc = derx.IntContent(new(big.Int).Neg(r))
		case "negs":
			sc = derx.IntContent(new(big.Int).Neg(s))
		case "zeror":
			rc = []byte{0}
		case "zeros":
			sc = []byte{0}
		case "nonminr":
			rc = append([]byte{0}, rc...)
		case "nonmins":
			sc = append([]byte{0}, sc...)
		case "swaprs":
			rc, sc = sc, rc
		case "extra":
			extra = m.Data
		case "stripr", "strips":
			// drop the 0x00 sign octet of a component whose top bit is set: the DER value becomes negative
			// (a parser that reads the content as unsigned would still see the right number)
			strip := func(c []byte) ([]byte, bool) {
				if len(c) > 1 && c[0] == 0 && c[1]&0x80 != 0 {
					return c[1:], true
				}
				return c, false
			}
			var ok bool
			if m.Kind == "stripr" {
				if rc, ok = strip(rc); !ok {
					sc, ok = strip(sc)
				}
			} else {
				if sc, ok = strip(sc); !ok {
					rc, ok = strip(rc)
				}
			}
			if !ok { // neither component carries a sign octet: negate instead
				sc = derx.IntContent(new(big.Int).Neg(s))
				kindOut = "negs"
			} else {
				kindOut = "stripsign"
			}
		case "longlen":
			long = true
		case "dertweak":
		case "compl": // (r, n-s) is the other valid signature of the same message
			if n.Sign() > 0 && s.Sign() > 0 && s.Cmp(n) < 0 {
				sc = derx.IntContent(new(big.Int).Sub(n, s))
			} else {
				sc = derx.IntContent(new(big.Int).Add(s, big.NewInt(1)))
			}
		case "addn": // s+n: congruent but out of range
			if n.Sign() > 0 {
				sc = derx.IntContent(new(big.Int).Add(s, n))
			} else {
				sc = derx.IntContent(new(big.Int).Add(s, big.NewInt(1)))
			}
		default:
			panic("unknown mutation " + m.Kind)
		}
		if m.Kind == "dertweak" {
			p.val = append(derTweak(rc, sc, m.A), rest...)
			return fmt.Sprintf("dertweak:%d", m.A%nTweaks)
		}
		body := append(append(rawInt(rc), rawInt(sc)...), extra...)
		var out []byte
		if long {
			if len(body) < 0x80 {
				out = append([]byte{0x30, 0x81, byte(len(body))}, body...)
			} else {
				out = append([]byte{0x30, 0x82, byte(len(body) >> 8), byte(len(body))}, body...)
			}
		} else {
			out = derx.Seq(body)
		}
		p.val = append(out, rest...)
		return kindOut
	}
	return m.Kind
}

var wsChoices = []string{"\n", "\r\n", "\r", " ", "\t", "\xef\xbb\xbf", "\n\n", " \n"}

const nTweaks = 12

// derTweak re-encodes (r,s) with one deviation from DER. Every variant must be refused.
func derTweak(rc, sc []byte, which int) []byte {
	ri, si := rawInt(rc), rawInt(sc)
	body := append(append([]byte(nil), ri...), si...)
	l := derx.EncLen(len(body))
	cat := func(parts ...[]byte) []byte {
		var out []byte
		for _, x := range parts {
			out = append(out, x...)
		}
		return out
	}
	switch which % nTweaks {
	case 0: // SET instead of SEQUENCE
		return cat([]byte{0x31}, l, body)
	case 1: // indefinite length
		return cat([]byte{0x30, 0x80}, body, []byte{0, 0})
	case 2: // leading zero in the length
		return cat([]byte{0x30, 0x82, 0x00, byte(len(body))}, body)
	case 3: // constructed INTEGER
		return derx.Seq(cat([]byte{0x22}, ri[1:]), si)
	case 4: // long-form length on r
		return derx.Seq(cat([]byte{0x02, 0x81, byte(len(rc))}, rc), si)
	case 5: // empty r
		return derx.Seq([]byte{0x02, 0x00}, si)
	case 6: // high-tag-number form of tag 16
		return cat([]byte{0x3f, 0x10}, l, body)
	case 7: // context-class s
		return derx.Seq(ri, cat([]byte{0x82}, si[1:]))
	case 8: // s claims one byte more than the SEQUENCE holds
		return cat([]byte{0x30}, l, ri, []byte{0x02, byte(len(sc) + 1)}, sc)
	case 9: // the SEQUENCE swallows one byte that follows s
		return cat([]byte{0x30}, derx.EncLen(len(body)+1), body, []byte{0x00})
	case 10: // s missing
		return derx.Seq(ri)
	default: // the value wrapped in another SEQUENCE
		return derx.Seq(derx.Seq(body))
	}
}

// callVerify runs tls.VerifySignature and converts a panic into a report.
func callVerify(pub any, msg []byte, ds tls.DigitallySigned) (err error, panicked any) {
	defer func() {
		if r := recover(); r != nil {
			panicked = r
		}
	}()
	return tls.VerifySignature(pub, msg, ds), nil
}

func hashClass(code int) string {
	if code >= 1 && code <= 6 {
		return fmt.Sprintf("hash:%d", code)
	}
	return "hash:undefined"
}

func sigClass(code int) string {
	if code >= 1 && code <= 3 {
		return fmt.Sprintf("sigalg:%d", code)
	}
	return "sigalg:undefined"
}

// judge compares the verifier's answer with the reference on the presented tuple.
func judge(v *harness.Verdict, where string, got error, panicked any, want *refErr, p *presented) {
	desc := fmt.Sprintf("%s key=%s hash=%d sigalg=%d msg=%x sig=%x", where, p.keyName, p.hash, p.sig, p.msg, p.val)
	switch {
	case panicked != nil:
		v.Failf("verify-panic", "%s: panic %v (reference: %v)", desc, panicked, want)
	case got == nil && want != nil:
		sig := "accepts-invalid-" + want.Reason
		v.Failf(sig, "%s: accepted, reference refuses: %v", desc, want)
	case got != nil && want == nil:
		v.Failf("rejects-valid", "%s: refused (%v), reference accepts", desc, got)
	}
	if want == nil {
		v.Class("accept")
	} else {
		v.Class("reject", "reject:"+want.Reason)
	}
}

func checkBlob(t *testing.T, c BlobCase) (v harness.Verdict) {
	cryptotest.SetGlobalRandom(t, c.Seed)
	k := getKey(c.Key)
	p := &presented{pub: k.Pub, key: k, keyName: k.Name, hash: c.Hash, sig: nativeSig(k), msg: append([]byte(nil), c.Msg...)}
	v.Class("key:"+k.Kind, "src:"+c.Source)

	if c.Source == "create" {
		var ds tls.DigitallySigned
		var err error
		switch priv := k.Signer.(type) {
		case *rsa.PrivateKey:
			ds, err = tls.CreateSignature(*priv, tls.HashAlgorithm(c.Hash), c.Msg)
		case *ecdsa.PrivateKey:
			ds, err = tls.CreateSignature(*priv, tls.HashAlgorithm(c.Hash), c.Msg)
		default:
			ds, err = tls.CreateSignature(k.Signer, tls.HashAlgorithm(c.Hash), c.Msg)
		}
		if _, _, ok := refDigest(c.Hash, nil); !ok || p.sig == sigAnon || p.sig == sigDSA {
			v.NonTrivial = true
			v.Class("create-refused")
			if err == nil {
				v.Failf("create-accepts-unsupported", "CreateSignature(key %s, hash %d) succeeded: %v", k.Name, c.Hash, ds)
			}
			return v
		}
		if err != nil {
			v.Failf("create-error", "CreateSignature(key %s, hash %d): %v", k.Name, c.Hash, err)
			return v
		}
		if int(ds.Algorithm.Hash) != c.Hash || int(ds.Algorithm.Signature) != p.sig {
			v.Failf("create-wrong-algorithm", "CreateSignature(key %s, hash %d) declares (%d,%d)", k.Name, c.Hash, ds.Algorithm.Hash, ds.Algorithm.Signature)
		}
		if e := refVerify(k.Pub, int(ds.Algorithm.Hash), int(ds.Algorithm.Signature), c.Msg, ds.Signature); e != nil {
			v.Failf("create-invalid", "CreateSignature(key %s, hash %d) output fails the reference: %v (sig %x)", k.Name, c.Hash, e, ds.Signature)
			return v
		}
		p.val = ds.Signature
	} else {
		p.val = signStd(k, c.Hash, c.Msg)
		if len(c.Muts) > 0 && c.Muts[0].Kind == "zerostrip" && p.sig == sigRSA && k.Kind != "rsa2048" && k.Kind != "rsa3072" {
			// look (bounded) for a message whose signature starts with a zero octet: one in 256 for a
			// byte-aligned modulus, far more often when the top octet of the modulus holds few bits
			for i := 0; i < 64 && p.val[0] != 0; i++ {
				p.msg = append(append([]byte(nil), c.Msg...), byte(i), 0x5a)
				p.val = signStd(k, c.Hash, p.msg)
			}
			if p.val[0] == 0 {
				v.Class("rsa-signature-with-leading-zero")
			}
		}
		if p.sig != sigAnon {
			if e := refVerify(k.Pub, p.hash, p.sig, p.msg, p.val); e != nil {
				v.Failf("harness-selfcheck", "fresh stdlib signature fails the reference: %v", e)
				return v
			}
		} else {
			p.sig = sigECDSA // an Ed25519 value has no code of its own: declare something
		}
	}

	for _, m := range c.Muts {
		v.Class("mut:" + applyMut(p, m))
	}
	v.Class(fmt.Sprintf("muts:%d", len(c.Muts)), hashClass(p.hash), sigClass(p.sig))
	v.NonTrivial = len(c.Muts) > 0 || p.hash != hashSHA256 || p.sig == sigDSA

	ds := tls.DigitallySigned{Algorithm: tls.SignatureAndHashAlgorithm{Hash: tls.HashAlgorithm(p.hash), Signature: tls.SignatureAlgorithm(p.sig)}, Signature: p.val}
	got, pan := callVerify(p.pub, p.msg, ds)
	want := refVerify(p.pub, p.hash, p.sig, p.msg, p.val)
	judge(&v, "VerifySignature", got, pan, want, p)
	if want == nil && len(c.Muts) > 0 {
		v.Class("accept-after-mutation")
	}
	return v
}

// Blob is the DigitallySigned level of C05.
var Blob = harness.Define(harness.Opts{
	Name:  "blob",
	Rule:  "pool key (RSA 1024/2048/3072, P-224/256/384/521, DSA 1024/2048, Ed25519) x hash code x message x signature from stdlib signing or tls.CreateSignature x 0-2 mutations (bit flips of message / signature, key swap within and across types, nil / value-type key, either code over 0..255, appended bytes, truncation, negative / zero / non-minimal r or s, swapped r/s, elements added inside the SEQUENCE, non-minimal length, n-s, s+n); tls.VerifySignature must agree with the reference verifier. Non-trivial: at least one mutation or an algorithm pair other than SHA-256 with RSA/ECDSA",
	Quick: 10000, Thorough: 40000,
}, genBlob, checkBlob)
