package c05

import (
	"bytes"
	"context"
	"encoding/base64"
	"encoding/pem"
	"fmt"
	"io"
	"net/http"
	"strings"
	"testing"
	"testing/cryptotest"

	ct "github.com/google/certificate-transparency-go"
	"github.com/google/certificate-transparency-go/client"
	"github.com/google/certificate-transparency-go/jsonclient"
	"github.com/google/certificate-transparency-go/tls"
	"pgregory.net/rapid"

	"verif/internal/harness"
	"verif/internal/keys"
	"verif/internal/pki"
	"verif/internal/rfc6962"
)

// ClientCase: a log client is constructed from key material given in one of many textual shapes, then
// asked for a tree head that a scripted transport serves, signed by the given key, by the given key with
// one bit flipped, or by a key that appears nowhere in the options.
type ClientCase struct {
	Seed      uint64
	Key       string // the key the options are meant to designate
	Other     string // a second key that some shapes also place in the options
	Stranger  string // a key that never appears in the options
	Shape     string
	Aux       int    // shape parameter (label, filler, ...)
	Signer    string // "given" | "flipped" | "stranger"
	Hash      int
	TreeSize  uint64
	Timestamp uint64
	Root      []byte
	FlipBit   int
}

var clientShapes = []string{"der", "der", "pem", "pem", "pem", "both", "label", "label", "label", "lead", "trail", "two-other-first", "two-key-first", "two-keys", "ecparam", "cert", "garbage", "badbody", "headers", "empty-block", "none"}
var pemLabels = []string{"EC PUBLIC KEY", "RSA PUBLIC KEY", "CERTIFICATE", "PRIVATE KEY", "public key", "PUBLIC KEY ", "X", "EC PARAMETERS", "TRUSTED PUBLIC KEY"}
var fillers = []string{"\n", " ", "junk\n", "# log key\n", "-----BEGIN\n", "-----END PUBLIC KEY-----\n", "\r\n\r\n", "\x00"}

var spkiKinds = []string{"p256", "p256", "p256", "p256", "p256", "p256", "p256", "rsa2048", "rsa2048", "rsa2048", "rsa2048", "rsa3072", "rsa2050", "rsa2062", "p384", "rsa1024", "p224", "dsa1024", "ed25519"}

func genClient(t *rapid.T) ClientCase {
	c := ClientCase{Seed: rapid.Uint64().Draw(t, "seed"), Shape: pickStr(t, "shape", clientShapes), Aux: pick(t, "aux", 1<<10),
		Signer: pickStr(t, "signer", []string{"given", "given", "given", "flipped", "stranger", "stranger"}), Hash: hashSHA256,
		TreeSize: genU64(t, "size"), Timestamp: genU64(t, "ts"), Root: genBytes32(t, "root"), FlipBit: pick(t, "flip", 1<<12)}
	c.Key = genKeyOf(t, "key", spkiKinds...)
	for i := 0; ; i++ {
		c.Other = genKeyOf(t, fmt.Sprintf("other%d", i), "p256", "rsa2048", "p384")
		c.Stranger = genKeyOf(t, fmt.Sprintf("stranger%d", i), "p256", "p256", "rsa2048", "rsa2048", "p384", "rsa1024")
		if c.Other != c.Key && c.Stranger != c.Key && c.Stranger != c.Other {
			break
		}
	}
	if pick(t, "althash", 5) == 0 {
		c.Hash = 1 + pick(t, "hash", 6)
	}
	return c
}

func pemBlock(label string, der []byte) string {
	return string(pem.EncodeToMemory(&pem.Block{Type: label, Bytes: der}))
}

var clientCertOnce = map[string][]byte{}

// clientOptions renders the key material; standard reports the shapes the documentation defines
// (a DER SubjectPublicKeyInfo, or one PEM block labelled PUBLIC KEY and nothing else).
func clientOptions(c ClientCase) (opts jsonclient.Options, standard, given bool) {
	k, o := getKey(c.Key), getKey(c.Other)
	std := pemBlock("PUBLIC KEY", spkiOf(k))
	given = true
	switch c.Shape {
	case "der":
		opts.PublicKeyDER, standard = spkiOf(k), true
	case "pem":
		opts.PublicKey, standard = std, true
	case "both": // the documentation says DER wins
		opts.PublicKeyDER, opts.PublicKey, standard = spkiOf(k), pemBlock("PUBLIC KEY", spkiOf(o)), true
	case "label":
		opts.PublicKey = pemBlock(pemLabels[c.Aux%len(pemLabels)], spkiOf(k))
	case "lead":
		opts.PublicKey = fillers[c.Aux%len(fillers)] + std
	case "trail":
		opts.PublicKey = std + fillers[c.Aux%len(fillers)]
	case "two-other-first":
		opts.PublicKey = pemBlock(pemLabels[c.Aux%len(pemLabels)], spkiOf(o)) + std
	case "two-key-first":
		opts.PublicKey = std + pemBlock(pemLabels[c.Aux%len(pemLabels)], spkiOf(o))
	case "two-keys":
		opts.PublicKey = std + pemBlock("PUBLIC KEY", spkiOf(o))
	case "ecparam": // `openssl ecparam -genkey` output: parameters and a private key, no public key block
		opts.PublicKey = pemBlock("EC PARAMETERS", []byte{0x06, 0x08, 0x2a, 0x86, 0x48, 0xce, 0x3d, 0x03, 0x01, 0x07}) + pemBlock("EC PRIVATE KEY", k.PKCS8)
	case "cert":
		der := clientCertOnce[k.Name]
		if der == nil {
			der = pki.Issue(nil, pki.CATemplate("c05 "+k.Name, keys.Pick("p256", 0), 1, nil), "c05").DER
			clientCertOnce[k.Name] = der
		}
		opts.PublicKey = pemBlock("CERTIFICATE", der)
	case "garbage":
		opts.PublicKey = []string{"not a key", base64.StdEncoding.EncodeToString(spkiOf(k)), "-----BEGIN PUBLIC KEY-----\n", " "}[c.Aux%4]
	case "badbody":
		opts.PublicKey = pemBlock("PUBLIC KEY", spkiOf(k)[:len(spkiOf(k))-1-c.Aux%8])
	case "headers":
		opts.PublicKey = string(pem.EncodeToMemory(&pem.Block{Type: "PUBLIC KEY", Headers: map[string]string{"Comment": "log key"}, Bytes: spkiOf(k)}))
	case "empty-block":
		opts.PublicKey = pemBlock(pemLabels[c.Aux%len(pemLabels)], nil)
	case "none":
		given = false
	default:
		panic("shape " + c.Shape)
	}
	return opts, standard, given
}

type rtFunc func(*http.Request) (*http.Response, error)

func (f rtFunc) RoundTrip(r *http.Request) (*http.Response, error) { return f(r) }

func checkClient(t *testing.T, c ClientCase) (v harness.Verdict) {
	cryptotest.SetGlobalRandom(t, c.Seed)
	ct.AllowVerificationWithNonCompliantKeys = false
	k := getKey(c.Key)
	opts, standard, given := clientOptions(c)
	v.NonTrivial = c.Shape != "pem" && c.Shape != "der"
	v.Class("shape:"+c.Shape, "key:"+k.Kind, "signer:"+c.Signer)

	// the tree head that will be served
	signer := k
	if c.Signer == "stranger" {
		signer = getKey(c.Stranger)
	}
	input, err := rfc6962.STHSignatureInput(0, c.Timestamp, c.TreeSize, to32(c.Root))
	if err != nil {
		v.Failf("harness-selfcheck", "%v", err)
		return v
	}
	sigCode := nativeSig(signer)
	var val []byte
	if sigCode == sigAnon {
		sigCode, val = sigECDSA, signStd(signer, c.Hash, input)
	} else {
		val = signStd(signer, c.Hash, input)
	}
	if c.Signer == "flipped" {
		val = flipBit(val, c.FlipBit)
	}
	ds, err := rfc6962.EncodeDS(rfc6962.DigitallySigned{Hash: uint8(c.Hash), Sig: uint8(sigCode), Signature: val})
	if err != nil {
		v.Failf("harness-selfcheck", "%v", err)
		return v
	}
	body := fmt.Sprintf(`{"tree_size":%d,"timestamp":%d,"sha256_root_hash":%q,"tree_head_signature":%q}`, c.TreeSize, c.Timestamp,
		base64.StdEncoding.EncodeToString(c.Root), base64.StdEncoding.EncodeToString(ds))
	requests := 0
	hc := &http.Client{Transport: rtFunc(func(r *http.Request) (*http.Response, error) {
		requests++
		if !strings.HasSuffix(r.URL.Path, "/ct/v1/get-sth") {
			return &http.Response{StatusCode: 404, Header: http.Header{}, Body: io.NopCloser(bytes.NewReader(nil)), Request: r}, nil
		}
		return &http.Response{StatusCode: 200, Header: http.Header{"Content-Type": {"application/json"}}, Body: io.NopCloser(strings.NewReader(body)), Request: r}, nil
	})}

	var lc *client.LogClient
	var nerr error
	var pan any
	func() {
		defer func() { pan = recover() }()
		lc, nerr = client.New("https://log.example/c05", hc, opts)
	}()
	if pan != nil {
		v.Failf("client-new-panic", "client.New(%s) panicked: %v", c.Shape, pan)
		return v
	}
	policyOK, class := refPolicy(k.Pub, false)
	if standard {
		switch {
		case policyOK && nerr != nil:
			v.Failf("client-refuses-"+class, "client.New with a %s key given as %s failed: %v", class, c.Shape, nerr)
			return v
		case !policyOK && nerr == nil:
			v.Failf("policy-admits-"+class, "client.New with a %s key given as %s succeeded without opt-in", class, c.Shape)
			return v
		}
	}
	if nerr != nil || lc == nil {
		v.Class("new:refused")
		return v
	}
	v.Class("new:ok")
	if !given {
		v.Class("no-key-no-verification") // documented: nothing is verified; the statement is silent
		return v
	}

	// what the reference says about the served signature under the designated key
	want := refVerify(k.Pub, c.Hash, sigCode, input, val)
	var sth *ct.SignedTreeHead
	var gerr error
	func() {
		defer func() { pan = recover() }()
		sth, gerr = lc.GetSTH(context.Background())
	}()
	p := &presented{pub: k.Pub, key: k, keyName: k.Name + " given as " + c.Shape + ", tree head signed by " + signer.Name, hash: c.Hash, sig: sigCode, msg: input, val: val}
	switch {
	case pan != nil:
		v.Failf("verify-panic", "GetSTH panicked: %v", pan)
	case standard:
		// the designated key is unambiguous: exactly the reference verdict
		judge(&v, "LogClient.GetSTH", gerr, nil, want, p)
		if gerr == nil && (sth == nil || sth.TreeSize != c.TreeSize || sth.Timestamp != c.Timestamp || sth.SHA256RootHash != to32(c.Root)) {
			v.Failf("client-sth-differs", "GetSTH returned a tree head other than the served one")
		}
	case c.Signer == "stranger" || c.Signer == "flipped":
		// However the implementation reads unusual key text, a client that was given key material
		// must not hand out a tree head signed by a key that appears nowhere in it (or a corrupted one).
		v.Class("nonstandard-accepted-by-new")
		if gerr == nil {
			v.Failf("client-accepts-foreign-key", "client.New accepted key material of shape %s (%q...), then GetSTH returned a tree head signed by %s (%s): %v",
				c.Shape, trunc(opts.PublicKey, 60), signer.Name, c.Signer, want)
		} else {
			v.Class("reject", "reject:foreign-or-corrupt")
		}
	default:
		v.Class("nonstandard-accepted-by-new", "unasserted")
	}
	// the direct entry point must say the same as GetSTH
	if sigCode <= 255 {
		derr := lc.VerifySTHSignature(ct.SignedTreeHead{Version: ct.V1, TreeSize: c.TreeSize, Timestamp: c.Timestamp, SHA256RootHash: to32(c.Root),
			TreeHeadSignature: ct.DigitallySigned{Algorithm: tlsAlg(c.Hash, sigCode), Signature: val}})
		if (derr == nil) != (gerr == nil) {
			v.Failf("client-entry-points-disagree", "GetSTH says %v, VerifySTHSignature says %v", gerr, derr)
		}
	}
	if requests == 0 {
		v.Failf("harness-selfcheck", "the scripted transport was never asked")
	}
	return v
}

func tlsAlg(h, s int) tls.SignatureAndHashAlgorithm {
	return tls.SignatureAndHashAlgorithm{Hash: tls.HashAlgorithm(h), Signature: tls.SignatureAlgorithm(s)}
}

func trunc(s string, n int) string {
	if len(s) > n {
		return s[:n]
	}
	return s
}

// Client is the client-construction clause: a client given key material verifies with it or is not built.
var Client = harness.Define(harness.Opts{
	Name:  "client",
	Rule:  "client.New with the log key given as DER, as one PEM PUBLIC KEY block, as both, or in non-standard text (other labels, filler before / after, two blocks in either order, openssl ecparam output, a certificate, garbage, truncated body, PEM headers, empty block, nothing) x tree head served by a scripted transport, signed by the given key, by it with one bit flipped, or by a key absent from the options. Standard shapes: New succeeds iff the key policy allows and GetSTH follows the reference verdict. Other shapes: New fails, or GetSTH refuses every tree head not validly signed by the given key material. Non-trivial: any shape other than plain DER / PEM",
	Quick: 1500, Thorough: 8000,
}, genClient, checkClient)
