// Package c05: signature verification accepts exactly the valid log signatures.
//
// ref.go is the oracle side: a reference verifier for RFC 5246 DigitallySigned values written for the
// harness (hash by declared code, key type against declared signature code, strict DER (r,s) reader),
// the RFC 6962 key policy, and deterministic signing helpers built on the standard library. Nothing
// here imports the repository's tls, asn1 or ct packages.
package c05

import (
	"crypto"
	"crypto/dsa"
	"crypto/ecdsa"
	"crypto/ed25519"
	"crypto/elliptic"
	"crypto/md5"
	"crypto/rand"
	"crypto/rsa"
	"crypto/sha1"
	"crypto/sha256"
	"crypto/sha512"
	"errors"
	"fmt"
	"math/big"

	"pgregory.net/rapid"

	"verif/internal/derx"
	"verif/internal/keys"
)

// Codes of RFC 5246 s7.4.1.4.1.
const (
	hashNone, hashMD5, hashSHA1, hashSHA224, hashSHA256, hashSHA384, hashSHA512 = 0, 1, 2, 3, 4, 5, 6
	sigAnon, sigRSA, sigDSA, sigECDSA                                           = 0, 1, 2, 3
)

// refErr is a refusal of the reference verifier; Reason is a stable mechanism label.
type refErr struct {
	Reason string
	Detail string
}

func (e *refErr) Error() string { return e.Reason + ": " + e.Detail }

func refuse(reason, format string, a ...any) *refErr {
	return &refErr{Reason: reason, Detail: fmt.Sprintf(format, a...)}
}

// refDigest hashes msg under the declared hash code.
func refDigest(code int, msg []byte) ([]byte, crypto.Hash, bool) {
	switch code {
	case hashMD5:
		d := md5.Sum(msg)
		return d[:], crypto.MD5, true
	case hashSHA1:
		d := sha1.Sum(msg)
		return d[:], crypto.SHA1, true
	case hashSHA224:
		d := sha256.Sum224(msg)
		return d[:], crypto.SHA224, true
	case hashSHA256:
		d := sha256.Sum256(msg)
		return d[:], crypto.SHA256, true
	case hashSHA384:
		d := sha512.Sum384(msg)
		return d[:], crypto.SHA384, true
	case hashSHA512:
		d := sha512.Sum512(msg)
		return d[:], crypto.SHA512, true
	}
	return nil, 0, false
}

// derLen reads a DER definite length (minimal form only) at b[0:]; returns the length and header size.
func derLen(b []byte) (n, hdr int, err error) {
	if len(b) == 0 {
		return 0, 0, errors.New("missing length")
	}
	if b[0] < 0x80 {
		return int(b[0]), 1, nil
	}
	k := int(b[0] & 0x7f)
	if k == 0 {
		return 0, 0, errors.New("indefinite length")
	}
	if k > 3 {
		return 0, 0, errors.New("length of length > 3")
	}
	if len(b) < 1+k {
		return 0, 0, errors.New("truncated length")
	}
	if b[1] == 0 {
		return 0, 0, errors.New("leading zero in length")
	}
	for i := 0; i < k; i++ {
		n = n<<8 | int(b[1+i])
	}
	if n < 0x80 {
		return 0, 0, errors.New("long form for short length")
	}
	return n, 1 + k, nil
}

// derTLV reads one TLV with a single-octet identifier equal to tag.
func derTLV(b []byte, tag byte) (content, rest []byte, err error) {
	if len(b) == 0 {
		return nil, nil, errors.New("missing element")
	}
	if b[0] != tag {
		return nil, nil, fmt.Errorf("identifier octet %#02x, want %#02x", b[0], tag)
	}
	n, hdr, err := derLen(b[1:])
	if err != nil {
		return nil, nil, err
	}
	if len(b)-1-hdr < n {
		return nil, nil, errors.New("truncated content")
	}
	return b[1+hdr : 1+hdr+n], b[1+hdr+n:], nil
}

// derInt reads a DER INTEGER (minimal two's complement).
func derInt(b []byte) (v *big.Int, rest []byte, err error) {
	c, rest, err := derTLV(b, 0x02)
	if err != nil {
		return nil, nil, err
	}
	if len(c) == 0 {
		return nil, nil, errors.New("empty INTEGER")
	}
	if len(c) > 1 && ((c[0] == 0x00 && c[1] < 0x80) || (c[0] == 0xff && c[1] >= 0x80)) {
		return nil, nil, errors.New("INTEGER not minimal")
	}
	v = new(big.Int).SetBytes(c)
	if c[0]&0x80 != 0 {
		v.Sub(v, new(big.Int).Lsh(big.NewInt(1), uint(8*len(c))))
	}
	return v, rest, nil
}

// errExtra marks a SEQUENCE that holds more than the two INTEGERs.
var errExtra = errors.New("elements after s inside the SEQUENCE")

// readRS is the strict reader of Dss-Sig-Value / ECDSA-Sig-Value ::= SEQUENCE { r INTEGER, s INTEGER }.
// Bytes after the complete SEQUENCE are returned as rest (the property ignores them).
func readRS(sig []byte) (r, s *big.Int, rest []byte, err error) {
	body, rest, err := derTLV(sig, 0x30)
	if err != nil {
		return nil, nil, nil, err
	}
	r, body, err = derInt(body)
	if err != nil {
		return nil, nil, nil, fmt.Errorf("r: %v", err)
	}
	s, body, err = derInt(body)
	if err != nil {
		return nil, nil, nil, fmt.Errorf("s: %v", err)
	}
	if len(body) != 0 {
		return r, s, rest, errExtra
	}
	return r, s, rest, nil
}

// refVerify is the reference predicate: nil iff sig is a valid signature of msg for pub under the
// declared (hash, signature) codes.
func refVerify(pub any, hashCode, sigCode int, msg, sig []byte) *refErr {
	digest, h, ok := refDigest(hashCode, msg)
	if !ok {
		return refuse("hash-code", "hash code %d is not one of md5..sha512", hashCode)
	}
	switch sigCode {
	case sigRSA:
		k, ok := pub.(*rsa.PublicKey)
		if !ok || k == nil {
			return refuse("key-type", "RSA declared, key is %T", pub)
		}
		if err := rsa.VerifyPKCS1v15(k, h, digest, sig); err != nil {
			return refuse("crypto", "rsa: %v", err)
		}
		return nil
	case sigDSA, sigECDSA:
		var dk *dsa.PublicKey
		var ek *ecdsa.PublicKey
		if sigCode == sigDSA {
			dk, ok = pub.(*dsa.PublicKey)
			if !ok || dk == nil {
				return refuse("key-type", "DSA declared, key is %T", pub)
			}
		} else {
			ek, ok = pub.(*ecdsa.PublicKey)
			if !ok || ek == nil {
				return refuse("key-type", "ECDSA declared, key is %T", pub)
			}
		}
		r, s, _, err := readRS(sig)
		if err == errExtra {
			return refuse("der-extra", "%v", err)
		}
		if err != nil {
			return refuse("der", "%v", err)
		}
		if r.Sign() <= 0 || s.Sign() <= 0 {
			return refuse("nonpositive", "r sign %d, s sign %d", r.Sign(), s.Sign())
		}
		if dk != nil {
			if !dsa.Verify(dk, digest, r, s) {
				return refuse("crypto", "dsa.Verify false")
			}
		} else if !ecdsa.Verify(ek, digest, r, s) {
			return refuse("crypto", "ecdsa.Verify false")
		}
		return nil
	}
	return refuse("sig-code", "signature code %d is not rsa/dsa/ecdsa", sigCode)
}

// refPolicy: may a SignatureVerifier be constructed for pub (RFC 6962 s2.1.4: RSA >= 2048 bits with
// SHA-256 or ECDSA on P-256)? Non-compliant RSA / ECDSA keys only after the explicit opt-in.
func refPolicy(pub any, optIn bool) (ok bool, class string) {
	switch k := pub.(type) {
	case *rsa.PublicKey:
		if k.N.BitLen() >= 2048 {
			return true, "rsa-compliant"
		}
		return optIn, "rsa-small"
	case *ecdsa.PublicKey:
		p := k.Curve.Params()
		q := elliptic.P256().Params()
		if p.P.Cmp(q.P) == 0 && p.N.Cmp(q.N) == 0 && p.B.Cmp(q.B) == 0 && p.Gx.Cmp(q.Gx) == 0 && p.Gy.Cmp(q.Gy) == 0 && p.BitSize == 256 {
			return true, "ecdsa-p256"
		}
		if p.BitSize == 256 {
			return optIn, "ecdsa-other-256bit-curve"
		}
		return optIn, "ecdsa-other-curve"
	}
	return false, "undefined-key-type"
}

// --- keys ---

// kindWeights biases key choice: compliant kinds most often, slow kinds (rsa3072, dsa) less.
var kindWeights = []struct {
	kind string
	w    int
}{{"p256", 7}, {"rsa2048", 5}, {"p384", 3}, {"p521", 2}, {"p224", 2}, {"rsa1024", 3}, {"rsa3072", 2}, {"dsa1024", 3}, {"dsa2048", 2}, {"ed25519", 2}, {"rsa2050", 2}, {"rsa2052", 1}, {"rsa2062", 1}, {"rsa1030", 1}, {"bp256t1", 1}, {"dsa2048n224", 2}}

var allKinds = func() []string {
	var out []string
	for _, kw := range kindWeights {
		for i := 0; i < kw.w; i++ {
			out = append(out, kw.kind)
		}
	}
	return out
}()

// pick draws an index in [0,n) close to uniformly (rapid's own integer generators favour small values,
// which would starve the rarer key kinds and mutations); it still shrinks towards index 0.
func pick(t *rapid.T, label string, n int) int {
	x := rapid.Uint32().Draw(t, label)
	x *= 2654435761
	x ^= x >> 15
	x *= 2246822519
	x ^= x >> 13
	return int(x % uint32(n))
}

func pickStr(t *rapid.T, label string, l []string) string { return l[pick(t, label, len(l))] }

func genKey(t *rapid.T, label string) string {
	return pickKey(pickStr(t, label+".kind", allKinds), pick(t, label+".i", 16)).Name
}

// genKeyOf draws a key among the given kinds.
func genKeyOf(t *rapid.T, label string, kinds ...string) string {
	return pickKey(pickStr(t, label+".kind", kinds), pick(t, label+".i", 16)).Name
}

// nativeSig is the signature code that belongs to the key's type (0 for Ed25519: none exists).
func nativeSig(k *keys.Key) int {
	switch k.Pub.(type) {
	case *rsa.PublicKey:
		return sigRSA
	case *ecdsa.PublicKey:
		return sigECDSA
	case *dsa.PublicKey:
		return sigDSA
	}
	return sigAnon
}

// signStd signs msg with the standard library only. The hash code must be 1..6. Randomness comes from
// crypto/rand, which every case pins with cryptotest.SetGlobalRandom, so a Case replays byte for byte.
func signStd(k *keys.Key, hashCode int, msg []byte) []byte {
	digest, h, ok := refDigest(hashCode, msg)
	if !ok {
		panic("signStd: bad hash code")
	}
	switch {
	case k.DSA != nil:
		r, s, err := dsa.Sign(rand.Reader, k.DSA, digest)
		if err != nil {
			panic(err)
		}
		return derx.Seq(derx.Int(r), derx.Int(s))
	}
	switch priv := k.Signer.(type) {
	case *rsa.PrivateKey:
		sig, err := rsa.SignPKCS1v15(rand.Reader, priv, h, digest)
		if err != nil {
			panic(err)
		}
		return sig
	case *ecdsa.PrivateKey:
		sig, err := ecdsa.SignASN1(rand.Reader, priv, digest)
		if err != nil {
			panic(err)
		}
		return sig
	case ed25519.PrivateKey:
		return ed25519.Sign(priv, msg) // no TLS 1.2 code exists for it: never a valid DigitallySigned
	}
	panic(fmt.Sprintf("signStd: key %s", k.Name))
}

// groupOrder returns the order of the subgroup the signature scalars live in (nil for RSA / Ed25519).
func groupOrder(k *keys.Key) *big.Int {
	switch p := k.Pub.(type) {
	case *ecdsa.PublicKey:
		return p.Curve.Params().N
	case *dsa.PublicKey:
		return p.Q
	}
	return nil
}

func flipBit(b []byte, bit int) []byte {
	out := append([]byte(nil), b...)
	if len(out) == 0 {
		return []byte{byte(1 << uint(bit&7))}
	}
	bit %= len(out) * 8
	if bit < 0 {
		bit += len(out) * 8
	}
	out[bit/8] ^= 1 << uint(bit%8)
	return out
}

// rawInt encodes an INTEGER TLV with exactly the given content octets (possibly non-minimal / empty).
func rawInt(content []byte) []byte { return derx.TLV(0x02, content) }
