package c05

import (
	"fmt"
	"testing"
	"testing/cryptotest"

	ct "github.com/google/certificate-transparency-go"
	"github.com/google/certificate-transparency-go/tls"
	"pgregory.net/rapid"

	"verif/internal/harness"
	"verif/internal/keys"
	"verif/internal/rfc6962"
)

// ObjCase: an SCT (over an X.509 or precert entry) or an STH, signed over the rfc6962 reference
// encoding with a pool key, then presented with 0-2 mutations of signed fields, unsigned fields, the
// key, the algorithm codes or the signature value.
type ObjCase struct {
	Seed  uint64
	Kind  string // "sct" | "sth"
	Key   string
	Hash  int // 1..6
	OptIn bool

	Timestamp uint64
	Ext       []byte
	EntryType int // 0 x509, 1 precert
	Cert      []byte
	IKH       []byte // 32
	TBS       []byte
	LogID     []byte // 32
	TreeSize  uint64
	Root      []byte // 32

	// BigEntry > 0 stretches Cert and TBS to that many octets (filler derived from Seed), BigExt likewise
	// the extensions: lengths at the one / two / three byte boundaries of the length prefixes.
	BigEntry int
	BigExt   int

	Muts []Mut // Kind "field": Key names the field, A / Data parametrise the change; else a blob mutation
}

// objState is the presented object.
type objState struct {
	version   int
	logID     [32]byte
	ts        uint64
	ext       []byte
	etype     int
	cert      []byte
	ikh       [32]byte
	tbs       []byte
	leafTS    uint64
	leafExt   []byte
	index     int64
	treeSize  uint64
	root      [32]byte
	sthLogID  [32]byte
	p         presented
	signedMut bool // a signed field really changed
}

var sctSigned = []string{"version", "timestamp", "ext", "entrytype", "entry", "entry", "ikh"}
var sctUnsigned = []string{"logid", "leafts", "leafext", "index", "inactive"}
var sthSigned = []string{"version", "timestamp", "treesize", "root"}
var sthUnsigned = []string{"logid"}

func genObjMut(t *rapid.T, label string, kind string, signer *keys.Key) Mut {
	signed, unsigned := sctSigned, sctUnsigned
	if kind == "sth" {
		signed, unsigned = sthSigned, sthUnsigned
	}
	switch x := pick(t, label+".m", 10); {
	case x < 4:
		return Mut{Kind: "field", Key: pickStr(t, label+".sf", signed), A: pick(t, label+".a", 1<<16), Data: rapid.SliceOfN(rapid.Byte(), 1, 3).Draw(t, label+".d")}
	case x < 7:
		return Mut{Kind: "field", Key: pickStr(t, label+".uf", unsigned), A: pick(t, label+".a", 1<<16), Data: rapid.SliceOfN(rapid.Byte(), 1, 3).Draw(t, label+".d")}
	default:
		for {
			m := genMut(t, label+".b", signer)
			if m.Kind != "flipmsg" { // the message is derived from the object here
				return m
			}
			label += "'"
		}
	}
}

func genBytes32(t *rapid.T, label string) []byte {
	return rapid.SliceOfN(rapid.Byte(), 32, 32).Draw(t, label)
}

func genU64(t *rapid.T, label string) uint64 {
	switch pick(t, label+".shape", 6) {
	case 0:
		return 0
	case 1:
		return ^uint64(0)
	case 2:
		return uint64(1)<<63 - 1 + uint64(pick(t, label+".d", 3))
	case 3:
		return 1700000000000 + uint64(pick(t, label+".ms", 1<<30))
	}
	return rapid.Uint64().Draw(t, label)
}

var bigSizes = []int{255, 256, 65535, 65536, 65537, 70000, 131072, 200000}

// stretch extends b to n octets with a filler that depends on seed (deterministic, incompressible enough).
func stretch(b []byte, n int, seed uint64) []byte {
	out := append(make([]byte, 0, n), b...)
	x := seed | 1
	for len(out) < n {
		x ^= x << 13
		x ^= x >> 7
		x ^= x << 17
		out = append(out, byte(x>>24))
	}
	return out
}

func genObj(t *rapid.T) ObjCase {
	c := ObjCase{Seed: rapid.Uint64().Draw(t, "seed"), Kind: pickStr(t, "kind", []string{"sct", "sct", "sth"}), OptIn: rapid.Bool().Draw(t, "optin")}
	for {
		c.Key = genKey(t, "key")
		if getKey(c.Key).Kind != "ed25519" || pick(t, "ed", 4) == 0 {
			break
		}
	}
	if pick(t, "sha256", 10) < 7 {
		c.Hash = hashSHA256
	} else {
		c.Hash = 1 + pick(t, "hash", 6)
	}
	c.Timestamp = genU64(t, "ts")
	if c.Kind == "sct" {
		if rapid.Bool().Draw(t, "hasext") {
			c.Ext = rapid.SliceOfN(rapid.Byte(), 1, 12).Draw(t, "ext")
		}
		c.EntryType = pick(t, "etype", 2)
		c.Cert = rapid.SliceOfN(rapid.Byte(), 1, 48).Draw(t, "cert")
		c.TBS = rapid.SliceOfN(rapid.Byte(), 1, 48).Draw(t, "tbs")
		c.IKH = genBytes32(t, "ikh")
	} else {
		c.TreeSize = genU64(t, "size")
		c.Root = genBytes32(t, "root")
	}
	c.LogID = genBytes32(t, "logid")
	if c.Kind == "sct" && pick(t, "big", 12) == 0 {
		c.BigEntry = bigSizes[pick(t, "bigsize", len(bigSizes))]
		if pick(t, "bigext", 3) == 0 {
			c.BigExt = []int{255, 256, 65535}[pick(t, "bigextsize", 3)] // an "ext" mutation can push 65535 over the limit
		}
	}
	nm := []int{0, 0, 1, 1, 1, 1, 1, 2, 2, 2}[pick(t, "nmut", 10)]
	for i := 0; i < nm; i++ {
		c.Muts = append(c.Muts, genObjMut(t, fmt.Sprintf("mut%d", i), c.Kind, getKey(c.Key)))
	}
	return c
}

func mutBytes(b []byte, m Mut) []byte {
	switch m.A % 4 {
	case 0:
		return append(append([]byte(nil), b...), m.Data...)
	case 1:
		if len(b) > 1 {
			return append([]byte(nil), b[:len(b)-1]...)
		}
	}
	return flipBit(b, m.A/4)
}

func mut32(b [32]byte, m Mut) [32]byte {
	copy(b[:], flipBit(b[:], m.A))
	return b
}

func mutU64(x uint64, m Mut) uint64 {
	if m.A%5 == 0 {
		return x + 1
	}
	return x ^ 1<<uint(m.A%64)
}

var oddVersions = []int{1, 2, 255, 1, 127}
var oddEntryTypes = []int{2, 0x8000, 0xffff, 256, 3}

// applyField mutates one field; reports the class label.
func (o *objState) applyField(kind string, m Mut) string {
	switch m.Key {
	case "version":
		o.version = oddVersions[m.A%len(oddVersions)]
	case "timestamp":
		o.ts = mutU64(o.ts, m)
	case "ext":
		o.ext = mutBytes(o.ext, m)
	case "entrytype":
		if m.A%2 == 0 {
			o.etype ^= 1
			if o.etype > 1 {
				o.etype = 0
			}
		} else {
			o.etype = oddEntryTypes[(m.A/2)%len(oddEntryTypes)]
		}
	case "entry": // the active branch's bytes
		if o.etype == 1 {
			o.tbs = mutBytes(o.tbs, m)
		} else {
			o.cert = mutBytes(o.cert, m)
		}
	case "inactive": // the other branch: not part of the signed input
		if o.etype == 1 {
			o.cert = mutBytes(o.cert, m)
		} else {
			o.tbs = mutBytes(o.tbs, m)
			o.ikh = mut32(o.ikh, m)
		}
	case "ikh":
		o.ikh = mut32(o.ikh, m)
	case "logid":
		o.logID = mut32(o.logID, m)
		o.sthLogID = mut32(o.sthLogID, m)
	case "leafts":
		o.leafTS = mutU64(o.leafTS, m)
	case "leafext":
		o.leafExt = mutBytes(o.leafExt, m)
	case "index":
		o.index = int64(m.A) - 7
	case "treesize":
		o.treeSize = mutU64(o.treeSize, m)
	case "root":
		o.root = mut32(o.root, m)
	default:
		panic("unknown field " + m.Key)
	}
	return "field:" + kind + "." + m.Key
}

func to32(b []byte) (out [32]byte) { copy(out[:], b); return }

// refInput is the canonical signed input of the presented object, by the harness's RFC 6962 encoder.
func (o *objState) refInput(kind string) ([]byte, error) {
	if o.version < 0 || o.version > 255 {
		return nil, fmt.Errorf("version %d", o.version)
	}
	if kind == "sth" {
		return rfc6962.STHSignatureInput(uint8(o.version), o.ts, o.treeSize, o.root)
	}
	if o.etype < 0 || o.etype > 0xffff {
		return nil, fmt.Errorf("entry type %d", o.etype)
	}
	return rfc6962.SCTSignatureInput(uint8(o.version), o.ts, rfc6962.Entry{Type: uint16(o.etype), Cert: o.cert, IssuerKeyHash: o.ikh, TBS: o.tbs}, o.ext)
}

// verifierFor builds the SignatureVerifier for the presented key, checking the construction policy.
func verifierFor(v *harness.Verdict, pub any, keyName string, optIn bool) *ct.SignatureVerifier {
	var sv *ct.SignatureVerifier
	var err error
	var pan any
	func() {
		defer func() { pan = recover() }()
		sv, err = ct.NewSignatureVerifier(pub)
	}()
	want, class := refPolicy(pub, optIn)
	v.Class(fmt.Sprintf("policy:%s/optin=%v", class, optIn))
	switch {
	case pan != nil:
		v.Failf("newverifier-panic", "NewSignatureVerifier(%s) panicked: %v", keyName, pan)
	case err == nil && !want:
		v.Failf("policy-admits-"+class, "NewSignatureVerifier(%s) succeeded with opt-in=%v; the key is %s", keyName, optIn, class)
	case err != nil && want:
		v.Failf("policy-refuses-"+class, "NewSignatureVerifier(%s) failed with opt-in=%v (%v); the key is %s", keyName, optIn, err, class)
	case err == nil && (sv == nil || !samePub(sv.PubKey, pub)):
		v.Failf("verifier-other-key", "NewSignatureVerifier(%s) holds a different key", keyName)
	}
	if err == nil && sv != nil && want {
		v.Class("verifier:constructed")
		return sv
	}
	// Keys the policy refuses are still verified with, through a literal of the exported struct.
	v.Class("verifier:literal")
	return &ct.SignatureVerifier{PubKey: pub}
}

func samePub(a, b any) bool {
	defer func() { recover() }() // uncomparable dynamic types
	return a == b
}

// verifyWith presents the object to VerifySTHSignature / VerifySCTSignature of sv.
func (o *objState) verifyWith(kind string, sv *ct.SignatureVerifier) (got error, pan any) {
	ds := tls.DigitallySigned{Algorithm: tls.SignatureAndHashAlgorithm{Hash: tls.HashAlgorithm(o.p.hash), Signature: tls.SignatureAlgorithm(o.p.sig)}, Signature: o.p.val}
	defer func() { pan = recover() }()
	if kind == "sth" {
		got = sv.VerifySTHSignature(ct.SignedTreeHead{Version: ct.Version(o.version), TreeSize: o.treeSize, Timestamp: o.ts, SHA256RootHash: o.root,
			TreeHeadSignature: ct.DigitallySigned(ds), LogID: o.sthLogID})
		return
	}
	cert := ct.ASN1Cert{Data: o.cert}
	entry := ct.LogEntry{Index: o.index, Leaf: ct.MerkleTreeLeaf{Version: ct.V1, LeafType: ct.TimestampedEntryLeafType,
		TimestampedEntry: &ct.TimestampedEntry{Timestamp: o.leafTS, EntryType: ct.LogEntryType(o.etype), X509Entry: &cert,
			PrecertEntry: &ct.PreCert{IssuerKeyHash: o.ikh, TBSCertificate: o.tbs}, Extensions: o.leafExt}}}
	got = sv.VerifySCTSignature(ct.SignedCertificateTimestamp{SCTVersion: ct.Version(o.version), LogID: ct.LogID{KeyID: o.logID}, Timestamp: o.ts,
		Extensions: o.ext, Signature: ct.DigitallySigned(ds)}, entry)
	return
}

// newObjState builds the object of c as issued (signed over the reference input, nothing mutated yet).
func newObjState(c ObjCase) (*objState, []byte, error) {
	k := getKey(c.Key)
	if c.BigEntry > 0 {
		c.Cert, c.TBS = stretch(c.Cert, c.BigEntry, c.Seed), stretch(c.TBS, c.BigEntry, c.Seed+1)
	}
	if c.BigExt > 0 {
		c.Ext = stretch(c.Ext, c.BigExt, c.Seed+2)
	}
	o := &objState{ts: c.Timestamp, ext: c.Ext, etype: c.EntryType, cert: c.Cert, ikh: to32(c.IKH), tbs: c.TBS, logID: to32(c.LogID), sthLogID: to32(c.LogID),
		leafTS: c.Timestamp, leafExt: c.Ext, treeSize: c.TreeSize, root: to32(c.Root)}
	orig, err := o.refInput(c.Kind)
	if err != nil {
		return nil, nil, err
	}
	o.p = presented{pub: k.Pub, key: k, keyName: k.Name, hash: c.Hash, sig: nativeSig(k), msg: orig, val: signStd(k, c.Hash, orig)}
	if o.p.sig == sigAnon {
		o.p.sig = sigECDSA
	}
	return o, orig, nil
}

func checkObj(t *testing.T, c ObjCase) (v harness.Verdict) {
	cryptotest.SetGlobalRandom(t, c.Seed)
	ct.AllowVerificationWithNonCompliantKeys = c.OptIn
	defer func() { ct.AllowVerificationWithNonCompliantKeys = false }()

	k := getKey(c.Key)
	o, orig, err := newObjState(c)
	if err != nil {
		v.Failf("harness-selfcheck", "generated object has no signed input: %v", err)
		return v
	}
	v.Class("obj:"+c.Kind, "key:"+k.Kind)
	for _, m := range c.Muts {
		if m.Kind == "field" {
			v.Class(o.applyField(c.Kind, m))
		} else {
			if in, err := o.refInput(c.Kind); err == nil {
				o.p.msg = in // mutations that re-sign do so over the object as it stands now
			}
			v.Class("mut:" + applyMut(&o.p, m))
		}
	}
	v.Class(fmt.Sprintf("muts:%d", len(c.Muts)), hashClass(o.p.hash), sigClass(o.p.sig))
	v.NonTrivial = len(c.Muts) > 0 || o.p.hash != hashSHA256

	// expectation: the canonical input of the PRESENTED object, verified by the reference
	var want *refErr
	input, ierr := o.refInput(c.Kind)
	if ierr != nil {
		want = refuse("unsignable", "%v", ierr)
	} else {
		o.p.msg = input
		want = refVerify(o.p.pub, o.p.hash, o.p.sig, input, o.p.val)
		if string(input) != string(orig) {
			v.Class("signed-bytes-changed")
		} else if len(c.Muts) > 0 {
			v.Class("signed-bytes-unchanged")
		}
	}

	sv := verifierFor(&v, o.p.pub, o.p.keyName, c.OptIn)
	got, pan := o.verifyWith(c.Kind, sv)
	where := "VerifySCTSignature"
	if c.Kind == "sth" {
		where = "VerifySTHSignature"
	}
	o.p.msg = input
	judge(&v, where, got, pan, want, &o.p)
	if want == nil && len(c.Muts) > 0 {
		v.Class("accept-after-mutation")
	}
	return v
}

// Object is the SCT / STH level of C05.
var Object = harness.Define(harness.Opts{
	Name:  "object",
	Rule:  "SCT over an X.509 or precert entry, or STH, signed over the harness's RFC 6962 encoding with a pool key and hash 1..6, presented with 0-2 mutations: every signed field (version, timestamp, extensions, entry type, entry bytes, issuer key hash / tree size, root hash), every unsigned field (log id, leaf timestamp / extensions, index, inactive entry branch), key swap, algorithm codes, signature value; verifier through NewSignatureVerifier with the opt-in drawn (policy checked), a struct literal where the policy refuses. Expected: accept iff the reference accepts the signature over the canonical input of the presented object. Non-trivial: at least one mutation or hash != SHA-256",
	Quick: 6000, Thorough: 25000,
}, genObj, checkObj)
