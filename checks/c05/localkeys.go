package c05

import (
	"crypto"
	"crypto/dsa"
	"crypto/ecdsa"
	"crypto/elliptic"
	"crypto/x509"
	"embed"
	"encoding/json"
	"encoding/pem"
	"math/big"
	"sort"
	"strings"
	"sync"

	"verif/internal/derx"
	"verif/internal/keys"
)

// Keys the shared pool does not hold: RSA moduli whose length is not a multiple of eight bits
// (committed under testdata, generated once with crypto/rsa.GenerateKey), a DSA key with L=2048, N=224 (FIPS 186-3 s4.2; the pool has 1024/160 and 2048/256) and an ECDSA key on a 256-bit
// curve that is not P-256 (brainpoolP256t1, RFC 5639 s3.4; a = -3, so elliptic.CurveParams computes on it).

//go:embed testdata/*.pem testdata/*.json
var extraFS embed.FS

var (
	extraOnce   sync.Once
	extraByName = map[string]*keys.Key{}
	extraByKind = map[string][]*keys.Key{}
)

func hexInt(s string) *big.Int {
	v, ok := new(big.Int).SetString(s, 16)
	if !ok {
		panic("bad hex")
	}
	return v
}

var brainpoolP256t1 = &elliptic.CurveParams{Name: "brainpoolP256t1", BitSize: 256,
	P:  hexInt("A9FB57DBA1EEA9BC3E660A909D838D726E3BF623D52620282013481D1F6E5377"),
	N:  hexInt("A9FB57DBA1EEA9BC3E660A909D838D718C397AA3B561A6F7901E0E82974856A7"),
	B:  hexInt("662C61C430D84EA4FE66A7733D0B76B7BF93EBC4AF2F49256AE58101FEE92B04"),
	Gx: hexInt("A3E8EB3CC1CFE7B7732213B23A656149AFA142C47AAFBC2B79A191562E1305F4"),
	Gy: hexInt("2D996C823439C56D7F7B22E14644417E69BCB6DE39D027001DABE8F35B25C9BE")}

func loadExtra() {
	ents, err := extraFS.ReadDir("testdata")
	if err != nil {
		panic(err)
	}
	for _, e := range ents {
		b, _ := extraFS.ReadFile("testdata/" + e.Name())
		if strings.HasSuffix(e.Name(), ".json") { // DSA: {P,Q,G,Y,X} in hex, like the shared pool
			name := strings.TrimSuffix(e.Name(), ".json")
			var m map[string]string
			if err := json.Unmarshal(b, &m); err != nil {
				panic(err)
			}
			k := &dsa.PrivateKey{PublicKey: dsa.PublicKey{Parameters: dsa.Parameters{P: hexInt(m["P"]), Q: hexInt(m["Q"]), G: hexInt(m["G"])}, Y: hexInt(m["Y"])}, X: hexInt(m["X"])}
			extraByName[name] = &keys.Key{Name: name, Kind: name[:strings.LastIndex(name, "-")], DSA: k, Pub: &k.PublicKey}
			continue
		}
		name := strings.TrimSuffix(e.Name(), ".pem")
		blk, _ := pem.Decode(b)
		k, err := x509.ParsePKCS8PrivateKey(blk.Bytes)
		if err != nil {
			panic(e.Name() + ": " + err.Error())
		}
		s := k.(crypto.Signer)
		spki, err := x509.MarshalPKIXPublicKey(s.Public())
		if err != nil {
			panic(err)
		}
		extraByName[name] = &keys.Key{Name: name, Kind: name[:strings.LastIndex(name, "-")], Signer: s, Pub: s.Public(), PKCS8: blk.Bytes, SPKI: spki}
	}
	for i, d := range []string{"0707070707070707070707070707070707070707070707070707070707070707", "5e5e5e5e5e5e5e5e5e5e5e5e5e5e5e5e5e5e5e5e5e5e5e5e5e5e5e5e5e5e5e5e"} {
		priv := &ecdsa.PrivateKey{D: hexInt(d)}
		priv.Curve = brainpoolP256t1
		priv.X, priv.Y = brainpoolP256t1.ScalarBaseMult(priv.D.Bytes())
		name := "bp256t1-" + string(rune('0'+i))
		extraByName[name] = &keys.Key{Name: name, Kind: "bp256t1", Signer: priv, Pub: &priv.PublicKey} // no SPKI: the curve has no encoding in crypto/x509
	}
	names := make([]string, 0, len(extraByName))
	for n := range extraByName {
		names = append(names, n)
	}
	sort.Strings(names)
	for _, n := range names {
		k := extraByName[n]
		extraByKind[k.Kind] = append(extraByKind[k.Kind], k)
	}
}

// getKey resolves a key name in the local set first, then in the shared pool.
func getKey(name string) *keys.Key {
	extraOnce.Do(loadExtra)
	if k := extraByName[name]; k != nil {
		return k
	}
	return keys.Get(name)
}

// pickKey is keys.Pick over both sets.
func pickKey(kind string, i int) *keys.Key {
	extraOnce.Do(loadExtra)
	if ks := extraByKind[kind]; len(ks) > 0 {
		return ks[i%len(ks)]
	}
	return keys.Pick(kind, i)
}

// spkiOf returns the DER SubjectPublicKeyInfo of a key; the shared pool carries none for DSA, so that one
// is assembled here (RFC 3279 s2.3.2). nil when the key has no X.509 encoding (brainpool).
func spkiOf(k *keys.Key) []byte {
	if k.SPKI != nil || k.DSA == nil {
		return k.SPKI
	}
	p := k.DSA.PublicKey
	return derx.Seq(derx.Seq(derx.OID(1, 2, 840, 10040, 4, 1), derx.Seq(derx.Int(p.P), derx.Int(p.Q), derx.Int(p.G))), derx.BitString(derx.Int(p.Y), 0))
}
