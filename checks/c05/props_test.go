package c05

import (
	"testing"

	"verif/internal/harness"
)

func TestProps(t *testing.T) { harness.Main(t, "C05", Blob, Object, Policy, List, Util, Conc, Client) }
