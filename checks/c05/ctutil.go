package c05

import (
	"bytes"
	"crypto/sha256"
	"fmt"
	"testing"
	"testing/cryptotest"

	ct "github.com/google/certificate-transparency-go"
	"github.com/google/certificate-transparency-go/ctutil"
	"github.com/google/certificate-transparency-go/loglist3"
	"github.com/google/certificate-transparency-go/tls"
	"github.com/google/certificate-transparency-go/x509"
	"pgregory.net/rapid"

	"verif/internal/harness"
	"verif/internal/keys"
	"verif/internal/pki"
	"verif/internal/preref"
	"verif/internal/rfc6962"
	"verif/internal/world"
)

// UtilCase: an SCT for a generated chain, checked through ctutil.VerifySCT on one of its three routes.
type UtilCase struct {
	Seed     uint64
	Spec     world.ChainSpec  // the chain that is presented
	SignSpec *world.ChainSpec // when set, the SCT was issued for this other chain (x509 / precert routes)
	Embedded bool             // Spec is a final certificate carrying the SCT (Spec.Precert is false)
	EmbedOld bool             // embedded route: the certificate carries the SCT as issued, not as presented
	Key      string
	Hash     int
	OptIn    bool

	Timestamp uint64
	Ext       []byte
	LogID     []byte
	Muts      []Mut  // "field" (version, timestamp, ext, logid) or blob mutations
	Shape     string // "" | "leaf-only" (issuers withheld) | "empty-chain" | "nil-sct"
	Prior     string // "" | "good-first" | "alt-first": two calls on the same leaf, the issuer's key swapped in one
}

func genUtil(t *rapid.T) UtilCase {
	c := UtilCase{Seed: rapid.Uint64().Draw(t, "seed"), Spec: world.GenSpec(t, "spec"), OptIn: pick(t, "optin", 3) == 0}
	if pick(t, "compliant", 4) != 0 {
		c.Key = genKeyOf(t, "key", "p256", "p256", "rsa2048", "rsa3072")
	} else {
		c.Key = genKey(t, "key")
	}
	if pick(t, "sha256", 10) < 8 {
		c.Hash = hashSHA256
	} else {
		c.Hash = 1 + pick(t, "hash", 6)
	}
	if !c.Spec.Precert && pick(t, "embedded", 2) == 0 {
		c.Embedded = true
		c.EmbedOld = pick(t, "embedold", 4) == 0
	}
	if !c.Embedded && pick(t, "otherchain", 8) == 0 {
		s := world.GenSpec(t, "signspec")
		s.Precert, s.PreIssuer = c.Spec.Precert, c.Spec.PreIssuer && c.Spec.Precert
		c.SignSpec = &s
	}
	if x := pick(t, "shape", 24); x < 3 {
		c.Shape = []string{"leaf-only", "empty-chain", "nil-sct"}[x]
	}
	if c.Shape == "" && (c.Spec.Precert || c.Embedded) && pick(t, "prior", 4) == 0 {
		c.Prior = pickStr(t, "priorkind", []string{"good-first", "alt-first"})
	}
	if pick(t, "bulk", 15) == 0 { // entries beyond the 16-bit length boundary
		c.Spec.Bulk = []int{65000, 65535, 65536, 70000, 200000}[pick(t, "bulksize", 5)]
	}
	c.Timestamp = genU64(t, "ts")
	if rapid.Bool().Draw(t, "hasext") {
		c.Ext = rapid.SliceOfN(rapid.Byte(), 1, 8).Draw(t, "ext")
	}
	c.LogID = genBytes32(t, "logid")
	k := getKey(c.Key)
	nm := []int{0, 0, 0, 1, 1, 1, 1, 2, 2}[pick(t, "nmut", 9)]
	for i := 0; i < nm; i++ {
		label := fmt.Sprintf("mut%d", i)
		if pick(t, label+".f", 2) == 0 {
			c.Muts = append(c.Muts, Mut{Kind: "field", Key: pickStr(t, label+".field", []string{"version", "timestamp", "ext", "logid"}), A: pick(t, label+".a", 1<<16), Data: []byte{byte(pick(t, label+".d", 256))}})
			continue
		}
		for {
			m := genMut(t, label, k)
			if m.Kind != "flipmsg" {
				c.Muts = append(c.Muts, m)
				break
			}
			label += "'"
		}
	}
	return c
}

func parseChain(ders [][]byte) ([]*x509.Certificate, error) {
	var out []*x509.Certificate
	for i, d := range ders {
		c, err := x509.ParseCertificate(d)
		if x509.IsFatal(err) {
			return nil, fmt.Errorf("certificate %d: %v", i, err)
		}
		out = append(out, c)
	}
	return out, nil
}

func checkUtil(t *testing.T, c UtilCase) (v harness.Verdict) {
	cryptotest.SetGlobalRandom(t, c.Seed)
	ct.AllowVerificationWithNonCompliantKeys = c.OptIn
	defer func() { ct.AllowVerificationWithNonCompliantKeys = false }()

	k := getKey(c.Key)
	b := world.Build(c.Spec)
	route := "x509"
	if c.Spec.Precert {
		route = "precert"
		if c.Spec.PreIssuer {
			route = "precert-preissuer"
		}
	}
	if c.Embedded {
		route = "embedded"
	}
	v.Class("route:"+route, "key:"+k.Kind)

	// the entry the SCT is issued for
	var issuedFor rfc6962.Entry
	var embTmpl pki.Template
	switch {
	case c.Embedded:
		embTmpl = b.Leaf.Tmpl
		issuedFor = rfc6962.Entry{Type: rfc6962.PrecertEntry, TBS: embTmpl.TBS(b.Issuer.Key), IssuerKeyHash: sha256.Sum256(b.Issuer.Key.SPKI)}
	case c.SignSpec != nil:
		issuedFor = world.Build(*c.SignSpec).Entry()
		v.Class("issued-for-other-chain")
	default:
		issuedFor = b.Entry()
	}
	orig, err := rfc6962.SCTSignatureInput(0, c.Timestamp, issuedFor, c.Ext)
	if err != nil {
		v.Failf("harness-selfcheck", "no signed input: %v", err)
		return v
	}
	o := &objState{ts: c.Timestamp, ext: c.Ext, logID: to32(c.LogID)}
	o.p = presented{pub: k.Pub, key: k, keyName: k.Name, hash: c.Hash, sig: nativeSig(k), msg: orig, val: signStd(k, c.Hash, orig)}
	if o.p.sig == sigAnon {
		o.p.sig = sigECDSA
	}
	issued := rfc6962.SCT{Version: 0, LogID: o.logID, Timestamp: o.ts, Extensions: o.ext, Signature: rfc6962.DigitallySigned{Hash: uint8(o.p.hash), Sig: uint8(o.p.sig), Signature: o.p.val}}
	for _, m := range c.Muts {
		if m.Kind == "field" {
			v.Class(o.applyField("sct", m))
		} else {
			v.Class("mut:" + applyMut(&o.p, m))
		}
	}
	v.Class(fmt.Sprintf("muts:%d", len(c.Muts)), hashClass(o.p.hash), sigClass(o.p.sig))
	v.NonTrivial = len(c.Muts) > 0 || c.SignSpec != nil || route != "x509" || c.Shape != "" || c.Prior != ""

	// the chain that is presented and the entry an independent client derives from it
	ders := b.Full
	entry := b.Entry()
	var want *refErr
	if c.Embedded {
		shown := issued
		if !c.EmbedOld {
			if o.p.hash > 255 || o.p.sig > 255 || o.version > 255 {
				panic("codes out of range")
			}
			shown = rfc6962.SCT{Version: uint8(o.version), LogID: o.logID, Timestamp: o.ts, Extensions: o.ext, Signature: rfc6962.DigitallySigned{Hash: uint8(o.p.hash), Sig: uint8(o.p.sig), Signature: o.p.val}}
		}
		shownBytes, err := rfc6962.EncodeSCT(shown)
		if err != nil {
			v.Failf("harness-selfcheck", "SCT encoding: %v", err)
			return v
		}
		list, err := rfc6962.EncodeSCTList([][]byte{shownBytes})
		if err != nil {
			v.Failf("harness-selfcheck", "SCT list encoding: %v", err)
			return v
		}
		tmpl := embTmpl
		pos := int(c.Seed % uint64(len(embTmpl.Exts)+1)) // the SCT list may sit anywhere among the extensions
		tmpl.Exts = append(append(append([]pki.Ext{}, embTmpl.Exts[:pos]...), pki.SCTList(list)), embTmpl.Exts[pos:]...)
		// the presented entry is derived from the final certificate itself, by the reference transformation
		final := pki.Issue(b.Issuer, tmpl, "final")
		tbs, err := preref.Transform(final.TBS, preref.OIDSCTList, nil)
		if err != nil {
			v.Failf("harness-selfcheck", "reference SCT-list removal: %v", err)
			return v
		}
		ders = append([][]byte{final.DER}, b.Full[1:]...)
		entry = rfc6962.Entry{Type: rfc6962.PrecertEntry, TBS: tbs, IssuerKeyHash: sha256.Sum256(b.Issuer.Key.SPKI)}
		presentedBytes, _ := rfc6962.EncodeSCT(rfc6962.SCT{Version: uint8(o.version), LogID: o.logID, Timestamp: o.ts, Extensions: o.ext, Signature: rfc6962.DigitallySigned{Hash: uint8(o.p.hash), Sig: uint8(o.p.sig), Signature: o.p.val}})
		if !bytes.Equal(presentedBytes, shownBytes) {
			want = refuse("not-embedded", "the certificate embeds a different SCT")
		}
		if !bytes.Equal(tbs, issuedFor.TBS) {
			v.Failf("harness-selfcheck", "removing the SCT list does not give back the TBS the SCT was issued for")
			return v
		}
		if pos != len(tmpl.Exts)-1 {
			v.Class("sctlist-not-last")
		}
	}
	chain, err := parseChain(ders)
	if err != nil {
		v.Discard = true
		return v
	}
	// expect computes, for the entry a chain stands for, the signature-level expectation (what a verifier
	// holding the key must answer) and what VerifySCT must answer on top of it.
	preWant := want // "not-embedded", when the certificate carries another SCT
	policyOK, class := refPolicy(o.p.pub, c.OptIn)
	expect := func(e rfc6962.Entry) (sigWant, want *refErr) {
		switch {
		case c.Shape == "leaf-only" && e.Type == rfc6962.PrecertEntry:
			sigWant = refuse("unsignable", "a precert entry cannot be derived without the issuer certificate")
		case c.Shape == "empty-chain":
			sigWant = refuse("unsignable", "no certificate")
		}
		if sigWant == nil {
			input, ierr := rfc6962.SCTSignatureInput(uint8(o.version), o.ts, e, o.ext)
			if ierr != nil {
				sigWant = refuse("unsignable", "%v", ierr)
			} else {
				o.p.msg = input
				sigWant = refVerify(o.p.pub, o.p.hash, o.p.sig, input, o.p.val)
			}
		}
		switch {
		case !policyOK:
			want = refuse("policy", "no verifier may be built for a %s key (opt-in %v)", class, c.OptIn)
		case c.Shape == "nil-sct":
			want = refuse("unsignable", "no SCT")
		case preWant != nil:
			want = preWant
		default:
			want = sigWant
		}
		return sigWant, want
	}
	switch c.Shape {
	case "leaf-only":
		chain = chain[:1]
	case "empty-chain":
		chain = nil
	}
	v.Class("shape:" + c.Shape)

	sct := &ct.SignedCertificateTimestamp{SCTVersion: ct.Version(o.version), LogID: ct.LogID{KeyID: o.logID}, Timestamp: o.ts, Extensions: o.ext,
		Signature: ct.DigitallySigned{Algorithm: tls.SignatureAndHashAlgorithm{Hash: tls.HashAlgorithm(o.p.hash), Signature: tls.SignatureAlgorithm(o.p.sig)}, Signature: o.p.val}}
	var pan any
	call := func(ch []*x509.Certificate, e rfc6962.Entry, where string) (sigWant *refErr) {
		sigWant, want := expect(e)
		var got error
		func() {
			defer func() { pan = recover() }()
			if c.Shape == "nil-sct" {
				got = ctutil.VerifySCT(o.p.pub, ch, nil, c.Embedded)
				return
			}
			got = ctutil.VerifySCT(o.p.pub, ch, sct, c.Embedded)
		}()
		judge(&v, where, got, pan, want, &o.p)
		if want == nil && len(c.Muts) > 0 {
			v.Class("accept-after-mutation")
		}
		return sigWant
	}

	// Two calls in one process on the same leaf: once under its issuer, once under a certificate of the
	// same name holding another key (the issuer key hash is part of a precert entry, so the verdicts
	// differ); the order is drawn. Whatever the first call left behind must not leak into the second.
	issuerIdx := 1
	if b.PreIssuer != nil && !c.Embedded {
		issuerIdx = 2
	}
	var sigWant *refErr
	if c.Prior != "" && c.Shape == "" && entry.Type == rfc6962.PrecertEntry && issuerIdx < len(chain) {
		altKey := keys.Pick("p256", 13)
		if altKey == b.Issuer.Key {
			altKey = keys.Pick("p256", 14)
		}
		t2 := b.Issuer.Tmpl
		t2.Key = altKey
		altParsed, perr := parseChain([][]byte{pki.Issue(b.Issuer.Parent, t2, "alt-issuer").DER})
		if perr != nil {
			v.Discard = true
			return v
		}
		altChain := append([]*x509.Certificate(nil), chain...)
		altChain[issuerIdx] = altParsed[0]
		altEntry := entry
		altEntry.IssuerKeyHash = sha256.Sum256(altKey.SPKI)
		v.Class("sequence:" + c.Prior)
		if c.Prior == "good-first" {
			call(chain, entry, "ctutil.VerifySCT("+route+", first call, true issuer)")
			chain, entry = altChain, altEntry
			sigWant = call(chain, entry, "ctutil.VerifySCT("+route+", second call, same-name issuer with another key)")
		} else {
			call(altChain, altEntry, "ctutil.VerifySCT("+route+", first call, same-name issuer with another key)")
			sigWant = call(chain, entry, "ctutil.VerifySCT("+route+", second call, true issuer)")
		}
	} else {
		sigWant = call(chain, entry, "ctutil.VerifySCT("+route+")")
	}

	// The same SCT through a ctutil.LogInfo built from the key's SubjectPublicKeyInfo (no network is
	// touched: the client inside is never used).
	if o.p.key != nil && o.p.keyName == o.p.key.Name && spkiOf(o.p.key) != nil && c.Shape == "" {
		var li *ctutil.LogInfo
		var lerr error
		func() {
			defer func() { pan = recover() }()
			li, lerr = ctutil.NewLogInfo(&loglist3.Log{Description: "c05", Key: spkiOf(o.p.key), URL: "log.example/c05"}, nil)
		}()
		switch {
		case pan != nil:
			v.Failf("loginfo-panic", "NewLogInfo(%s) panicked: %v", o.p.keyName, pan)
		case lerr == nil && !policyOK:
			v.Failf("policy-admits-"+class, "ctutil.NewLogInfo(%s) succeeded with opt-in=%v; the key is %s", o.p.keyName, c.OptIn, class)
		case lerr != nil && policyOK:
			v.Failf("policy-refuses-"+class, "ctutil.NewLogInfo(%s) failed with opt-in=%v: %v", o.p.keyName, c.OptIn, lerr)
		case lerr == nil:
			v.Class("loginfo")
			cert := ct.ASN1Cert{Data: entry.Cert}
			leaf := ct.MerkleTreeLeaf{Version: ct.V1, LeafType: ct.TimestampedEntryLeafType, TimestampedEntry: &ct.TimestampedEntry{Timestamp: o.ts ^ 1, EntryType: ct.LogEntryType(entry.Type)}}
			if entry.Type == rfc6962.PrecertEntry {
				leaf.TimestampedEntry.PrecertEntry = &ct.PreCert{IssuerKeyHash: entry.IssuerKeyHash, TBSCertificate: entry.TBS}
			} else {
				leaf.TimestampedEntry.X509Entry = &cert
			}
			var got error
			func() {
				defer func() { pan = recover() }()
				got = li.VerifySCTSignature(*sct, leaf)
			}()
			judge(&v, "LogInfo.VerifySCTSignature("+route+")", got, pan, sigWant, &o.p)
		}
	}
	return v
}

// Util is the ctutil.VerifySCT clause of C05.
var Util = harness.Define(harness.Opts{
	Name:  "ctutil",
	Rule:  "generated chains (internal/world: 4 roots, 0-3 intermediates, leaf / precert / precert under a pre-issuer / final certificate with the SCT embedded at any extension position) x SCT signed over the reference entry with a pool key x opt-in x 0-2 mutations (version, timestamp, extensions, log id, key, codes, signature value, SCT issued for another chain, certificate embedding the unmutated SCT); ctutil.VerifySCT returns nil iff a verifier may be built for the key, the SCT is the embedded one (embedded route) and the reference accepts the signature over the entry derived from the presented chain. Non-trivial: a mutation, another chain, or a route other than plain X.509",
	Quick: 2000, Thorough: 8000,
}, genUtil, checkUtil)
