package c05

import (
	"crypto/ecdsa"
	"crypto/rsa"
	"encoding/base64"
	"encoding/json"
	"fmt"
	"reflect"
	"testing"
	"testing/cryptotest"

	"github.com/google/certificate-transparency-go/loglist3"
	"pgregory.net/rapid"

	"verif/internal/harness"
	"verif/internal/keys"
)

// ListCase: a log-list document signed (SHA-256, key's own scheme) with a pool key, then mutated.
type ListCase struct {
	Seed uint64
	Key  string
	Data []byte
	Muts []Mut // flipmsg (document), key / nilkey / valkey, signature-value mutations
}

var brokenDocs = []string{"", "{", "null", "[]", "{}", `{"operators":7}`, `{"operators":[{"name":1}]}`, `{"operators":[{"logs":[{"mmd":"x"}]}]}`, `{"version":"3","operators":[]} trailing`, "\xff\xfe"}

func genListDoc(t *rapid.T) []byte {
	if pick(t, "broken", 8) == 0 {
		return []byte(pickStr(t, "doc", brokenDocs))
	}
	nOps := pick(t, "ops", 3)
	var ops []any
	for i := 0; i < nOps; i++ {
		var logs []any
		for j := 0; j < pick(t, fmt.Sprintf("logs%d", i), 3); j++ {
			k := keys.Pick("p256", 3*i+j)
			l := map[string]any{
				"description": fmt.Sprintf("log %d/%d", i, j),
				"log_id":      base64.StdEncoding.EncodeToString(rapid.SliceOfN(rapid.Byte(), 32, 32).Draw(t, fmt.Sprintf("id%d.%d", i, j))),
				"key":         base64.StdEncoding.EncodeToString(k.SPKI),
				"url":         fmt.Sprintf("https://log%d-%d.example/", i, j),
				"mmd":         86400,
			}
			switch pick(t, fmt.Sprintf("state%d.%d", i, j), 4) {
			case 0:
				l["state"] = map[string]any{"usable": map[string]any{"timestamp": "2024-03-01T00:00:00Z"}}
			case 1:
				l["state"] = map[string]any{"retired": map[string]any{"timestamp": "2023-03-01T00:00:00Z"}}
				l["temporal_interval"] = map[string]any{"start_inclusive": "2024-01-01T00:00:00Z", "end_exclusive": "2025-01-01T00:00:00Z"}
			case 2:
				l["unknown_member"] = []any{1, "two", nil}
			}
			logs = append(logs, l)
		}
		ops = append(ops, map[string]any{"name": fmt.Sprintf("Operator %d", i), "email": []string{fmt.Sprintf("ops%d@example.com", i)}, "logs": logs, "tiled_logs": []any{}})
	}
	doc := map[string]any{"version": fmt.Sprintf("%d.%d", pick(t, "vmaj", 40), pick(t, "vmin", 10)), "log_list_timestamp": "2024-06-01T12:00:00Z", "operators": ops}
	b, err := json.Marshal(doc)
	if err != nil {
		panic(err)
	}
	return b
}

func genList(t *rapid.T) ListCase {
	c := ListCase{Seed: rapid.Uint64().Draw(t, "seed"), Key: genKey(t, "key"), Data: genListDoc(t)}
	k := getKey(c.Key)
	nm := []int{0, 0, 0, 0, 1, 1, 1, 1, 2, 2}[pick(t, "nmut", 10)]
	for i := 0; i < nm; i++ {
		label := fmt.Sprintf("mut%d", i)
		if pick(t, label+".ws", 4) == 0 {
			c.Muts = append(c.Muts, Mut{Kind: "wsmsg", A: pick(t, label+".wsa", 16)})
			continue
		}
		for {
			m := genMut(t, label, k)
			if m.Kind != "hash" && m.Kind != "sigalg" { // the format carries no algorithm codes
				c.Muts = append(c.Muts, m)
				break
			}
			label += "'"
		}
	}
	return c
}

func checkList(t *testing.T, c ListCase) (v harness.Verdict) {
	cryptotest.SetGlobalRandom(t, c.Seed)
	k := getKey(c.Key)
	p := &presented{pub: k.Pub, key: k, keyName: k.Name, hash: hashSHA256, msg: append([]byte(nil), c.Data...), val: signStd(k, hashSHA256, c.Data)}
	v.Class("key:" + k.Kind)
	for _, m := range c.Muts {
		v.Class("mut:" + applyMut(p, m))
	}
	v.Class(fmt.Sprintf("muts:%d", len(c.Muts)))
	v.NonTrivial = len(c.Muts) > 0 || k.Kind != "p256"

	// The format declares nothing: SHA-256 and the scheme of the key's type (RSA PKCS#1 v1.5 or ECDSA).
	var want *refErr
	switch p.pub.(type) {
	case *rsa.PublicKey:
		p.sig = sigRSA
		want = refVerify(p.pub, hashSHA256, sigRSA, p.msg, p.val)
	case *ecdsa.PublicKey:
		p.sig = sigECDSA
		want = refVerify(p.pub, hashSHA256, sigECDSA, p.msg, p.val)
	default:
		want = refuse("key-type", "log lists are signed with RSA or ECDSA keys, key is %T", p.pub)
	}

	var got *loglist3.LogList
	var gerr error
	var pan any
	func() {
		defer func() { pan = recover() }()
		got, gerr = loglist3.NewFromSignedJSON(p.msg, p.val, p.pub)
	}()
	if gerr == nil && got == nil && pan == nil {
		v.Failf("signedjson-nil-nil", "NewFromSignedJSON returned neither a list nor an error")
	}
	if want != nil {
		if got != nil {
			gerr = nil // a list was handed out: that is an acceptance whatever the error says
		}
		judge(&v, "NewFromSignedJSON", gerr, pan, want, p)
		return v
	}
	// signature valid: the outcome must be that of parsing the document
	plain, perr := loglist3.NewFromJSON(p.msg)
	if perr != nil {
		v.Class("accept", "valid-signature-unparseable-document")
		if pan != nil {
			v.Failf("verify-panic", "NewFromSignedJSON panicked: %v", pan)
		} else if gerr == nil {
			v.Failf("signedjson-parses-garbage", "NewFromSignedJSON accepted %q which NewFromJSON refuses (%v)", p.msg, perr)
		}
		return v
	}
	judge(&v, "NewFromSignedJSON", gerr, pan, nil, p)
	if len(c.Muts) > 0 {
		v.Class("accept-after-mutation")
	}
	if gerr == nil && !reflect.DeepEqual(got, plain) {
		v.Failf("signedjson-differs", "NewFromSignedJSON and NewFromJSON disagree on %q", p.msg)
	}
	return v
}

// List is the signed-log-list clause of C05.
var List = harness.Define(harness.Opts{
	Name:  "loglist",
	Rule:  "generated log-list documents (0-2 operators, 0-2 logs each, unknown members; one in eight malformed) signed with SHA-256 by a pool key of any kind, 0-2 mutations (document bit flip, white space / line ending / BOM appended or prepended to the document, key swap / nil / value key, signature value mutations); loglist3.NewFromSignedJSON returns a list iff the reference accepts (RSA or ECDSA key) and the document parses, and the list equals NewFromJSON's. Non-trivial: a mutation or a key other than P-256",
	Quick: 3000, Thorough: 12000,
}, genList, checkList)
