package c17

import (
	"context"
	"crypto/sha256"
	"encoding/binary"
	"errors"
	"fmt"
	"net/http"
	"os"
	"sync"
	"time"

	ct "github.com/google/certificate-transparency-go"
	"github.com/google/certificate-transparency-go/client"

	"verif/internal/harness"
	"verif/internal/vt"
)

// Call is one add-chain / add-pre-chain request as seen by a scripted log.
type Call struct {
	Sub   int           // submission it belongs to (-1: could not be attributed)
	Log   int           // log index
	Pre   bool          // add-pre-chain
	Start time.Duration // virtual instant the request arrived
	End   time.Duration // virtual instant the answer left (valid unless Out == "open")
	Out   string        // "sct" | "err" | "ctx" (request context ended first) | "open" (still running)
	Ver   int           // Proxy level: log-list version whose client served the call
}

// trace collects what the scripted peers saw. Created inside the bubble.
type trace struct {
	mu    sync.Mutex
	t0    time.Time
	calls []*Call

	stuck chan struct{} // closed at the end of the case: releases the logs that ignore their context
	fin   chan struct{}
	once  sync.Once
}

// start is called at the top of the bubble's body; ctx is the bubble's root context (the watchdog
// cancels it), so that even a case that never ends by itself lets go of the stuck logs.
func (tr *trace) start(ctx context.Context) {
	tr.t0 = time.Now()
	tr.stuck = make(chan struct{})
	tr.fin = make(chan struct{})
	go func() {
		select {
		case <-ctx.Done():
			tr.finish()
		case <-tr.fin:
		}
	}()
}

// finish releases the stuck logs (idempotent).
func (tr *trace) finish() {
	tr.once.Do(func() {
		close(tr.stuck)
		close(tr.fin)
	})
}

func (tr *trace) now() time.Duration { return time.Since(tr.t0) }

func (tr *trace) begin(sub, log int, pre bool, ver int) *Call {
	tr.mu.Lock()
	defer tr.mu.Unlock()
	c := &Call{Sub: sub, Log: log, Pre: pre, Start: tr.now(), Out: "open", Ver: ver}
	tr.calls = append(tr.calls, c)
	return c
}

func (tr *trace) end(c *Call, out string) {
	tr.mu.Lock()
	defer tr.mu.Unlock()
	c.End = tr.now()
	c.Out = out
}

func (tr *trace) snapshot() []Call {
	tr.mu.Lock()
	defer tr.mu.Unlock()
	out := make([]Call, len(tr.calls))
	for i, c := range tr.calls {
		out[i] = *c
	}
	return out
}

var errScripted = errors.New("scripted log failure")

// sctFor is the SCT log `log` hands out for submission `sub`. Its extensions field carries a stamp that
// encodes both, so that the oracle can tell which log and which submission a returned SCT really came
// from; its timestamp is the log's clock: the current (virtual) time plus the scripted skew.
func sctFor(sub, log int) *ct.SignedCertificateTimestamp {
	return sctAt(sub, log, 0)
}

func sctAt(sub, log int, skew time.Duration) *ct.SignedCertificateTimestamp {
	id := sha256.Sum256([]byte(logURL(log)))
	ext := make([]byte, 8)
	binary.BigEndian.PutUint64(ext, sctStamp(sub, log))
	return &ct.SignedCertificateTimestamp{SCTVersion: ct.V1, LogID: ct.LogID{KeyID: id}, Timestamp: uint64(time.Now().Add(skew).UnixMilli()), Extensions: ext}
}

// stampOf reads the identifying stamp back from a returned SCT (0 when it is not there).
func stampOf(sct *ct.SignedCertificateTimestamp) uint64 {
	if sct == nil || len(sct.Extensions) != 8 {
		return 0
	}
	return binary.BigEndian.Uint64(sct.Extensions)
}

func sctStamp(sub, log int) uint64 { return uint64(sub+1)<<16 | uint64(log) }

// serve plays one behaviour: the decision comes from the Case, never from the clock; the wait ends
// early when ctx ends.
func serve(ctx context.Context, tr *trace, c *Call, b Beh, sub, log int) (*ct.SignedCertificateTimestamp, error) {
	switch b.Kind {
	case behHang:
		<-ctx.Done()
		tr.end(c, "ctx")
		return nil, ctx.Err()
	case behStuck:
		// a request that does not honour its context: it only comes back when the case is over
		<-tr.stuck
		tr.end(c, "ctx")
		return nil, fmt.Errorf("log %d: %w", log, errScripted)
	case behErr:
		if !vt.Sleep(ctx, ms(b.DelayMs)) {
			tr.end(c, "ctx")
			return nil, ctx.Err()
		}
		tr.end(c, "err")
		return nil, fmt.Errorf("log %d: %w", log, errScripted)
	case behGarbled:
		// the HTTP exchange succeeded (200) but the body cannot be parsed: the error value jsonclient
		// produces for a truncated / garbled answer. The log yields no SCT for this submission.
		if !vt.Sleep(ctx, ms(b.DelayMs)) {
			tr.end(c, "ctx")
			return nil, ctx.Err()
		}
		tr.end(c, "err")
		return nil, client.RspError{StatusCode: http.StatusOK, Err: errors.New("unexpected end of JSON input"), Body: []byte(`{"sct_version":0,"id":"`)}
	default:
		if !vt.Sleep(ctx, ms(b.DelayMs)) {
			tr.end(c, "ctx")
			return nil, ctx.Err()
		}
		tr.end(c, "sct")
		return sctAt(sub, log, time.Duration(b.SkewS)*time.Second), nil
	}
}

// scriptedSubmitter implements submission.Submitter for one submission (entry level 1).
type scriptedSubmitter struct {
	tr  *trace
	sub int
	beh []Beh
}

func (s *scriptedSubmitter) SubmitToLog(ctx context.Context, url string, _ []ct.ASN1Cert, pre bool) (*ct.SignedCertificateTimestamp, error) {
	i := logIndex(url)
	if i < 0 || i >= len(s.beh) {
		c := s.tr.begin(s.sub, -1, pre, 0)
		s.tr.end(c, "err")
		return nil, fmt.Errorf("unknown log %q", url)
	}
	c := s.tr.begin(s.sub, i, pre, 0)
	return serve(ctx, s.tr, c, s.beh[i], s.sub, i)
}

// SCTOut is one returned AssignedSCT as data.
type SCTOut struct {
	URL   string
	Nil   bool   // the SCT pointer was nil
	Stamp uint64 // identifying stamp carried in the SCT's extensions (issuing log and submission)
}

// SubOut is what one caller observed.
type SubOut struct {
	Started   bool
	Start     time.Duration
	Returned  bool
	Return    time.Duration
	Err       string // "" on success
	SCTs      []SCTOut
	SetupErr  string // policy / group construction refused the list (level 1)
	CtxEnded  bool   // the caller's context had ended when the call returned
	Released  bool   // the call only returned because the watchdog cancelled everything
}

// guarded runs f - which executes a bubble - on a goroutine of its own and reports whether it ran to
// completion. synctest.Test calls t.FailNow (runtime.Goexit) as soon as the race detector has reported
// anything during the bubble; on the goroutine of the check that would end the whole sub-property without
// a verdict for the case. A panic in f is re-raised in the caller.
func guarded(f func()) (completed bool) {
	if os.Getenv("VERIF_C17_NOGUARD") != "" {
		f()
		return true
	}
	type res struct {
		ok bool
		p  any
	}
	ch := make(chan res, 1)
	go func() {
		r := res{}
		defer func() {
			if !r.ok {
				r.p = recover()
			}
			ch <- r
		}()
		f()
		r.ok = true
	}()
	r := <-ch
	if r.p != nil {
		panic(r.p)
	}
	return r.ok
}

// inProcessRaces judges the race-detector evidence of a case that ran inside this process. It returns
// false when the observation is unusable (the bubble was aborted).
func inProcessRaces(v *harness.Verdict, sig string, races0 int, completed bool) bool {
	if d := raceErrors() - races0; d > 0 {
		v.Failf(sig, "the race detector reported %d data race(s) while this case ran in-process (the report is in the test log; the detector prints each racing pair of stacks once per process, so a replay in a fresh process shows it again)", d)
		return false
	}
	if !completed {
		v.Failf("bubble-aborted", "the bubble of this case was aborted by package testing without a race report")
		return false
	}
	return true
}
