package c17

import (
	"context"
	"encoding/json"
	"fmt"
	"math"
	"sync"
	"testing"
	"time"

	"pgregory.net/rapid"

	"github.com/google/certificate-transparency-go/loglist3"
	"github.com/google/certificate-transparency-go/submission"

	"verif/internal/harness"
	"verif/internal/vt"
)

// ---------------------------------------------------------------------------------------------
// Entry level 3: Proxy over a LogListManager with a scripted LogListRefresher that publishes new
// log-list versions while submissions are running.

// Version is one published log list: which logs of the universe it contains and which of them it has
// moved to "retired".
type Version struct {
	Present []bool
	Retired []bool
}

// refresh script entries
const (
	refNoChange = -1 // Refresh() returns (nil, nil)
	refError    = -2 // Refresh() returns an error
)

type Sub3 struct {
	Sub2
	WaitInit bool // the caller first waits for Proxy.Init
}

type Case3 struct {
	List           ListSpec
	Versions       []Version
	Script         []int // answer of the k-th Refresh() call: version index, refNoChange or refError (afterwards: no change)
	LLRefreshMs    int
	RootsRefreshMs int
	Policy         int
	Life           Lifetime
	Chain          ChainSpec17
	Subs           []Sub3
}

func (c Case3) versionList(v int) ListSpec {
	ls := ListSpec{Google: c.List.Google, Logs: append([]LogSpec(nil), c.List.Logs...)}
	for i := range ls.Logs {
		if c.Versions[v].Retired[i] {
			ls.Logs[i].State, ls.Logs[i].Extra = stRetired, 0
		}
	}
	return ls
}

func genCase3(t *rapid.T) Case3 {
	c := Case3{Policy: rapid.SampledFrom([]int{polChrome, polChrome, polApple}).Draw(t, "policy"), Life: genLifetime(t)}
	c.Chain = ChainSpec17{Root: rapid.IntRange(0, 3).Draw(t, "root"), Inter: rapid.Bool().Draw(t, "inter"), IncludeRoot: rapid.Bool().Draw(t, "inclroot")}
	c.List = genDistList(t, requiredTotal(c.Life), c.Chain.Root)
	n := len(c.List.Logs)
	for i := range c.List.Logs {
		// root answers are quick at this level (the slow ones are exercised at the Distributor level)
		c.List.Logs[i].RootsMs = rapid.SampledFrom([]int{0, 0, 3, 40, 700}).Draw(t, "rootsms3")
	}
	nver := rapid.IntRange(1, 3).Draw(t, "nver")
	for v := 0; v < nver; v++ {
		ver := Version{Present: make([]bool, n), Retired: make([]bool, n)}
		for i := 0; i < n; i++ {
			ver.Present[i] = rapid.SampledFrom([]bool{true, true, true, true, true, true, true, true, true, false}).Draw(t, "present")
			ver.Retired[i] = rapid.SampledFrom([]bool{false, false, false, false, false, false, false, false, false, false, false, true}).Draw(t, "retired")
		}
		c.Versions = append(c.Versions, ver)
	}
	c.Script = []int{0}
	nref := rapid.IntRange(1, 6).Draw(t, "nrefresh")
	for k := 0; k < nref; k++ {
		c.Script = append(c.Script, rapid.SampledFrom(append([]int{refNoChange, refError}, seq(nver)...)).Draw(t, "refresh"))
	}
	c.LLRefreshMs = rapid.SampledFrom([]int{1000, 1000, 2000, 3000}).Draw(t, "llrefresh")
	c.RootsRefreshMs = rapid.SampledFrom([]int{1500, 4000, 86400000}).Draw(t, "rootsrefresh")
	nsub := rapid.IntRange(1, 3).Draw(t, "nsub")
	for s := 0; s < nsub; s++ {
		sub := Sub3{WaitInit: rapid.Bool().Draw(t, "waitinit")}
		sub.StartMs = rapid.SampledFrom([]int{0, 1, 499, 999, 1000, 1001, 1750, 2000, 2900, 3001, 4100}).Draw(t, "start")
		sub.Pre = rapid.Bool().Draw(t, "pre")
		for i := 0; i < n; i++ {
			sub.Beh = append(sub.Beh, genBeh(t))
		}
		sub.DeadlineMs, sub.CancelMs = genCtxLimits(t)
		c.Subs = append(c.Subs, sub)
	}
	return c
}

// Delivery is one Refresh() call as seen by the scripted refresher.
type Delivery struct {
	At  time.Duration
	Ver int // version handed out, refNoChange or refError
}

type scriptedRefresher struct {
	tr       *trace
	c        Case3
	mu       sync.Mutex
	calls    int
	out      []Delivery
	lastJSON []byte
}

func (r *scriptedRefresher) Refresh() (*submission.LogListData, error) {
	r.mu.Lock()
	defer r.mu.Unlock()
	k := r.calls
	r.calls++
	ans := refNoChange
	if k < len(r.c.Script) {
		ans = r.c.Script[k]
	}
	r.out = append(r.out, Delivery{At: r.tr.now(), Ver: ans})
	switch ans {
	case refNoChange:
		return nil, nil
	case refError:
		return nil, fmt.Errorf("scripted log-list download failure (call %d)", k)
	}
	ll := buildList(r.c.versionList(ans), r.c.Life.NotAfter(), r.c.Versions[ans].Present)
	j, _ := json.Marshal(ll)
	r.lastJSON = j
	return &submission.LogListData{JSON: j, List: ll, DownloadTime: time.Now()}, nil
}

func (r *scriptedRefresher) LastJSON() []byte {
	r.mu.Lock()
	defer r.mu.Unlock()
	return r.lastJSON
}
func (r *scriptedRefresher) Source() string { return "scripted://log-list" }

type Out3 struct {
	TimedOut   bool
	InitOK     bool
	Subs       []SubOut
	Calls      []Call
	Roots      []RootsCall
	Deliveries []Delivery
	Builds     []Delivery // distributor constructions: instant and version
}

func run3(t *testing.T, c Case3, aux Aux, emit func(Out3)) {
	out := Out3{Subs: make([]SubOut, len(c.Subs))}
	tr := &trace{}
	w := newFakeWorld(tr, c.List, aux)
	for _, s := range c.Subs {
		w.beh = append(w.beh, s.Beh)
	}
	chains := aux.Chains
	vt.Run(t, watchdog, func(ctx context.Context) {
		tr.start(ctx)
		defer tr.finish()
		all, release := context.WithCancel(ctx)
		defer release()
		llr := &scriptedRefresher{tr: tr, c: c}
		var bmu sync.Mutex
		// The distributor builder is the repository's own (policy by type); the log-client builder tags
		// every client with the version of the list it was built for.
		pol := submission.ChromeCTPolicy
		if c.Policy == polApple {
			pol = submission.AppleCTPolicy
		}
		builds := 0
		db := func(ll *loglist3.LogList) (*submission.Distributor, error) {
			bmu.Lock()
			// the k-th construction belongs to the k-th delivered version
			ver := -1
			llr.mu.Lock()
			seen := 0
			for _, d := range llr.out {
				if d.Ver >= 0 {
					if seen == builds {
						ver = d.Ver
					}
					seen++
				}
			}
			llr.mu.Unlock()
			id := builds
			builds++
			out.Builds = append(out.Builds, Delivery{At: tr.now(), Ver: ver})
			bmu.Unlock()
			return submission.GetDistributorBuilder(pol, w.builder(id), nil)(ll)
		}
		p := submission.NewProxy(submission.NewLogListManager(llr, nil), db, nil)
		p.Run(all, ms(c.LLRefreshMs), ms(c.RootsRefreshMs))
		var wg sync.WaitGroup
		initDone := make(chan struct{})
		go func() {
			select {
			case ok := <-p.Init:
				out.InitOK = ok
			case <-all.Done():
			}
			close(initDone)
		}()
		for si := range c.Subs {
			wg.Add(1)
			go func(si int) {
				defer wg.Done()
				s := c.Subs[si]
				o := &out.Subs[si]
				if !vt.Sleep(all, ms(s.StartMs)) {
					return
				}
				if s.WaitInit {
					select {
					case <-initDone:
					case <-all.Done():
						return
					}
				}
				cctx, _ := callerCtx(all, s.DeadlineMs, s.CancelMs)
				o.Started, o.Start = true, tr.now()
				var scts []*submission.AssignedSCT
				var err error
				if s.Pre {
					scts, err = p.AddPreChain(cctx, chains[si], false)
				} else {
					scts, err = p.AddChain(cctx, chains[si], false)
				}
				o.Return, o.Returned = tr.now(), true
				o.CtxEnded = cctx.Err() != nil
				o.Released = ctx.Err() != nil
				if err != nil {
					o.Err = err.Error()
				}
				o.SCTs = collect(scts)
			}(si)
		}
		wg.Wait()
		out.TimedOut = ctx.Err() != nil
		// let every scripted refresh happen, then settle off the refresh grid
		rest := ms((len(c.Script)+1)*c.LLRefreshMs) - tr.now()
		if rest < 0 {
			rest = 0
		}
		vt.Sleep(ctx, rest+settle+137*time.Millisecond)
		release()
		<-initDone
		llr.mu.Lock()
		out.Deliveries = append([]Delivery(nil), llr.out...)
		llr.mu.Unlock()
		out.Calls = tr.snapshot()
		w.mu.Lock()
		out.Roots = append([]RootsCall(nil), w.roots...)
		w.mu.Unlock()
		bmu.Lock()
		emit(out)
		bmu.Unlock()
	})
}

func init() {
	childRunners["proxy"] = func(t *testing.T, raw, auxRaw json.RawMessage, emit func(any)) error {
		var c Case3
		var aux Aux
		if err := json.Unmarshal(raw, &c); err != nil {
			return err
		}
		if err := json.Unmarshal(auxRaw, &aux); err != nil {
			return err
		}
		run3(t, c, aux, func(o Out3) { emit(o) })
		return nil
	}
}

// rootsKnownAt: the instant from which distributor build b certainly knows the root sets of its logs
// (its first RefreshRoots round has completed), or MaxInt64.
func rootsKnownAt(roots []RootsCall, b int, ls ListSpec, present []bool) time.Duration {
	first := map[int]time.Duration{}
	for _, r := range roots {
		if r.Ver != b {
			continue
		}
		if e, ok := first[r.Log]; !ok || r.End < e {
			first[r.Log] = r.End
		}
	}
	var k time.Duration
	for i, l := range ls.Logs {
		if !present[i] || !hasClient(l) {
			continue
		}
		e, ok := first[i]
		if !ok {
			return math.MaxInt64
		}
		if e > k {
			k = e
		}
	}
	return k
}

func check3(t *testing.T, c Case3) harness.Verdict {
	var v harness.Verdict
	pres := make([]bool, len(c.Subs))
	for si, s := range c.Subs {
		pres[si] = s.Pre
	}
	res, err := runChild(t, "proxy", c, buildAux(c.Chain, c.Life, pres))
	if err != nil {
		v.Failf("harness-child", "%v", err)
		return v
	}
	judgeRaces(&v, res)
	if res.Obs == nil {
		v.NonTrivial = true
		return v
	}
	var out Out3
	if err := json.Unmarshal(res.Obs, &out); err != nil {
		v.Failf("harness-child", "cannot decode the child's observation: %v", err)
		return v
	}
	nd := policyNeed(c.Policy, c.Life)
	n := len(c.List.Logs)
	root := c.Chain.Root % 4
	v.Class(fmt.Sprintf("policy:%s", map[int]string{polChrome: "chrome", polApple: "apple"}[c.Policy]), fmt.Sprintf("subs:%d", len(c.Subs)), fmt.Sprintf("versions-installed:%d", len(out.Builds)))
	if len(res.Reports) > 0 {
		v.Class("race-reported")
	}
	v.Class(stanzaClasses(c.List)...)
	anyBad := false
	for si, s := range c.Subs {
		o := out.Subs[si]
		if !o.Started {
			continue
		}
		// Which distributor may have served the call: the last one built strictly before the call
		// started, or any built at that very instant; none at all if nothing was built strictly before.
		var cands []int
		last := -1
		for b, d := range out.Builds {
			if d.At < o.Start {
				last = b
			} else if d.At == o.Start {
				cands = append(cands, b)
			}
		}
		mayBeUninit := last < 0
		if last >= 0 {
			cands = append(cands, last)
		}
		if len(cands) > 1 || (mayBeUninit && len(cands) > 0) {
			v.Class("submission-at-install-instant")
		}
		elig, certain := make([]bool, n), allTrue(n)
		if mayBeUninit {
			certain = make([]bool, n)
			v.Class("submission-before-init")
		}
		for _, b := range cands {
			ver := out.Builds[b].Ver
			if ver < 0 || ver >= len(c.Versions) {
				v.Failf("harness-version", "distributor build %d could not be matched to a version", b)
				continue
			}
			ls := c.versionList(ver)
			kAt := rootsKnownAt(out.Roots, b, ls, c.Versions[ver].Present)
			for i, l := range ls.Logs {
				if !c.Versions[ver].Present[i] {
					certain[i] = false
					continue
				}
				e1, _ := eligible(l, root, kAt < o.Start && rootsAnswer(l))
				e2, _ := eligible(l, root, kAt <= o.Start && rootsAnswer(l))
				// a distributor that has just been replaced may have lost its root sets again
				e3, _ := eligible(l, root, false)
				tie := len(cands) > 1
				elig[i] = elig[i] || e1 || e2 || (tie && e3)
				certain[i] = certain[i] && e1 && e2 && (!tie || e3)
			}
		}
		for i := range c.List.Logs {
			if s.Beh[i].Kind != behSCT && elig[i] {
				anyBad = true
			}
		}
		for _, call := range callsOf(out.Calls, si) {
			if call.Log < 0 || call.Log >= n || elig[call.Log] {
				continue
			}
			l := c.List.Logs[call.Log]
			sig := "contacted-incompatible-log-proxy"
			if call.Ver >= 0 && call.Ver < len(out.Builds) {
				ver := out.Builds[call.Ver].Ver
				ls := c.versionList(ver)
				kAt := rootsKnownAt(out.Roots, call.Ver, ls, c.Versions[ver].Present)
				_, sg := eligible(ls.Logs[call.Log], root, kAt <= o.Start && rootsAnswer(l))
				if sg != "" {
					sig = sg
				}
				if sg == "contacted-root-not-accepted" {
					pres := ListSpec{Google: ls.Google}
					for i, pl := range ls.Logs {
						if c.Versions[ver].Present[i] {
							pres.Logs = append(pres.Logs, pl)
						}
					}
					if fallbackPath(pres, root, kAt <= o.Start) {
						sig = "root-filter-skipped-when-roots-incomplete"
					}
				}
			}
			v.Failf(sig, "Proxy sub %d (started %v): log %d was contacted at %v by the distributor of build %d although it is not compatible under any list version that could be active (builds %v; log %+v; chain root %d)",
				si, o.Start, call.Log, call.Start, call.Ver, out.Builds, l, root)
		}
		if s.DeadlineMs > 0 {
			v.Class("ctx:deadline")
		}
		if s.CancelMs > 0 {
			v.Class("ctx:cancel")
		}
		judgeSub(&v, subView{Idx: si, Out: o, Calls: callsOf(out.Calls, si), Beh: s.Beh, Eligible: elig, Certain: certain,
			DeadlineMs: s.DeadlineMs, CancelMs: s.CancelMs, List: c.List, Need: nd, Level: "Proxy"})
	}
	if anyBad {
		v.Class("has-failing-or-hanging-log")
	}
	v.NonTrivial = len(out.Builds) > 1 || len(c.Subs) > 1 || anyBad
	return v
}

var Proxy = harness.Define(harness.Opts{Name: "proxy", Rule: ruleProxy, Quick: 40, Thorough: 500, Crashy: true}, genCase3, check3)

const ruleProxy = "submission.Proxy over a LogListManager with a scripted LogListRefresher (each case in a fresh -race child process, inside a synctest bubble): 1-3 published list versions (logs dropped / retired), a refresh script of updates, no-changes and errors on a 1-3 s grid, periodic root refreshes, 1-3 callers of AddChain / AddPreChain before, at and between the refresh instants (with and without waiting for Init). Non-trivial: the distributor was replaced at least once, or several callers, or a compatible log fails or hangs"
