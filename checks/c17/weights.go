package c17

import (
	"context"
	"encoding/json"
	"fmt"
	"sync"
	"testing"

	"pgregory.net/rapid"

	ct "github.com/google/certificate-transparency-go"
	"github.com/google/certificate-transparency-go/submission"
	"github.com/google/certificate-transparency-go/x509"

	"verif/internal/harness"
	"verif/internal/vt"
)

// ---------------------------------------------------------------------------------------------
// Entry level 4: the ctpolicy group API. One set of groups (LogsByGroup) is shared by 1-3 concurrent
// GetSCTs callers and by goroutines that change weights / draw submission sessions.

const (
	opSetWeights = 0 // SetLogWeights with a weight for every member
	opSetWeight  = 1 // SetLogWeight for one log
	opSession    = 2 // GetSubmissionSession
)

// WOp is one step of a weight-changing goroutine.
type WOp struct {
	GapMs   int // virtual pause before the step
	Kind    int
	Group   int   // index into groupNames (taken modulo the groups that exist)
	Log     int   // opSetWeight: log index
	Weights []int // opSetWeights: weight per log index; opSetWeight: Weights[0]
}

type Case4 struct {
	List     ListSpec
	Policy   int
	Life     Lifetime
	Subs     []Sub1 // Perm is not used: the order is whatever the current weights give
	Changers [][]WOp
	Zero     bool // weights may be zero (then a log can drop out of a group's session and liveness is not demanded)
}

func genCase4(t *rapid.T) Case4 {
	c := Case4{Policy: rapid.SampledFrom([]int{polChrome, polChrome, polApple}).Draw(t, "policy"), Life: genLifetime(t)}
	c.List = genListShape(t, requiredTotal(c.Life))
	n := len(c.List.Logs)
	c.Zero = rapid.IntRange(0, 3).Draw(t, "zero") == 3
	wvals := []int{1, 1, 2, 5, 1000}
	if c.Zero {
		wvals = append(wvals, 0, 0)
	}
	nsub := rapid.IntRange(1, 3).Draw(t, "nsub")
	for s := 0; s < nsub; s++ {
		sub := Sub1{StartMs: rapid.SampledFrom([]int{0, 0, 1, 500, 1000}).Draw(t, "start"), Pre: rapid.Bool().Draw(t, "pre")}
		for i := 0; i < n; i++ {
			sub.Beh = append(sub.Beh, genBeh(t))
		}
		sub.DeadlineMs, sub.CancelMs = genCtxLimits(t)
		c.Subs = append(c.Subs, sub)
	}
	nch := rapid.IntRange(1, 3).Draw(t, "nchangers")
	for k := 0; k < nch; k++ {
		var ops []WOp
		nops := rapid.IntRange(1, 6).Draw(t, "nops")
		for j := 0; j < nops; j++ {
			op := WOp{GapMs: rapid.SampledFrom([]int{0, 0, 1, 250, 500, 1000}).Draw(t, "gap"), Kind: rapid.IntRange(0, 2).Draw(t, "opkind"), Group: rapid.IntRange(0, 2).Draw(t, "group")}
			switch op.Kind {
			case opSetWeights:
				for i := 0; i < n; i++ {
					op.Weights = append(op.Weights, rapid.SampledFrom(wvals).Draw(t, "w"))
				}
			case opSetWeight:
				op.Log = rapid.IntRange(0, n-1).Draw(t, "wlog")
				op.Weights = []int{rapid.SampledFrom(wvals).Draw(t, "w")}
			}
			ops = append(ops, op)
		}
		c.Changers = append(c.Changers, ops)
	}
	return c
}

// SessionOut is one GetSubmissionSession result seen by a changer.
type SessionOut struct {
	Group string
	URLs  []string
}

type Out4 struct {
	TimedOut bool
	SetupErr string
	Subs     []SubOut
	Calls    []Call
	Sessions []SessionOut
	OpErrs   int // weight changes the group refused
	OpOK     int
}

func run4(t *testing.T, c Case4, emit func(Out4)) {
	out := Out4{Subs: make([]SubOut, len(c.Subs))}
	tr := &trace{}
	vt.Run(t, watchdog, func(ctx context.Context) {
		tr.start(ctx)
		defer tr.finish()
		all, release := context.WithCancel(ctx)
		defer release()
		ll := buildList(c.List, c.Life.NotAfter(), nil)
		cert := &x509.Certificate{NotBefore: c.Life.NotBefore(), NotAfter: c.Life.NotAfter()}
		groups, err := policyObj(c.Policy).LogsByGroup(cert, ll)
		if err != nil {
			out.SetupErr = err.Error()
			emit(out)
			return
		}
		var existing []string
		for _, g := range groupNames {
			if groups[g] != nil {
				existing = append(existing, g)
			}
		}
		var mu sync.Mutex
		var wg sync.WaitGroup
		for _, ops := range c.Changers {
			wg.Add(1)
			go func(ops []WOp) {
				defer wg.Done()
				for _, op := range ops {
					if !vt.Sleep(all, ms(op.GapMs)) {
						return
					}
					g := groups[existing[op.Group%len(existing)]]
					var err error
					switch op.Kind {
					case opSetWeights:
						w := map[string]float32{}
						for i, x := range op.Weights {
							if g.LogURLs[logURL(i)] {
								w[logURL(i)] = float32(x)
							}
						}
						err = g.SetLogWeights(w)
					case opSetWeight:
						err = g.SetLogWeight(logURL(op.Log), float32(op.Weights[0]))
					case opSession:
						s := g.GetSubmissionSession()
						mu.Lock()
						out.Sessions = append(out.Sessions, SessionOut{Group: g.Name, URLs: s})
						mu.Unlock()
						continue
					}
					mu.Lock()
					if err != nil {
						out.OpErrs++
					} else {
						out.OpOK++
					}
					mu.Unlock()
				}
			}(ops)
		}
		for si := range c.Subs {
			wg.Add(1)
			go func(si int) {
				defer wg.Done()
				s := c.Subs[si]
				o := &out.Subs[si]
				if !vt.Sleep(all, ms(s.StartMs)) {
					return
				}
				cctx, _ := callerCtx(all, s.DeadlineMs, s.CancelMs)
				sm := &scriptedSubmitter{tr: tr, sub: si, beh: s.Beh}
				o.Started, o.Start = true, tr.now()
				scts, err := submission.GetSCTs(cctx, sm, []ct.ASN1Cert{{Data: []byte{byte(si)}}}, s.Pre, groups)
				o.Return, o.Returned = tr.now(), true
				o.CtxEnded = cctx.Err() != nil
				o.Released = ctx.Err() != nil
				if err != nil {
					o.Err = err.Error()
				}
				o.SCTs = collect(scts)
			}(si)
		}
		wg.Wait()
		out.TimedOut = ctx.Err() != nil
		vt.Sleep(ctx, settle)
		release()
		out.Calls = tr.snapshot()
		mu.Lock()
		emit(out)
		mu.Unlock()
	})
}

func init() {
	childRunners["weights"] = func(t *testing.T, raw, _ json.RawMessage, emit func(any)) error {
		var c Case4
		if err := json.Unmarshal(raw, &c); err != nil {
			return err
		}
		run4(t, c, func(o Out4) { emit(o) })
		return nil
	}
}

func check4(t *testing.T, c Case4) harness.Verdict {
	var v harness.Verdict
	res, err := runChild(t, "weights", c, nil)
	if err != nil {
		v.Failf("harness-child", "%v", err)
		return v
	}
	judgeRaces(&v, res)
	if len(res.Reports) > 0 || res.Fatal != "" {
		v.Class("race-reported")
	}
	if res.Obs == nil {
		v.NonTrivial = true
		return v
	}
	var out Out4
	if err := json.Unmarshal(res.Obs, &out); err != nil {
		v.Failf("harness-child", "cannot decode the child's observation: %v", err)
		return v
	}
	nd := policyNeed(c.Policy, c.Life)
	n := len(c.List.Logs)
	v.Class(fmt.Sprintf("policy:%s", map[int]string{polChrome: "chrome", polApple: "apple"}[c.Policy]), fmt.Sprintf("subs:%d", len(c.Subs)), fmt.Sprintf("changers:%d", len(c.Changers)))
	if out.SetupErr != "" {
		v.Class("outcome:refused")
		if nd.satisfies(c.List, seq(n)) {
			v.Failf("policy-refused-satisfiable-list", "the list satisfies %+v but LogsByGroup said: %s", nd, out.SetupErr)
		}
		return v
	}
	if c.Zero {
		v.Class("zero-weights-possible")
	}
	if out.OpErrs > 0 {
		v.Class("weight-change-refused")
	}
	if out.OpOK > 0 {
		v.Class("weight-change-applied")
	}
	// sessions: members of the group, no log twice
	for _, s := range out.Sessions {
		seen := map[string]bool{}
		for _, u := range s.URLs {
			i := logIndex(u)
			if i < 0 || i >= n || !groupOf(s.Group, c.List, i) {
				v.Failf("session-foreign-log", "GetSubmissionSession of group %s returned %q, which is not a member", s.Group, u)
			}
			if seen[u] {
				v.Failf("session-duplicate-log", "GetSubmissionSession of group %s returned %q twice: %v", s.Group, u, s.URLs)
			}
			seen[u] = true
		}
		v.Class("session-drawn")
	}
	certain := allTrue(n)
	if c.Zero || len(res.Reports) > 0 {
		// a log may be missing from a session (zero weight, or a session drawn from a half-updated
		// weight map in an execution the race detector has already condemned): success cannot be demanded
		certain = make([]bool, n)
	}
	for si, s := range c.Subs {
		judgeSub(&v, subView{Idx: si, Out: out.Subs[si], Calls: callsOf(out.Calls, si), Beh: s.Beh, Eligible: allTrue(n), Certain: certain,
			DeadlineMs: s.DeadlineMs, CancelMs: s.CancelMs, List: c.List, Need: nd, Level: "GetSCTs(shared groups)"})
	}
	v.NonTrivial = true
	return v
}

var Weights = harness.Define(harness.Opts{Name: "weights", Rule: ruleWeights, Quick: 80, Thorough: 1500, Crashy: true}, genCase4, check4)

const ruleWeights = "ctpolicy group API (each case in a fresh -race child process, inside a synctest bubble): one LogsByGroup result shared by 1-3 concurrent GetSCTs callers and 1-3 goroutines issuing SetLogWeights / SetLogWeight / GetSubmissionSession at scripted instants (weights 1-1000, in a quarter of the cases also 0). Every case is non-trivial (concurrent use of shared groups)"
