//go:build !race

package c17

const raceEnabled = false

func raceErrors() int { return 0 }
