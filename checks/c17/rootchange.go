package c17

import (
	"context"
	"fmt"
	"sort"
	"sync"
	"testing"
	"time"

	"pgregory.net/rapid"

	"github.com/google/certificate-transparency-go/submission"

	"verif/internal/harness"
	"verif/internal/vt"
)

// ---------------------------------------------------------------------------------------------
// Sub-property "rootchange": one Distributor, a sequential history of root refreshes whose answers
// change from refresh to refresh (logs drop or add roots, stop answering) and of submissions of the same
// few chains before, during (slow get-roots) and after those refreshes. The compatibility clause is
// judged against the root sets that were installed when each submission started.

const (
	evRefresh = 0 // start RefreshRoots in the background (after the previous one has finished)
	evSubmit  = 1 // AddChain / AddPreChain of chain Chain, synchronously
)

type Event6 struct {
	GapMs int // pause before the event
	Kind  int
	Chain int // evSubmit: which of the case's chains (0 or 1)
}

type Case6 struct {
	List    ListSpec // State / interval as at the Distributor level; Roots / RootsMs are not used
	Policy  int
	Life    Lifetime
	Chain   ChainSpec17
	Pre     []bool  // per chain: precertificate?
	Fail    []bool  // per log: answers add-chain with an error (otherwise an SCT), at once
	Phases  [][]int // [refresh number][log]: root mask answered in that refresh (-1: get-roots fails); the last phase repeats
	RootsMs []int   // per log: latency of get-roots
	Events  []Event6
}

func genCase6(t *rapid.T) Case6 {
	c := Case6{Policy: rapid.SampledFrom([]int{polApple, polChrome}).Draw(t, "policy")}
	c.Life = Lifetime{NBMonth: rapid.IntRange(0, 11).Draw(t, "nbmonth"), NBDay: rapid.IntRange(1, 28).Draw(t, "nbday"), Months: rapid.SampledFrom([]int{3, 12, 20}).Draw(t, "months")}
	c.Chain = ChainSpec17{Root: rapid.IntRange(0, 3).Draw(t, "root"), Inter: rapid.Bool().Draw(t, "inter"), IncludeRoot: rapid.Bool().Draw(t, "inclroot")}
	root := c.Chain.Root
	c.List = genListShape(t, requiredTotal(c.Life)+1)
	n := len(c.List.Logs)
	c.Pre = []bool{rapid.Bool().Draw(t, "pre0"), rapid.Bool().Draw(t, "pre1")}
	for i := 0; i < n; i++ {
		l := &c.List.Logs[i]
		if rapid.IntRange(0, 9).Draw(t, "unusable") == 0 {
			l.State = rapid.SampledFrom([]int{stPending, stRetired, stQualified}).Draw(t, "state")
		}
		l.Extra = genExtraStanza(t)
		if rapid.IntRange(0, 9).Draw(t, "iv") == 0 {
			sh := ivShapes[rapid.IntRange(0, len(ivShapes)-1).Draw(t, "ivshape")]
			l.HasIv, l.IvStart, l.IvEnd = true, sh[0], sh[1]
		}
		c.Fail = append(c.Fail, rapid.IntRange(0, 9).Draw(t, "fail") == 0)
		c.RootsMs = append(c.RootsMs, rapid.SampledFrom([]int{0, 0, 40, 2300, 7700}).Draw(t, "rootsms"))
	}
	nph := rapid.IntRange(2, 3).Draw(t, "nphases")
	for p := 0; p < nph; p++ {
		ph := make([]int, n)
		for i := range ph {
			switch {
			case p > 0 && rapid.IntRange(0, 2).Draw(t, "keep") > 0:
				ph[i] = c.Phases[p-1][i]
			default:
				switch rapid.SampledFrom([]int{0, 0, 0, 0, 1, 1, 2}).Draw(t, "rootkind") {
				case 0:
					ph[i] = rapid.IntRange(0, 15).Draw(t, "roots") | 1<<root
				case 1:
					ph[i] = rapid.IntRange(0, 15).Draw(t, "roots") &^ (1 << root)
				case 2:
					ph[i] = -1
				}
			}
		}
		c.Phases = append(c.Phases, ph)
	}
	nev := rapid.IntRange(4, 9).Draw(t, "nevents")
	for e := 0; e < nev; e++ {
		ev := Event6{GapMs: rapid.SampledFrom([]int{500, 500, 3500, 8500, 12500}).Draw(t, "gap"), Kind: rapid.SampledFrom([]int{evRefresh, evSubmit, evSubmit}).Draw(t, "evkind")}
		if e == 0 {
			ev.Kind = rapid.SampledFrom([]int{evRefresh, evRefresh, evRefresh, evSubmit}).Draw(t, "first")
		}
		if ev.Kind == evSubmit {
			ev.Chain = rapid.SampledFrom([]int{0, 0, 0, 1}).Draw(t, "chain")
		}
		c.Events = append(c.Events, ev)
	}
	return c
}

// phaseClient answers get-roots by refresh number (a counter kept by the harness, which runs the
// refreshes strictly one after the other) and add-chain at once.
type phaseWorld struct {
	c       Case6
	tr      *trace
	rootDER [][]byte
	leafTo  map[[32]byte]int
	mu      sync.Mutex
	phase   int // refresh currently running
}

type Out6 struct {
	TimedOut  bool
	BuildErr  string
	Subs      []SubOut // one per evSubmit event, in order
	Chains    []int    // chain of each submission
	Calls     []Call   // Sub = chain id as seen by the log
	Refreshes []Span   // Ver = phase
}

func run6(t *testing.T, c Case6, aux Aux, emit func(Out6)) {
	var out Out6
	tr := &trace{}
	// reuse the Distributor-level fake: per-"submission" behaviour is per chain here
	ls := c.List
	for i := range ls.Logs {
		ls.Logs[i].Roots, ls.Logs[i].RootsMs = 0, c.RootsMs[i]
	}
	w := newFakeWorld(tr, ls, aux)
	for range aux.Chains {
		beh := make([]Beh, len(ls.Logs))
		for i := range beh {
			if c.Fail[i] {
				beh[i] = Beh{Kind: behErr}
			}
		}
		w.beh = append(w.beh, beh)
	}
	phase := 0
	var pmu sync.Mutex
	w.rootsOf = func(log int) int {
		pmu.Lock()
		defer pmu.Unlock()
		p := phase
		if p >= len(c.Phases) {
			p = len(c.Phases) - 1
		}
		return c.Phases[p][log]
	}
	vt.Run(t, watchdog, func(ctx context.Context) {
		tr.start(ctx)
		defer tr.finish()
		all, release := context.WithCancel(ctx)
		defer release()
		d, err := submission.NewDistributor(buildList(ls, c.Life.NotAfter(), nil), policyObj(c.Policy), w.builder(0), nil)
		if err != nil {
			out.BuildErr = err.Error()
			emit(out)
			return
		}
		var mu sync.Mutex
		var refreshing sync.WaitGroup
		nref := 0
		for _, ev := range c.Events {
			if !vt.Sleep(all, ms(ev.GapMs)) {
				break
			}
			switch ev.Kind {
			case evRefresh:
				refreshing.Wait() // refreshes never overlap
				pmu.Lock()
				phase = nref
				pmu.Unlock()
				p := nref
				nref++
				refreshing.Add(1)
				go func() {
					defer refreshing.Done()
					sp := Span{Ver: p, Start: tr.now()}
					d.RefreshRoots(all)
					sp.End = tr.now()
					mu.Lock()
					out.Refreshes = append(out.Refreshes, sp)
					mu.Unlock()
				}()
			case evSubmit:
				o := SubOut{Started: true, Start: tr.now()}
				cctx, cancel := context.WithCancel(all)
				var scts []*submission.AssignedSCT
				var err error
				if c.Pre[ev.Chain] {
					scts, err = d.AddPreChain(cctx, aux.Chains[ev.Chain], false)
				} else {
					scts, err = d.AddChain(cctx, aux.Chains[ev.Chain], false)
				}
				o.Return, o.Returned = tr.now(), true
				o.Released = ctx.Err() != nil
				cancel() // as a caller with "defer cancel()" does: the staggered goroutines give up
				if err != nil {
					o.Err = err.Error()
				}
				o.SCTs = collect(scts)
				mu.Lock()
				out.Subs = append(out.Subs, o)
				out.Chains = append(out.Chains, ev.Chain)
				mu.Unlock()
			}
		}
		refreshing.Wait()
		out.TimedOut = ctx.Err() != nil
		vt.Sleep(ctx, 20*time.Second)
		release()
		out.Calls = tr.snapshot()
		mu.Lock()
		emit(out)
		mu.Unlock()
	})
}

func check6(t *testing.T, c Case6) harness.Verdict {
	var v harness.Verdict
	aux := buildAux(c.Chain, c.Life, c.Pre)
	races0 := raceErrors()
	var out Out6
	completed := guarded(func() { run6(t, c, aux, func(o Out6) { out = o }) })
	if !inProcessRaces(&v, "race-distributor", races0, completed) {
		v.NonTrivial = true
		return v
	}
	if out.BuildErr != "" {
		v.Failf("harness-distributor-build", "NewDistributor failed: %s", out.BuildErr)
		return v
	}
	n := len(c.List.Logs)
	root := c.Chain.Root % 4
	nd := policyNeed(c.Policy, c.Life)
	sort.Slice(out.Refreshes, func(i, j int) bool { return out.Refreshes[i].Start < out.Refreshes[j].Start })
	v.Class(fmt.Sprintf("refreshes:%d", len(out.Refreshes)), fmt.Sprintf("submissions:%d", len(out.Subs)))
	v.Class(stanzaClasses(c.List)...)
	phaseOf := func(p int) []int {
		if p >= len(c.Phases) {
			p = len(c.Phases) - 1
		}
		return c.Phases[p]
	}
	// listAt: the root knowledge installed at instant s (nil: none yet); sure is false when a refresh
	// ended at exactly that instant
	listAt := func(s time.Duration, strict bool) []int {
		var cur []int
		for _, r := range out.Refreshes {
			if r.End < s || (!strict && r.End == s) {
				cur = phaseOf(r.Ver)
			}
		}
		return cur
	}
	changed := false
	seenChain := map[int]bool{}
	for k, o := range out.Subs {
		chain := out.Chains[k]
		end := time.Duration(1<<62 - 1)
		if k+1 < len(out.Subs) {
			end = out.Subs[k+1].Start
		}
		// requests of this submission: same chain, arrived in the submission's window
		var calls []Call
		for _, call := range out.Calls {
			if call.Sub == chain && call.Start >= o.Start && call.Start < end {
				cc := call
				cc.Sub = k
				calls = append(calls, cc)
			}
		}
		during := false
		for _, r := range out.Refreshes {
			if r.Start < o.Start && o.Start < r.End {
				during = true
			}
		}
		if during {
			v.Class("submission-during-refresh")
		}
		if seenChain[chain] {
			v.Class("chain-resubmitted")
		}
		seenChain[chain] = true
		elig, certain := make([]bool, n), make([]bool, n)
		for i, l := range c.List.Logs {
			var es [2]bool
			for j, strict := range []bool{true, false} {
				ll := l
				known := false
				if ph := listAt(o.Start, strict); ph != nil && ph[i] >= 0 && c.RootsMs[i] < 10000 {
					known = true
					ll.Roots = ph[i]
				}
				es[j], _ = eligible(ll, root, known)
			}
			elig[i], certain[i] = es[0] || es[1], es[0] && es[1]
		}
		if a, b := listAt(o.Start, true), listAt(o.Start, false); a != nil && b != nil && &a[0] != &b[0] {
			v.Class("refresh-ends-at-submission-start")
		}
		if k > 0 {
			if a, b := listAt(out.Subs[k-1].Start, true), listAt(o.Start, true); a != nil && b != nil && &a[0] != &b[0] {
				for i := range a {
					if a[i] != b[i] {
						changed = true
					}
				}
			}
		}
		for _, call := range calls {
			if call.Log < 0 || call.Log >= n || elig[call.Log] {
				continue
			}
			l := c.List.Logs[call.Log]
			ph := listAt(o.Start, false)
			known := ph != nil && ph[call.Log] >= 0
			if known {
				l.Roots = ph[call.Log]
			}
			_, sig := eligible(l, root, known)
			v.Failf(sig, "rootchange submission %d (chain %d, started %v): log %d was contacted at %v although it is not compatible with the root sets installed at that instant (state %s, interval %v [%d,%d), accepted roots mask %d known=%v, chain root %d; refreshes %v; phases %v)",
				k, chain, o.Start, call.Log, call.Start, stateNames[effState(l)], l.HasIv, l.IvStart, l.IvEnd, l.Roots, known, root, out.Refreshes, c.Phases)
		}
		beh := make([]Beh, n)
		for i := range beh {
			if c.Fail[i] {
				beh[i] = Beh{Kind: behErr}
			}
		}
		// SCT stamps carry the chain id the log saw
		oo := o
		for i := range oo.SCTs {
			if li := logIndex(oo.SCTs[i].URL); li >= 0 && oo.SCTs[i].Stamp == sctStamp(chain, li) {
				oo.SCTs[i].Stamp = sctStamp(k, li)
			}
		}
		judgeSub(&v, subView{Idx: k, Out: oo, Calls: calls, Beh: beh, Eligible: elig, Certain: certain, List: c.List, Need: nd, Level: "rootchange"})
	}
	if changed {
		v.Class("installed-roots-changed-between-submissions")
	}
	v.NonTrivial = len(out.Subs) > 1 && len(out.Refreshes) > 0
	return v
}

var RootChange = harness.Define(harness.Opts{Name: "rootchange", Rule: ruleRootChange, Quick: 400, Thorough: 4000, Crashy: true}, genCase6, check6)

const ruleRootChange = "one Distributor in a synctest bubble (-race): a sequential history of 4-9 events - RefreshRoots in the background (2-3 answer phases: per log the accepted roots change, or get-roots starts / stops failing; get-roots latency 0-7.7 s) and submissions of one of two chains before, during and after the refreshes; logs answer at once. Judged: every contacted log is compatible with the root sets installed when the submission started, plus the safety oracles. Non-trivial: at least two submissions and one refresh"
