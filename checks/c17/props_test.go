package c17

import (
	"runtime"
	"testing"

	"verif/internal/harness"
)

// TestProps runs the four sub-properties. The process that executes thousands of bubbles in-process is
// limited to one P: go1.26.8 shares one race-detector context per bubble (bubble.timers.raceCtx) between
// every thread that fires one of the bubble's timers, and with several Ps two threads occasionally use it
// at the same time, which corrupts the detector's state and kills the process with SIGSEGV inside the tsan
// runtime (seen about once per 20 000 bubbles of this check). The happens-before analysis of the race
// detector does not depend on real parallelism. The driver exports GOMAXPROCS=1 as well (check.json
// "gomaxprocs"); the child processes of the race sub-properties inherit it, and a child that dies with
// SIGSEGV anyway is repeated (child.go). D9 and D10 are still reported with one P.
func TestProps(t *testing.T) {
	defer runtime.GOMAXPROCS(runtime.GOMAXPROCS(1))
	harness.Main(t, "C17", GetSCTs, Distributor, Proxy, Weights, Hammer, RootChange, Outage, GetSCTsIsolated, DistributorIsolated)
}

// TestChild executes one case of a race sub-property in a process of its own (see child.go).
func TestChild(t *testing.T) { ChildMain(t) }
