package c17

import (
	"pgregory.net/rapid"

	"verif/internal/harness"
)

// ---------------------------------------------------------------------------------------------
// Sub-property "outage": the Distributor-level machinery (run2 / judge2) on a different shape of case.
// Some logs are black-holed for a first wave of 2-14 concurrent callers that never cancel (they stay
// blocked on the hanging logs, which the statement allows); later callers arrive when the logs answer
// again (or other logs suffice). The earlier, stuck submissions must not keep the later ones from
// reaching the healthy logs: those must succeed and return.

func genCaseOutage(t *rapid.T) Case2 {
	c := Case2{Policy: rapid.SampledFrom([]int{polApple, polApple, polChrome}).Draw(t, "policy"), InitRefresh: true}
	// few distinct lifetimes / chains, so that the certificate cache is hit
	c.Life = Lifetime{NBMonth: 0, NBDay: 1 + rapid.IntRange(0, 2).Draw(t, "nbday"), Months: rapid.SampledFrom([]int{3, 3, 20}).Draw(t, "months")}
	c.Chain = ChainSpec17{Root: rapid.IntRange(0, 3).Draw(t, "root"), Inter: rapid.Bool().Draw(t, "inter")}
	total := requiredTotal(c.Life)
	n := rapid.IntRange(2, 4).Draw(t, "nlogs")
	if n < total {
		n = total
	}
	c.List = ListSpec{Google: []bool{true, false}}
	for i := 0; i < n; i++ {
		c.List.Logs = append(c.List.Logs, LogSpec{Op: i % 2, State: stUsable, Roots: 15})
	}
	// the black-holed logs: enough of them that the first wave cannot be satisfied
	healthy := rapid.IntRange(0, total-1).Draw(t, "healthy")
	down := make([]bool, n)
	recovers := make([]bool, n)
	for i := healthy; i < n; i++ {
		down[i] = true
		recovers[i] = rapid.SampledFrom([]bool{true, true, true, true, false}).Draw(t, "recovers")
	}
	early := rapid.IntRange(2, 14).Draw(t, "early")
	late := rapid.IntRange(1, 2).Draw(t, "late")
	for s := 0; s < early+late; s++ {
		sub := Sub2{Pre: rapid.Bool().Draw(t, "pre")}
		isLate := s >= early
		if isLate {
			sub.StartMs = rapid.SampledFrom([]int{15000, 20000, 30000}).Draw(t, "latestart")
			if rapid.IntRange(0, 3).Draw(t, "latedeadline") == 0 {
				sub.DeadlineMs = 60000
			}
		} else {
			sub.StartMs = rapid.SampledFrom([]int{0, 0, 1, 500, 1000, 3000}).Draw(t, "earlystart")
		}
		for i := 0; i < n; i++ {
			b := Beh{Kind: behSCT, DelayMs: rapid.SampledFrom([]int{0, 0, 7, 40}).Draw(t, "delay")}
			if down[i] && !(isLate && recovers[i]) {
				b = Beh{Kind: rapid.SampledFrom([]int{behHang, behHang, behStuck}).Draw(t, "hangkind")}
			}
			sub.Beh = append(sub.Beh, b)
		}
		c.Subs = append(c.Subs, sub)
	}
	return c
}

var Outage = harness.Define(harness.Opts{Name: "outage", Rule: ruleOutage, Quick: 150, Thorough: 1500, Crashy: true}, genCaseOutage, check2)

const ruleOutage = "one Distributor in a synctest bubble (-race), 2-4 usable logs of which enough are black-holed (hang until cancelled, or ignore the context) that a first wave of 2-14 concurrent callers without deadline stays blocked; 1-2 later callers arrive 15-30 s on, when most of those logs answer again. Judged with the Distributor oracles: the later callers must succeed and return, the blocked ones are allowed to block. Non-trivial: always (concurrent callers, hanging logs)"
