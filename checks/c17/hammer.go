package c17

import (
	"context"
	"encoding/json"
	"fmt"
	"runtime"
	"strings"
	"sync"
	"sync/atomic"
	"testing"

	"pgregory.net/rapid"

	ct "github.com/google/certificate-transparency-go"
	"github.com/google/certificate-transparency-go/ctpolicy"
	"github.com/google/certificate-transparency-go/submission"
	"github.com/google/certificate-transparency-go/x509"

	"verif/internal/harness"
)

// ---------------------------------------------------------------------------------------------
// Sub-property "hammer": real parallelism instead of virtual time. The other sub-properties run with
// one P and rely on the race detector for unsynchronised accesses; a check-then-act window in which
// every access is lock-protected (e.g. request() testing "already requested" under one lock and
// registering under another) is invisible to the detector and needs two threads inside the window at the
// same moment. Here several groups that all contain the same few logs race for them with a submitter
// that answers at once, many times per case, on 4-8 Ps, outside any bubble. No timing is asserted - only
// the safety clauses: at most one submission per log, distinct logs, every group satisfied on success.

// HGroup is a hand-made policy group (mode 0).
type HGroup struct {
	Members []bool
}

type Case5 struct {
	Mode   int      // 0: hand-made groups that all start every member at once; 1: Chrome groups from LogsByGroup
	NLogs  int      // 2..5
	Groups []HGroup // mode 0: 2-5 groups; each requires all of its members (so all are asked in the first batch)
	Months int      // mode 1: certificate lifetime (decides the total)
	Fail   []bool   // per log: the log answers with an error
	Yield  []int    // per log: scheduler yields before the answer (0-3)
	Reps   int      // GetSCTs calls per case
	Procs  int      // GOMAXPROCS while the case runs
}

func genCase5(t *rapid.T) Case5 {
	c := Case5{Procs: rapid.SampledFrom([]int{4, 6, 8}).Draw(t, "procs")}
	c.Reps = 150
	if harness.Thorough() {
		c.Reps = 400
		// Chrome groups need the base group's staggered second batch, i.e. one second of real time per
		// call: thorough tier only, a handful of calls per case
		c.Mode = rapid.SampledFrom([]int{0, 0, 0, 0, 0, 0, 0, 0, 0, 1}).Draw(t, "mode")
		if c.Mode == 1 {
			c.Reps = 8
		}
	}
	if c.Mode == 0 {
		c.NLogs = rapid.IntRange(2, 5).Draw(t, "nlogs")
		ng := rapid.IntRange(2, 5).Draw(t, "ngroups")
		for g := 0; g < ng; g++ {
			hg := HGroup{Members: make([]bool, c.NLogs)}
			for i := range hg.Members {
				hg.Members[i] = rapid.SampledFrom([]bool{true, true, true, false}).Draw(t, "member")
			}
			hg.Members[rapid.IntRange(0, c.NLogs-1).Draw(t, "anchor")] = true
			c.Groups = append(c.Groups, hg)
		}
	} else {
		c.NLogs = rapid.IntRange(5, 8).Draw(t, "nlogs")
		c.Months = rapid.SampledFrom([]int{20, 30, 45}).Draw(t, "months")
	}
	for i := 0; i < c.NLogs; i++ {
		// (in mode 1 every log answers with an SCT: a failing log would make its group wait for the
		// real-time one-second stagger)
		c.Fail = append(c.Fail, c.Mode == 0 && rapid.SampledFrom([]bool{false, false, false, false, false, true}).Draw(t, "fail"))
		c.Yield = append(c.Yield, rapid.IntRange(0, 3).Draw(t, "yield"))
	}
	return c
}

// hammerSubmitter answers at once and counts.
type hammerSubmitter struct {
	c     *Case5
	rep   int
	calls []atomic.Int32
}

func (h *hammerSubmitter) SubmitToLog(ctx context.Context, url string, _ []ct.ASN1Cert, _ bool) (*ct.SignedCertificateTimestamp, error) {
	i := logIndex(url)
	if i < 0 || i >= len(h.calls) {
		return nil, fmt.Errorf("unknown log %q", url)
	}
	h.calls[i].Add(1)
	for y := 0; y < h.c.Yield[i]; y++ {
		runtime.Gosched()
	}
	if h.c.Fail[i] {
		return nil, errScripted
	}
	return sctFor(h.rep, i), nil
}

// hammerList: log i belongs to operator i%2; operator 0 is Google-operated.
func hammerList(n int) ListSpec {
	ls := ListSpec{Google: []bool{true, false}}
	for i := 0; i < n; i++ {
		ls.Logs = append(ls.Logs, LogSpec{Op: i % 2})
	}
	return ls
}

func (c Case5) life() Lifetime { return Lifetime{NBDay: 1, Months: c.Months} }

// hammerGroups builds fresh groups for one repetition.
func hammerGroups(c Case5) (ctpolicy.LogPolicyData, error) {
	if c.Mode == 1 {
		ls := hammerList(c.NLogs)
		l := c.life()
		groups, err := ctpolicy.ChromeCTPolicy{}.LogsByGroup(&x509.Certificate{NotBefore: l.NotBefore(), NotAfter: l.NotAfter()}, buildList(ls, l.NotAfter(), nil))
		if err != nil {
			return nil, err
		}
		// the same preference order in every group, so that the first batches of the groups overlap
		perm := seq(c.NLogs)
		return groups, steer(groups, ls, [][]int{perm, perm, perm})
	}
	groups := ctpolicy.LogPolicyData{}
	for gi, hg := range c.Groups {
		g := &ctpolicy.LogGroupInfo{Name: fmt.Sprintf("group-%d", gi), LogURLs: map[string]bool{}, LogWeights: map[string]float32{}}
		for i, m := range hg.Members {
			if m {
				g.LogURLs[logURL(i)] = true
				g.LogWeights[logURL(i)] = 1
			}
		}
		g.MinInclusions = len(g.LogURLs)
		groups[g.Name] = g
	}
	return groups, nil
}

// hammerObs is what one execution of a case found.
type hammerObs struct {
	Violations []harness.Violation
	Classes    []string
	NonTrivial bool
}

// exec5 runs the case in this process and judges it.
func exec5(c Case5) hammerObs {
	var v harness.Verdict
	defer runtime.GOMAXPROCS(runtime.GOMAXPROCS(c.Procs))
	v.Class(fmt.Sprintf("mode:%d", c.Mode), fmt.Sprintf("procs:%d", c.Procs))
	ls := hammerList(c.NLogs)
	var nd need
	if c.Mode == 1 {
		nd = policyNeed(polChrome, c.life())
	}
	successes, failures, contended := 0, 0, 0
	// a few repetitions side by side keep all Ps busy
	const lanes = 4
	var mu sync.Mutex
	var wg sync.WaitGroup
	for lane := 0; lane < lanes; lane++ {
		wg.Add(1)
		go func(lane int) {
			defer wg.Done()
			for rep := lane; rep < c.Reps; rep += lanes {
				groups, err := hammerGroups(c)
				if err != nil {
					mu.Lock()
					v.Failf("harness-hammer-groups", "cannot build groups: %v", err)
					mu.Unlock()
					return
				}
				sm := &hammerSubmitter{c: &c, rep: rep, calls: make([]atomic.Int32, c.NLogs)}
				ctx, cancel := context.WithCancel(context.Background())
				scts, err := submission.GetSCTs(ctx, sm, []ct.ASN1Cert{{Data: []byte{byte(rep)}}}, rep%2 == 0, groups)
				cancel()
				mu.Lock()
				for i := range sm.calls {
					if n := sm.calls[i].Load(); n > 1 {
						v.Failf("double-submission", "hammer rep %d: log %d received the chain %d times (groups %+v)", rep, i, n, c.Groups)
					}
				}
				got := map[int]bool{}
				for _, a := range collect(scts) {
					i := logIndex(a.URL)
					switch {
					case i < 0 || i >= c.NLogs:
						v.Failf("sct-unknown-log", "hammer rep %d: returned SCT names unknown log %q", rep, a.URL)
					case got[i]:
						v.Failf("duplicate-sct-url", "hammer rep %d: two returned SCTs carry log URL %s", rep, a.URL)
					case a.Nil:
						v.Failf("sct-nil", "hammer rep %d: returned entry for %s has no SCT", rep, a.URL)
					case a.Stamp != sctStamp(rep, i):
						v.Failf("sct-misattributed", "hammer rep %d: SCT returned for log %d carries stamp %#x", rep, i, a.Stamp)
					case c.Fail[i]:
						v.Failf("sct-never-issued", "hammer rep %d: SCT returned for log %d, which only answers with errors", rep, i)
					default:
						got[i] = true
					}
				}
				if err == nil {
					successes++
					var idx []int
					for i := range got {
						idx = append(idx, i)
					}
					if c.Mode == 1 {
						if !nd.satisfies(ls, idx) {
							v.Failf("success-without-policy", "hammer rep %d: success reported with SCTs from logs %v; the policy needs %+v (log i is Google-operated iff i is even)", rep, idx, nd)
						}
					} else {
						for gi, hg := range c.Groups {
							have, want := 0, 0
							for i, m := range hg.Members {
								if m {
									want++
									if got[i] {
										have++
									}
								}
							}
							if have < want {
								v.Failf("success-without-policy", "hammer rep %d: success reported but group %d (members %v, needs all %d) has only %d SCTs among the returned logs %v", rep, gi, hg.Members, want, have, idx)
							}
						}
					}
				} else {
					failures++
				}
				mu.Unlock()
			}
		}(lane)
	}
	wg.Wait()
	// how many logs sit in two or more groups' first batches (potential simultaneous request() calls)
	if c.Mode == 0 {
		for i := 0; i < c.NLogs; i++ {
			k := 0
			for _, hg := range c.Groups {
				if hg.Members[i] {
					k++
				}
			}
			if k > 1 {
				contended++
			}
		}
	} else {
		contended = 2
	}
	if successes > 0 {
		v.Class("outcome:success")
	}
	if failures > 0 {
		v.Class("outcome:failure")
	}
	v.Class(fmt.Sprintf("contended-logs:%d", contended))
	return hammerObs{Violations: v.Violations, Classes: v.Classes, NonTrivial: contended > 0}
}


// check5 executes the case in a child process: the defect this sub-property aims at may kill the process
// (two "first requesters" of one log close the same completion channel), and a child turns that into a
// verdict with a signature that can be shrunk and replayed.
func check5(t *testing.T, c Case5) harness.Verdict {
	var v harness.Verdict
	res, err := runChild(t, "hammer", c, nil)
	if err != nil {
		v.Failf("harness-child", "%v", err)
		return v
	}
	if strings.Contains(res.Fatal, "close of closed channel") && strings.Contains(res.Fatal, "safeSubmissionState).setResult") {
		res2 := res
		res2.Fatal = ""
		judgeRaces(&v, res2)
		v.Failf("double-first-requester", "the process died because two requests to one log were both registered as the first one (each closes the log's completion channel): %s", res.Fatal)
		v.NonTrivial = true
		return v
	}
	judgeRaces(&v, res)
	if res.Obs == nil {
		v.NonTrivial = true
		return v
	}
	var o hammerObs
	if err := json.Unmarshal(res.Obs, &o); err != nil {
		v.Failf("harness-child", "cannot decode the child's observation: %v", err)
		return v
	}
	v.Violations = append(v.Violations, o.Violations...)
	v.Classes = o.Classes
	v.NonTrivial = o.NonTrivial
	return v
}

func init() {
	childRunners["hammer"] = func(t *testing.T, raw, _ json.RawMessage, emit func(any)) error {
		var c Case5
		if err := json.Unmarshal(raw, &c); err != nil {
			return err
		}
		emit(exec5(c))
		return nil
	}
}

var Hammer = harness.Define(harness.Opts{Name: "hammer", Rule: ruleHammer, Quick: 60, Thorough: 400, Crashy: true}, genCase5, check5)

const ruleHammer = "submission.GetSCTs outside any bubble on 4-8 Ps (each case in a child process) with a submitter that answers at once: 2-5 hand-made groups that all contain the same 2-5 logs and ask every member in their first batch (or Chrome groups with one preference order), 150 calls per case in 4 lanes (thorough: 400, and in a tenth of the cases Chrome groups with 8 calls); only the safety clauses are judged (at most one submission per log, distinct logs, every group satisfied on success). Non-trivial: at least one log is in the first batch of two groups"
