package c17

import (
	"context"
	"encoding/json"
	"fmt"
	"sync"
	"testing"

	"pgregory.net/rapid"

	ct "github.com/google/certificate-transparency-go"
	"github.com/google/certificate-transparency-go/ctpolicy"
	"github.com/google/certificate-transparency-go/submission"
	"github.com/google/certificate-transparency-go/x509"

	"verif/internal/harness"
	"verif/internal/vt"
)

// ---------------------------------------------------------------------------------------------
// Entry level 1: submission.GetSCTs with a scripted Submitter and groups from ctpolicy.

// Sub1 is one caller of GetSCTs.
type Sub1 struct {
	StartMs    int
	Beh        []Beh   // per log
	Perm       [][]int // submission order per group: [0] Google-operated, [1] Non-Google-operated, [2] All-logs
	DeadlineMs int     // 0: none
	CancelMs   int     // 0: the caller never cancels
	Pre        bool
}

type Case1 struct {
	List   ListSpec
	Policy int
	Life   Lifetime
	Subs   []Sub1
}

// genListShape draws operators and logs. total is the number of SCTs the policy will ask for: most
// lists are large and mixed enough to satisfy it, a few are not.
func genListShape(t *rapid.T, total int) ListSpec {
	var ls ListSpec
	nops := rapid.IntRange(2, 4).Draw(t, "nops")
	for i := 0; i < nops; i++ {
		ls.Google = append(ls.Google, rapid.Bool().Draw(t, "google"))
	}
	tight := rapid.SampledFrom([]int{0, 0, 0, 0, 0, 0, 0, 1, 1, 2}).Draw(t, "tight") // 0 roomy, 1 exact, 2 anything
	nmin := 2
	switch tight {
	case 0:
		nmin = total + 1
	case 1:
		nmin = total
	}
	if nmin < 2 {
		nmin = 2
	}
	n := rapid.IntRange(nmin, 10).Draw(t, "nlogs")
	if tight == 1 {
		n = nmin
	}
	for i := 0; i < n; i++ {
		ls.Logs = append(ls.Logs, LogSpec{Op: rapid.IntRange(0, nops-1).Draw(t, "op")})
	}
	if tight < 2 {
		// both kinds of operator are present and in use
		ls.Google[0], ls.Google[1] = true, false
		a := rapid.IntRange(0, n-1).Draw(t, "glog")
		b := (a + 1 + rapid.IntRange(0, n-2).Draw(t, "nglog")) % n
		ls.Logs[a].Op, ls.Logs[b].Op = 0, 1
	}
	return ls
}

func genLifetime(t *rapid.T) Lifetime {
	l := Lifetime{NBMonth: rapid.IntRange(0, 23).Draw(t, "nbmonth"), NBDay: rapid.IntRange(1, 28).Draw(t, "nbday")}
	if rapid.IntRange(0, 4).Draw(t, "lifekind") > 0 {
		l.Months = rapid.SampledFrom([]int{15, 27, 39}).Draw(t, "step") + rapid.IntRange(-1, 1).Draw(t, "stepoff")
	} else {
		l.Months = rapid.IntRange(1, 60).Draw(t, "months")
	}
	l.Days = rapid.SampledFrom([]int{0, 0, -1, 1, 10}).Draw(t, "days")
	// independent times of day: the policy counts calendar dates, so "15 months to the day, but a
	// second earlier in the day" is still 15 months
	tod := []int{0, 0, 1, 43199, 43200, 86399}
	l.NBSec = rapid.SampledFrom(tod).Draw(t, "nbsec")
	l.NASec = rapid.SampledFrom(tod).Draw(t, "nasec")
	if rapid.IntRange(0, 3).Draw(t, "todfree") == 0 {
		l.NBSec = rapid.IntRange(0, 86399).Draw(t, "nbsecfree")
		l.NASec = rapid.IntRange(0, 86399).Draw(t, "nasecfree")
	}
	// "27 months and a day" / "39 months and a day": the published Chrome text ("> 27 months") and a
	// whole-month reading disagree there and the statement does not settle it: stay out.
	if m, partial := wholeMonths(l.NotBefore(), l.NotAfter()); partial && (m == 27 || m == 39) {
		l.Days = 0
	}
	return l
}

var delayBuckets = [][2]int{{0, 0}, {1, 60}, {400, 600}, {950, 1050}, {1950, 2050}, {2900, 3100}, {4000, 9000}, {maxDelay, maxDelay}}

func genBeh(t *rapid.T) Beh {
	b := Beh{Kind: rapid.SampledFrom([]int{behSCT, behSCT, behSCT, behSCT, behSCT, behSCT, behSCT, behSCT, behSCT, behErr, behErr, behErr, behGarbled, behGarbled, behHang, behStuck}).Draw(t, "kind")}
	if b.Kind != behHang && b.Kind != behStuck {
		bk := delayBuckets[rapid.IntRange(0, len(delayBuckets)-1).Draw(t, "bucket")]
		b.DelayMs = rapid.IntRange(bk[0], bk[1]).Draw(t, "delay")
	}
	if b.Kind == behSCT {
		// the log's clock relative to ours when it stamps the SCT: exact, behind, or ahead
		b.SkewS = rapid.SampledFrom([]int{0, 0, 0, 0, -3600, -301, -1, 1, 299, 301, 900, 3600}).Draw(t, "skew")
	}
	return b
}

func genCtxLimits(t *rapid.T) (deadline, cancel int) {
	switch rapid.SampledFrom([]int{0, 0, 0, 0, 0, 0, 1, 1, 2, 3}).Draw(t, "ctxkind") {
	case 1:
		deadline = rapid.IntRange(1, 15000).Draw(t, "deadline")
	case 2:
		deadline = rapid.IntRange(45000, 60000).Draw(t, "deadline")
	case 3:
		cancel = rapid.IntRange(1, 15000).Draw(t, "cancel")
	}
	return
}

func genPerm(t *rapid.T, n int, label string) []int {
	return rapid.Permutation(seq(n)).Draw(t, label)
}

func seq(n int) []int {
	s := make([]int, n)
	for i := range s {
		s[i] = i
	}
	return s
}

func genCase1(t *rapid.T) Case1 {
	c := Case1{Policy: rapid.SampledFrom([]int{polChrome, polChrome, polApple}).Draw(t, "policy"), Life: genLifetime(t)}
	c.List = genListShape(t, requiredTotal(c.Life))
	n := len(c.List.Logs)
	nsub := rapid.SampledFrom([]int{1, 1, 1, 2, 3}).Draw(t, "nsub")
	for s := 0; s < nsub; s++ {
		sub := Sub1{StartMs: rapid.SampledFrom([]int{0, 0, 1, 500, 1000}).Draw(t, "start"), Pre: rapid.Bool().Draw(t, "pre")}
		for i := 0; i < n; i++ {
			sub.Beh = append(sub.Beh, genBeh(t))
		}
		for g := 0; g < 3; g++ {
			sub.Perm = append(sub.Perm, genPerm(t, n, "perm"))
		}
		sub.DeadlineMs, sub.CancelMs = genCtxLimits(t)
		c.Subs = append(c.Subs, sub)
	}
	return c
}

// Out1 is the observation of one case.
type Out1 struct {
	TimedOut bool
	Subs     []SubOut
	Calls    []Call
}

var groupNames = []string{"Google-operated", "Non-Google-operated", ctpolicy.BaseName}

func policyObj(p int) ctpolicy.CTPolicy {
	if p == polApple {
		return ctpolicy.AppleCTPolicy{}
	}
	return ctpolicy.ChromeCTPolicy{}
}

// steer applies the drawn submission order of each group through the public weight API.
func steer(groups ctpolicy.LogPolicyData, ls ListSpec, perm [][]int) error {
	for gi, name := range groupNames {
		g := groups[name]
		if g == nil {
			continue
		}
		w := orderWeights(perm[gi], func(i int) bool { return g.LogURLs[logURL(i)] })
		if err := g.SetLogWeights(w); err != nil {
			return err
		}
	}
	return nil
}

func collect(scts []*submission.AssignedSCT) []SCTOut {
	var out []SCTOut
	for _, a := range scts {
		if a == nil {
			out = append(out, SCTOut{Nil: true})
			continue
		}
		o := SCTOut{URL: a.LogURL, Nil: a.SCT == nil}
		if a.SCT != nil {
			o.Stamp = stampOf(a.SCT)
		}
		out = append(out, o)
	}
	return out
}

// callerCtx builds the caller's context of one submission: optional deadline, optional cancellation at
// a scripted instant. stop releases everything at the end of the case.
func callerCtx(parent context.Context, deadlineMs, cancelMs int) (context.Context, context.CancelFunc) {
	ctx, cancel := context.WithCancel(parent)
	if deadlineMs > 0 {
		var c2 context.CancelFunc
		ctx, c2 = context.WithTimeout(ctx, ms(deadlineMs))
		_ = c2 // released through the parent
	}
	if cancelMs > 0 {
		go func() {
			if vt.Sleep(ctx, ms(cancelMs)) {
				cancel()
			}
		}()
	}
	return ctx, cancel
}

// run1 executes the case in a bubble and hands the observation to emit from inside the bubble (see
// child.go: nothing after the bubble runs once the race detector has reported).
func run1(t *testing.T, c Case1, emit func(Out1)) {
	out := Out1{Subs: make([]SubOut, len(c.Subs))}
	tr := &trace{}
	vt.Run(t, watchdog, func(ctx context.Context) {
		tr.start(ctx)
		defer tr.finish()
		all, release := context.WithCancel(ctx)
		defer release()
		ll := buildList(c.List, c.Life.NotAfter(), nil)
		cert := &x509.Certificate{NotBefore: c.Life.NotBefore(), NotAfter: c.Life.NotAfter()}
		var wg sync.WaitGroup
		for si := range c.Subs {
			wg.Add(1)
			go func(si int) {
				defer wg.Done()
				s := c.Subs[si]
				o := &out.Subs[si]
				if !vt.Sleep(all, ms(s.StartMs)) {
					return
				}
				groups, err := policyObj(c.Policy).LogsByGroup(cert, ll)
				o.Started = true
				o.Start = tr.now()
				if err != nil {
					o.SetupErr, o.Returned, o.Return = err.Error(), true, tr.now()
					return
				}
				if err := steer(groups, c.List, s.Perm); err != nil {
					o.SetupErr, o.Returned, o.Return = "weights: "+err.Error(), true, tr.now()
					return
				}
				cctx, _ := callerCtx(all, s.DeadlineMs, s.CancelMs)
				sm := &scriptedSubmitter{tr: tr, sub: si, beh: s.Beh}
				scts, err := submission.GetSCTs(cctx, sm, []ct.ASN1Cert{{Data: []byte{byte(si)}}}, s.Pre, groups)
				o.Return = tr.now()
				o.Returned = true
				o.CtxEnded = cctx.Err() != nil
				o.Released = ctx.Err() != nil
				if err != nil {
					o.Err = err.Error()
				}
				o.SCTs = collect(scts)
			}(si)
		}
		wg.Wait()
		out.TimedOut = ctx.Err() != nil
		vt.Sleep(ctx, settle)
		release()
		out.Calls = tr.snapshot()
		emit(out)
	})
}

func allTrue(n int) []bool {
	b := make([]bool, n)
	for i := range b {
		b[i] = true
	}
	return b
}

func check1(t *testing.T, c Case1) harness.Verdict {
	var v harness.Verdict
	races0 := raceErrors()
	var out Out1
	completed := guarded(func() { run1(t, c, func(o Out1) { out = o }) })
	if !inProcessRaces(&v, "race-getscts", races0, completed) {
		v.NonTrivial = true
		return v
	}
	judge1(&v, c, out)
	return v
}

// check1iso is check1 with the case executed in a child process: used for the regression cases, which
// are replayed before the harness starts persisting cases, so that a case that kills the process (a
// panic in a goroutine of the code under test) is still attributed.
func check1iso(t *testing.T, c Case1) harness.Verdict {
	var v harness.Verdict
	res, err := runChild(t, "getscts", c, nil)
	if err != nil {
		v.Failf("harness-child", "%v", err)
		return v
	}
	judgeRaces(&v, res)
	var out Out1
	if res.Obs == nil {
		return v
	}
	if err := json.Unmarshal(res.Obs, &out); err != nil {
		v.Failf("harness-child", "cannot decode the child's observation: %v", err)
		return v
	}
	judge1(&v, c, out)
	return v
}

func init() {
	childRunners["getscts"] = func(t *testing.T, raw, _ json.RawMessage, emit func(any)) error {
		var c Case1
		if err := json.Unmarshal(raw, &c); err != nil {
			return err
		}
		run1(t, c, func(o Out1) { emit(o) })
		return nil
	}
}

func judge1(vp *harness.Verdict, c Case1, out Out1) {
	v := *vp
	defer func() { *vp = v }()
	nd := policyNeed(c.Policy, c.Life)
	n := len(c.List.Logs)
	v.Class(fmt.Sprintf("policy:%s", map[int]string{polChrome: "chrome", polApple: "apple"}[c.Policy]), fmt.Sprintf("total:%d", nd.Total), fmt.Sprintf("subs:%d", len(c.Subs)))
	listOK := nd.satisfies(c.List, seq(n))
	v.Class(lifetimeClass(c.Life)...)
	v.Class(fmt.Sprintf("list-satisfiable:%v", listOK))
	anyBad := false
	for si, s := range c.Subs {
		for _, b := range s.Beh {
			if b.Kind != behSCT {
				anyBad = true
			}
		}
		if s.DeadlineMs > 0 {
			v.Class("ctx:deadline")
		}
		if s.CancelMs > 0 {
			v.Class("ctx:cancel")
		}
		if out.Subs[si].SetupErr != "" && listOK {
			v.Failf("policy-refused-satisfiable-list", "sub %d: the list satisfies %+v but LogsByGroup said: %s", si, nd, out.Subs[si].SetupErr)
		}
		judgeSub(&v, subView{Idx: si, Out: out.Subs[si], Calls: callsOf(out.Calls, si), Beh: s.Beh, Eligible: allTrue(n), Certain: allTrue(n),
			DeadlineMs: s.DeadlineMs, CancelMs: s.CancelMs, List: c.List, Need: nd, Level: "GetSCTs"})
		// observed order versus drawn order (weights only make the drawn order very likely)
	}
	if anyBad {
		v.Class("has-failing-or-hanging-log")
	}
	v.NonTrivial = listOK && (anyBad || c.Policy == polChrome || len(c.Subs) > 1)
}

// GetSCTsIsolated only serves regression replays (no generated cases of its own).
var GetSCTsIsolated = harness.Define(harness.Opts{Name: "getscts-isolated", Rule: "regression cases of getscts, each executed in a child process", Quick: 0, Thorough: 0}, genCase1, check1iso)

var GetSCTs = harness.Define(harness.Opts{Name: "getscts", Rule: ruleGetSCTs, Quick: 1500, Thorough: 15000, Crashy: true}, genCase1, check1)

const ruleGetSCTs = "submission.GetSCTs in a synctest bubble (-race): 2-10 logs over 2-4 operators (Google / other), Chrome or Apple groups from ctpolicy.LogsByGroup for a lifetime around the 15/27/39-month steps, per-group submission order steered by weights, per-log behaviour SCT / error after 0-30 s or hang, caller deadline / cancellation, 1-3 concurrent callers. Non-trivial: the list can satisfy the policy and (a log fails or hangs, or groups overlap (Chrome), or callers run concurrently)"
