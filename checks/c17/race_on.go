//go:build race

package c17

import "runtime"

// raceEnabled reports whether the binary was built with the race detector.
const raceEnabled = true

// raceErrors is the number of reports the race detector has produced so far in this process.
func raceErrors() int { return runtime.RaceErrors() }
