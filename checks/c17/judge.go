package c17

import (
	"fmt"
	"sort"
	"strings"
	"time"

	"verif/internal/harness"
)

// watchdog is the virtual-time limit of one case; settle is how long the harness keeps every context
// alive after the last caller returned (to see what in-flight requests would still have delivered).
const (
	watchdog = 3 * time.Hour
	settle   = 50 * time.Second
	maxDelay = 30000 // ms, largest scripted answer latency
)

// subView is everything the oracle knows about one submission.
type subView struct {
	Idx        int
	Out        SubOut
	Calls      []Call // requests of this submission, in arrival order
	Beh        []Beh  // scripted behaviour per log index
	Eligible   []bool // per log: may the log be contacted at all (statement's compatibility clause)
	Certain    []bool // per log: the log is certainly part of the set the code under test works with
	DeadlineMs int    // 0: none (relative to the submission's start)
	CancelMs   int    // 0: none
	List       ListSpec
	Need       need
	Level      string
}

// judgeSub applies the safety, termination and liveness oracles of the statement to one submission.
func judgeSub(v *harness.Verdict, s subView) {
	tag := fmt.Sprintf("%s sub %d", s.Level, s.Idx)
	o := s.Out
	if !o.Started {
		return
	}
	for _, b := range s.Beh {
		if b.Kind == behSCT && b.SkewS > 300 {
			v.Class("sct:stamped-more-than-5min-ahead")
			break
		}
	}

	// --- no log was sent the chain more than once; only eligible logs are contacted -----------------
	perLog := map[int]int{}
	for _, c := range s.Calls {
		perLog[c.Log]++
	}
	for l, n := range perLog {
		if n > 1 {
			v.Failf("double-submission", "%s: log %d received the chain %d times: %s", tag, l, n, fmtCalls(s.Calls))
		}
		if l < 0 || l >= len(s.Eligible) {
			v.Failf("unknown-log-contacted", "%s: a request went to a log outside the list: %s", tag, fmtCalls(s.Calls))
		}
	}

	// --- returned SCTs: distinct logs, each really issued by the log it is attributed to ------------
	var got []int
	seenURL := map[string]bool{}
	for _, a := range o.SCTs {
		if seenURL[a.URL] {
			v.Failf("duplicate-sct-url", "%s: two returned SCTs carry log URL %s", tag, a.URL)
		}
		seenURL[a.URL] = true
		i := logIndex(a.URL)
		if i < 0 || i >= len(s.Beh) {
			v.Failf("sct-unknown-log", "%s: returned SCT names unknown log %q", tag, a.URL)
			continue
		}
		if a.Nil {
			v.Failf("sct-nil", "%s: returned entry for %s has no SCT", tag, a.URL)
			continue
		}
		if a.Stamp != sctStamp(s.Idx, i) {
			v.Failf("sct-misattributed", "%s: SCT returned for log %d carries stamp %#x, the log issued %#x for this submission", tag, i, a.Stamp, sctStamp(s.Idx, i))
			continue
		}
		issued := false
		for _, c := range s.Calls {
			if c.Log == i && c.Out == "sct" {
				issued = true
			}
		}
		if !issued {
			v.Failf("sct-never-issued", "%s: SCT returned for log %d which never answered with one: %s", tag, i, fmtCalls(s.Calls))
			continue
		}
		got = append(got, i)
	}

	// --- success => every policy group is satisfied by the returned set ----------------------------
	if o.Returned && o.Err == "" && o.SetupErr == "" {
		v.Class("outcome:success")
		if !s.Need.satisfies(s.List, got) {
			v.Failf("success-without-policy", "%s: success reported with SCTs from logs %v; the policy needs %+v (google flags %v)", tag, got, s.Need, googleFlags(s.List))
		}
	}

	// --- termination ------------------------------------------------------------------------------
	// "every log answers" is about the logs in play: those that may be contacted and those that were.
	hang := false
	for i, b := range s.Beh {
		if (b.Kind == behHang || b.Kind == behStuck) && (s.Eligible == nil || s.Eligible[i] || perLog[i] > 0) {
			hang = true
		}
	}
	mustEnd := s.DeadlineMs > 0 || s.CancelMs > 0 || !hang
	if o.Released || !o.Returned {
		if mustEnd {
			v.Failf("non-termination", "%s: the call did not return although %s (deadline %d ms, cancel %d ms): %s", tag,
				map[bool]string{true: "the caller has a deadline / cancels", false: "every log answers"}[s.DeadlineMs > 0 || s.CancelMs > 0], s.DeadlineMs, s.CancelMs, fmtCalls(s.Calls))
		} else {
			v.Class("outcome:blocked-by-hanging-log")
		}
		return
	}
	if o.SetupErr != "" {
		v.Class("outcome:refused")
	} else if o.Err != "" {
		v.Class("outcome:failure")
	}

	// --- liveness ----------------------------------------------------------------------------------
	// If the logs that are certainly in play and scripted to answer with an SCT contain a
	// policy-satisfying set, and the caller's context outlives the worst-case schedule (one second of
	// stagger per log plus the slowest answer), success must be reported.
	var good []int
	slowest := 0
	for i, b := range s.Beh {
		if b.Kind == behSCT && s.Certain[i] {
			good = append(good, i)
			if b.DelayMs > slowest {
				slowest = b.DelayMs
			}
		}
	}
	bound := len(s.Beh)*1000 + slowest + 1000
	enough := s.Need.satisfies(s.List, good)
	ctxOK := (s.DeadlineMs == 0 || s.DeadlineMs > bound) && (s.CancelMs == 0 || s.CancelMs > bound)
	switch {
	case !enough:
		v.Class("live:not-enough-good-logs")
	case !ctxOK:
		v.Class("live:deadline-inside-schedule")
	default:
		v.Class("live:success-required")
	}
	if !enough || !ctxOK || (o.Err == "" && o.SetupErr == "") {
		return
	}
	if o.SetupErr != "" {
		v.Failf("policy-refused-satisfiable-list", "%s: good logs %v satisfy %+v but the groups could not be formed: %s", tag, good, s.Need, o.SetupErr)
		return
	}
	// A failure although success was required. Recognise D11 (a group's race ends while the request that
	// decides it is owned by another group's goroutine and still in flight) by its trace. It needs
	// overlapping groups (Chrome), and for every group g the error names:
	//   - every log of g had already been requested at instant X (only then can all goroutines of g's
	//     race have finished), where X is
	//     (a) the instant g's minimum was reached among the SCTs that were returned with the error
	//         (g's race ended before a request owned by another group delivered), or
	//     (b) the instant of the return, with a request to a log of g, scripted to succeed, in flight.
	var named []string
	groups := failedGroups(o.Err)
	startOf := map[int]time.Duration{}
	endSCT := map[int]time.Duration{}
	for _, c := range s.Calls {
		if _, ok := startOf[c.Log]; !ok || c.Start < startOf[c.Log] {
			startOf[c.Log] = c.Start
		}
		if c.Out == "sct" {
			endSCT[c.Log] = c.End
		}
	}
	allRequestedBy := func(g string, x time.Duration) bool {
		for i := range s.Beh {
			if !groupOf(g, s.List, i) || !s.Certain[i] {
				continue
			}
			if st, ok := startOf[i]; !ok || st > x {
				return false
			}
		}
		return true
	}
	for _, g := range groups {
		if s.Need.Google == 0 {
			break // a single group: nobody else can own its requests
		}
		var ends []time.Duration
		for _, i := range got {
			if groupOf(g, s.List, i) {
				ends = append(ends, endSCT[i])
			}
		}
		sort.Slice(ends, func(i, j int) bool { return ends[i] < ends[j] })
		min := map[string]int{"Google-operated": 1, "Non-Google-operated": 1, "All-logs": s.Need.Total}[g]
		if min > 0 && len(ends) >= min {
			if x := ends[min-1]; allRequestedBy(g, x) {
				named = append(named, fmt.Sprintf("%s(reached %d of %d among the returned SCTs at %v, all its logs requested before)", g, len(ends), min, x))
			}
			continue
		}
		if !allRequestedBy(g, o.Return) {
			continue
		}
		for _, c := range s.Calls {
			if c.Log < 0 || c.Log >= len(s.Beh) || !groupOf(g, s.List, c.Log) || s.Beh[c.Log].Kind != behSCT {
				continue
			}
			if c.Start <= o.Return && (c.Out == "open" || c.End >= o.Return) {
				named = append(named, fmt.Sprintf("%s(log %d in flight %v..%s, all its logs requested)", g, c.Log, c.Start, endOf(c)))
				break
			}
		}
	}
	if len(groups) > 0 && len(named) == len(groups) && !o.CtxEnded {
		v.Class("d11:premature-group-failure")
		v.Failf("premature-group-failure", "%s: returned %q at %v with the caller's context alive; good logs %v satisfy %+v; returned SCTs from %v; %s; google flags %v: %s",
			tag, o.Err, o.Return, good, s.Need, got, strings.Join(named, "; "), googleFlags(s.List), fmtCalls(s.Calls))
		return
	}
	v.Failf("liveness-failure", "%s: returned %q at %v (caller's context ended: %v) although good logs %v satisfy %+v and the context outlives the schedule (bound %d ms); returned SCTs from %v; google flags %v: %s",
		tag, o.Err, o.Return, o.CtxEnded, good, s.Need, bound, got, googleFlags(s.List), fmtCalls(s.Calls))
}

func endOf(c Call) string {
	if c.Out == "open" {
		return "never"
	}
	return c.End.String()
}

func googleFlags(ls ListSpec) []bool {
	out := make([]bool, len(ls.Logs))
	for i, l := range ls.Logs {
		out[i] = ls.Google[l.Op]
	}
	return out
}

func fmtCalls(cs []Call) string {
	cp := append([]Call(nil), cs...)
	sort.SliceStable(cp, func(i, j int) bool { return cp[i].Start < cp[j].Start })
	var sb strings.Builder
	sb.WriteString("requests[")
	for i, c := range cp {
		if i > 0 {
			sb.WriteString(" ")
		}
		fmt.Fprintf(&sb, "log%d@%v->%s@%s", c.Log, c.Start, c.Out, endOf(c))
	}
	sb.WriteString("]")
	return sb.String()
}

func callsOf(all []Call, sub int) []Call {
	var out []Call
	for _, c := range all {
		if c.Sub == sub {
			out = append(out, c)
		}
	}
	return out
}
