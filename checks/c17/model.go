// Package c17 checks property C17: multi-log submission returns a policy-satisfying SCT set or says
// it did not (submission.GetSCTs, Distributor, Proxy, ctpolicy group API) under virtual time and the
// race detector.
package c17

import (
	"fmt"
	"math"
	"sort"
	"strings"
	"time"

	"github.com/google/certificate-transparency-go/loglist3"
)

// ---------------------------------------------------------------------------------------------
// Case data shared by the four entry levels. Everything is plain data drawn by rapid.

const (
	polChrome = 0
	polApple  = 1
)

// Log states (LogSpec.State).
const (
	stUsable = iota
	stPending
	stQualified
	stReadOnly
	stRetired
	stRejected
	stUndefined // no state object at all
	nStates
)

var stateNames = []string{"usable", "pending", "qualified", "readonly", "retired", "rejected", "undefined"}

// LogSpec describes one log of a list. Its URL is derived from its index (logURL).
type LogSpec struct {
	Op int // index of the operator that runs the log

	// Distributor / Proxy levels only.
	State   int   // st* constant
	Extra   int   // 0: none; k > 0: the entry carries a second state stanza for state k-1 (malformed list data)
	HasIv   bool  // the log has a temporal interval
	IvStart int64 // interval start, seconds relative to the certificate's NotAfter (<= 0 to contain it)
	IvEnd   int64 // interval limit (exclusive), seconds relative to NotAfter (> 0 to contain it)
	Roots   int   // bit mask over the four world roots the log accepts; -1: get-roots fails (roots unknown)
	RootsMs int   // latency of the get-roots answer
}

// ListSpec is a log list as data.
type ListSpec struct {
	Google []bool // per operator: Google-operated?
	Logs   []LogSpec
}

// Lifetime describes NotBefore / NotAfter of the certificate (UTC, whole seconds). NotBefore lies on a
// day <= 28 so that calendar-month arithmetic is unambiguous; the two times of day are independent.
type Lifetime struct {
	NBMonth int // NotBefore date = 2022-01-01 + NBMonth months + (NBDay-1) days
	NBDay   int // 1..28
	Months  int // NotAfter date = NotBefore date + Months calendar months + Days days
	Days    int
	NBSec   int // NotBefore time of day, seconds after midnight (0..86399)
	NASec   int // NotAfter time of day
}

func (l Lifetime) nbDate() time.Time {
	return time.Date(2022, time.January, 1, 0, 0, 0, 0, time.UTC).AddDate(0, l.NBMonth, l.NBDay-1)
}
func (l Lifetime) naDate() time.Time { return l.nbDate().AddDate(0, l.Months, l.Days) }

func (l Lifetime) NotBefore() time.Time {
	return l.nbDate().Add(time.Duration(l.NBSec) * time.Second)
}
func (l Lifetime) NotAfter() time.Time { return l.naDate().Add(time.Duration(l.NASec) * time.Second) }

// Behaviour kinds of a scripted log for one submission.
const (
	behSCT  = 0 // answers with an SCT after DelayMs
	behErr  = 1 // answers with an error after DelayMs
	behHang = 2 // never answers; returns when its context ends
	behStuck = 3 // never answers and ignores its context; returns only when the case is over
	behGarbled = 4 // answers after DelayMs with HTTP 200 and a body that yields no SCT: client.RspError{StatusCode: 200, Err != nil}
)

type Beh struct {
	Kind    int
	DelayMs int
	SkewS   int // behSCT: the SCT's timestamp is the instant of issue plus SkewS seconds (-3600..3600)
}

func logURL(i int) string { return fmt.Sprintf("https://log%02d.example/ct/", i) }

func logIndex(url string) int {
	var i int
	if _, err := fmt.Sscanf(url, "https://log%02d.example/ct/", &i); err != nil {
		return -1
	}
	return i
}

const googleMail = "google-ct-logs@googlegroups.com"

// stateObj builds the state object of a log entry: one stanza for State and, for the malformed entries
// a log list may carry, a second one for Extra (Extra-1 is the state; 0: none).
func stateObj(l LogSpec) *loglist3.LogStates {
	ts := loglist3.LogState{Timestamp: time.Date(2021, 1, 1, 0, 0, 0, 0, time.UTC)}
	var o *loglist3.LogStates
	set := func(st int) {
		if st < stUsable || st > stRejected {
			return
		}
		if o == nil {
			o = &loglist3.LogStates{}
		}
		switch st {
		case stUsable:
			o.Usable = &ts
		case stPending:
			o.Pending = &ts
		case stQualified:
			o.Qualified = &ts
		case stReadOnly:
			o.ReadOnly = &loglist3.ReadOnlyLogState{LogState: ts}
		case stRetired:
			o.Retired = &ts
		case stRejected:
			o.Rejected = &ts
		}
	}
	set(l.State)
	if l.Extra > 0 {
		set(l.Extra - 1)
	}
	return o
}

// stateRank: the documented precedence by which an entry with several state stanzas resolves to one
// status (pending before qualified before usable before readonly before retired before rejected).
var stateRank = map[int]int{stPending: 0, stQualified: 1, stUsable: 2, stReadOnly: 3, stRetired: 4, stRejected: 5, stUndefined: 9}

// effState is the status of the entry as the statement's "usable" reads it.
func effState(l LogSpec) int {
	st := l.State
	if l.Extra > 0 && (st == stUndefined || stateRank[l.Extra-1] < stateRank[st]) {
		st = l.Extra - 1
	}
	return st
}

// buildList turns the data into the repository's log-list structure. Only the logs whose index is in
// present (nil: all) are included. notAfter anchors the temporal intervals.
func buildList(ls ListSpec, notAfter time.Time, present []bool) *loglist3.LogList {
	ll := &loglist3.LogList{}
	for op, goog := range ls.Google {
		o := &loglist3.Operator{Name: fmt.Sprintf("operator-%d", op), Email: []string{fmt.Sprintf("ops@operator%d.example", op)}}
		if goog {
			o.Email = append(o.Email, googleMail)
		}
		for i, l := range ls.Logs {
			if l.Op != op || (present != nil && !present[i]) {
				continue
			}
			lg := &loglist3.Log{Description: fmt.Sprintf("log %d", i), URL: logURL(i), LogID: []byte{byte(i)}, Key: []byte{byte(i)}, MMD: 86400, State: stateObj(l)}
			if l.HasIv {
				lg.TemporalInterval = &loglist3.TemporalInterval{
					StartInclusive: notAfter.Add(time.Duration(l.IvStart) * time.Second),
					EndExclusive:   notAfter.Add(time.Duration(l.IvEnd) * time.Second),
				}
			}
			o.Logs = append(o.Logs, lg)
		}
		if len(o.Logs) > 0 {
			ll.Operators = append(ll.Operators, o)
		}
	}
	return ll
}

// ---------------------------------------------------------------------------------------------
// The oracle's own reading of the policy (from the property statement and the published policies:
// fewer than 15 whole months -> 2 SCTs, 15..27 -> 3, 28..39 -> 4, more -> 5; Chrome additionally wants
// one Google-operated and one non-Google-operated log).

// wholeMonths counts complete calendar months between the DATES of nb and na - the policy's documented
// arithmetic looks at year, month and day of month only, never at the time of day - and says whether
// days are left over. nb lies on a day <= 28.
func wholeMonths(nb, na time.Time) (months int, partial bool) {
	day := func(t time.Time) time.Time {
		y, m, d := t.UTC().Date()
		return time.Date(y, m, d, 0, 0, 0, 0, time.UTC)
	}
	nb, na = day(nb), day(na)
	k := 0
	for !nb.AddDate(0, k+1, 0).After(na) {
		k++
	}
	return k, nb.AddDate(0, k, 0).Before(na)
}

func requiredTotal(l Lifetime) int {
	m, _ := wholeMonths(l.NotBefore(), l.NotAfter())
	switch {
	case m < 15:
		return 2
	case m <= 27:
		return 3
	case m <= 39:
		return 4
	}
	return 5
}

// need is the policy demand as the oracle understands it.
type need struct {
	Total, Google, NonGoogle int
}

func policyNeed(policy int, l Lifetime) need {
	n := need{Total: requiredTotal(l)}
	if policy == polChrome {
		n.Google, n.NonGoogle = 1, 1
	}
	return n
}

// satisfies reports whether the set of log indices meets the demand.
func (n need) satisfies(ls ListSpec, logs []int) bool {
	seen := map[int]bool{}
	g, ng := 0, 0
	for _, i := range logs {
		if seen[i] {
			continue
		}
		seen[i] = true
		if ls.Google[ls.Logs[i].Op] {
			g++
		} else {
			ng++
		}
	}
	return g+ng >= n.Total && g >= n.Google && ng >= n.NonGoogle
}

// groupMembers names the policy groups the way the repository's error text names them, with the
// member predicate of each (used only to attribute a failure text to logs, never to decide success).
func groupOf(name string, ls ListSpec, i int) bool {
	switch name {
	case "Google-operated":
		return ls.Google[ls.Logs[i].Op]
	case "Non-Google-operated":
		return !ls.Google[ls.Logs[i].Op]
	case "All-logs":
		return true
	}
	return false
}

// failedGroups extracts the group names from "log-group(s) A, B didn't receive enough SCTs".
func failedGroups(errText string) []string {
	const pre, post = "log-group(s) ", " didn't receive enough SCTs"
	a := strings.Index(errText, pre)
	b := strings.Index(errText, post)
	if a < 0 || b < a {
		return nil
	}
	var out []string
	for _, g := range strings.Split(errText[a+len(pre):b], ",") {
		if g = strings.TrimSpace(g); g != "" {
			out = append(out, g)
		}
	}
	sort.Strings(out)
	return out
}

// orderWeights turns a ranking (perm[k] = log index at position k; logs not in members are skipped)
// into weights spaced by 1e4, so that ctpolicy's weighted sampling yields that order almost surely.
func orderWeights(perm []int, member func(int) bool) map[string]float32 {
	var order []int
	for _, i := range perm {
		if member(i) {
			order = append(order, i)
		}
	}
	w := map[string]float32{}
	for pos, i := range order {
		w[logURL(i)] = float32(math.Pow(10, float64(4*(len(order)-1-pos))))
	}
	return w
}

func ms(d int) time.Duration { return time.Duration(d) * time.Millisecond }

// lifetimeClass labels the boundary shapes of a lifetime for the evidence histogram.
func lifetimeClass(l Lifetime) []string {
	var out []string
	m, partial := wholeMonths(l.NotBefore(), l.NotAfter())
	if !partial && (m == 15 || m == 28 || m == 40) {
		out = append(out, "lifetime:exactly-on-a-step")
		if l.NASec < l.NBSec {
			out = append(out, "lifetime:on-a-step-with-earlier-clock-time")
		}
	}
	if l.NBSec != 0 || l.NASec != 0 {
		out = append(out, "lifetime:non-midnight")
	}
	return out
}
