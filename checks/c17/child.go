package c17

import (
	"encoding/json"
	"fmt"
	"os"
	"os/exec"
	"path/filepath"
	"regexp"
	"strings"
	"sync/atomic"
	"testing"

	"verif/internal/harness"
)

// Data races are a clause of the statement, but a report of the race detector condemns the whole test
// process (package testing fails the running test, and the detector prints each racing pair of stacks
// only once per process, which would defeat shrinking and replay). The two sub-properties whose purpose
// is to provoke races (Proxy with refreshes, shared groups with weight changes) therefore execute every
// case in a fresh child process of the same test binary (TestChild below). The child writes what it
// observed to a file; the parent reads that file and the child's stderr, attributes every race report
// to a race site by the functions named in its stacks, and turns it into an ordinary violation with a
// precise signature - which the harness can match against KNOWN_FINDINGS.json, shrink and replay.

const (
	childEnv    = "VERIF_C17_CHILD"     // input file (childIn as JSON)
	childOutEnv = "VERIF_C17_CHILD_OUT" // output file
)

type childIn struct {
	Prop string          `json:"prop"`
	Case json.RawMessage `json:"case"`
	Aux  json.RawMessage `json:"aux,omitempty"` // data derived from the case by the parent (certificates)
}

// childRunners are implemented per sub-property: decode the case, execute it, hand the observation to
// emit from inside the bubble. (synctest.Test calls t.FailNow as soon as the race detector has reported
// anything during the bubble, so code after it would never run in exactly the interesting cases.)
var childRunners = map[string]func(t *testing.T, raw, aux json.RawMessage, emit func(obs any)) error{}

// ChildMain is the body of TestChild.
func ChildMain(t *testing.T) {
	in := os.Getenv(childEnv)
	if in == "" {
		t.Skip("helper for the race sub-properties; runs only as a child process")
	}
	harness.SilenceKlog()
	b, err := os.ReadFile(in)
	if err != nil {
		t.Fatalf("child: %v", err)
	}
	var ci childIn
	if err := json.Unmarshal(b, &ci); err != nil {
		t.Fatalf("child: %v", err)
	}
	run := childRunners[ci.Prop]
	if run == nil {
		t.Fatalf("child: unknown prop %q", ci.Prop)
	}
	emit := func(obs any) {
		ob, err := json.Marshal(struct {
			Races int `json:"races"`
			Obs   any `json:"obs"`
		}{raceErrors(), obs})
		if err != nil {
			t.Errorf("child: %v", err)
			return
		}
		if err := os.WriteFile(os.Getenv(childOutEnv), ob, 0o644); err != nil {
			t.Errorf("child: %v", err)
		}
	}
	if err := run(t, ci.Case, ci.Aux, emit); err != nil {
		t.Fatalf("child: %v", err)
	}
}

// childResult is what the parent learns from one child.
type childResult struct {
	Obs      json.RawMessage
	Races    int      // reports counted by the child's race runtime
	Reports  []string // the individual "WARNING: DATA RACE" blocks from its stderr
	Fatal    string   // runtime fatal error / panic text when the child died ("" otherwise)
	Log      string   // tail of the child's output (diagnostics)
	TimedOut bool
}

var childSeq atomic.Int64

var raceBlock = regexp.MustCompile(`(?s)WARNING: DATA RACE.*?\n==================`)

// runChild executes one case of prop in a fresh process. A child that dies with SIGSEGV (the go1.26.8
// synctest / race-detector crash described in props_test.go, possible in the child because it runs with
// several Ps) says nothing about the case: it is repeated.
func runChild(t *testing.T, prop string, c any, aux any) (childResult, error) {
	var res childResult
	var err error
	for attempt := 0; attempt < 4; attempt++ {
		res, err = runChildOnce(t, prop, c, aux)
		if !strings.Contains(res.Fatal+res.Log, "SIGSEGV: segmentation violation") || res.Obs != nil {
			break
		}
	}
	return res, err
}

func runChildOnce(t *testing.T, prop string, c any, aux any) (childResult, error) {
	var res childResult
	raw, err := json.Marshal(c)
	if err != nil {
		return res, err
	}
	dir := os.Getenv("VERIF_OUT")
	if dir == "" {
		dir = filepath.Join(os.TempDir(), "verif-out-C17")
	}
	os.MkdirAll(dir, 0o755)
	base := filepath.Join(dir, fmt.Sprintf("child-%d-%d", os.Getpid(), childSeq.Add(1)))
	inPath, outPath := base+".in.json", base+".out.json"
	if os.Getenv("VERIF_C17_KEEP") == "" {
		defer os.Remove(inPath)
		defer os.Remove(outPath)
	}
	var auxRaw json.RawMessage
	if aux != nil {
		if auxRaw, err = json.Marshal(aux); err != nil {
			return res, err
		}
	}
	ib, _ := json.Marshal(childIn{Prop: prop, Case: raw, Aux: auxRaw})
	if err := os.WriteFile(inPath, ib, 0o644); err != nil {
		return res, err
	}
	cmd := exec.Command(os.Args[0], "-test.run", "^TestChild$", "-test.timeout", "120s", "-test.count=1")
	cmd.Env = append(os.Environ(), childEnv+"="+inPath, childOutEnv+"="+outPath, "GORACE=halt_on_error=0 history_size=3 atexit_sleep_ms=0", "VERIF_REPLAY=")
	// The child's output goes to a file and the parent waits synchronously: no helper goroutines and no
	// real-time timers in the parent (the child limits itself through -test.timeout).
	logPath := base + ".log"
	lf, err := os.Create(logPath)
	if err != nil {
		return res, err
	}
	if os.Getenv("VERIF_C17_KEEP") == "" {
		defer os.Remove(logPath)
	}
	cmd.Stdout, cmd.Stderr = lf, lf
	runErr := cmd.Run()
	lf.Close()
	tb, _ := os.ReadFile(logPath)
	text := string(tb)
	if runErr != nil && strings.Contains(text, "panic: test timed out after") {
		res.TimedOut = true
	}
	res.Log = text
	if len(res.Log) > 6000 {
		res.Log = res.Log[len(res.Log)-6000:]
	}
	res.Reports = raceBlock.FindAllString(text, -1)
	ob, err := os.ReadFile(outPath)
	if err != nil {
		// the child died before it could report
		if i := strings.Index(text, "SIGSEGV: segmentation violation"); i >= 0 {
			res.Fatal = text[i:]
		} else if i := strings.Index(text, "fatal error: "); i >= 0 {
			res.Fatal = text[i:]
		} else if i := strings.Index(text, "panic: "); i >= 0 {
			res.Fatal = text[i:]
		} else {
			return res, fmt.Errorf("child produced no observation: %s", res.Log)
		}
		if len(res.Fatal) > 5000 {
			res.Fatal = res.Fatal[:5000]
		}
		return res, nil
	}
	var o struct {
		Races int             `json:"races"`
		Obs   json.RawMessage `json:"obs"`
	}
	if err := json.Unmarshal(ob, &o); err != nil {
		return res, err
	}
	res.Obs, res.Races = o.Obs, o.Races
	return res, nil
}

// raceSite attributes one race report (or fatal "concurrent map" crash) to a root cause by the
// functions on the stacks of the two conflicting accesses (the "created at" stacks are not considered).
func raceSite(report string) string {
	acc := report
	if i := strings.Index(report, "\nGoroutine "); i >= 0 {
		acc = report[:i]
	}
	has := func(s string) bool { return strings.Contains(acc, s) }
	switch {
	case has("ctpolicy.(*LogGroupInfo).GetSubmissionSession") || has("ctpolicy.(*LogGroupInfo).SetLogWeight"):
		// SetLogWeight / SetLogWeights / GetSubmissionSession touching LogWeights
		return "race-ctpolicy-weights"
	case has("submission.(*Proxy).restartDistributor()") || has("submission.(*LogListManager).refreshLogListAndNotify()"):
		// One access is the installation of a new distributor (or the construction of the list / the
		// distributor just before it): the conflicting access is either the unsynchronised read of
		// Proxy.dist in AddChain / AddPreChain itself or - same root cause - a read of data reached
		// through that unsynchronised pointer by a submission or one of its goroutines.
		return "race-proxy-dist"
	case has("certificate-transparency-go/submission.") || has("certificate-transparency-go/ctpolicy.") || has("certificate-transparency-go/loglist3."):
		return "race-other-in-scope"
	case has("certificate-transparency-go/"):
		return "race-other-repository"
	}
	return "race-harness"
}

// judgeRaces turns the child's race evidence into violations.
func judgeRaces(v *harness.Verdict, res childResult) {
	seen := map[string]bool{}
	for _, r := range res.Reports {
		site := raceSite(r)
		if seen[site] {
			continue
		}
		seen[site] = true
		if len(r) > 3500 {
			r = r[:3500] + "\n...(truncated)"
		}
		v.Failf(site, "the race detector reported a data race:\n%s", r)
	}
	if res.Races > 0 && len(res.Reports) == 0 {
		v.Failf("race-unparsed", "the child's race runtime counted %d report(s) but none could be parsed from its output:\n%s", res.Races, res.Log)
	}
	if res.Fatal != "" {
		site := "child-crash"
		if strings.Contains(res.Fatal, "concurrent map") {
			site = raceSite(res.Fatal)
		}
		v.Failf(site, "the process died: %s", res.Fatal)
	}
}
