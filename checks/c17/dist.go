package c17

import (
	"context"
	"encoding/json"
	"crypto/sha256"
	"fmt"
	"math/big"
	"sync"
	"testing"
	"time"

	"pgregory.net/rapid"

	ct "github.com/google/certificate-transparency-go"
	"github.com/google/certificate-transparency-go/client"
	"github.com/google/certificate-transparency-go/loglist3"
	"github.com/google/certificate-transparency-go/submission"

	"verif/internal/harness"
	"verif/internal/keys"
	"verif/internal/pki"
	"verif/internal/vt"
	"verif/internal/world"
)

// ---------------------------------------------------------------------------------------------
// Entry level 2: Distributor.AddChain / AddPreChain with a scripted LogClientBuilder and pki chains.

// ChainSpec17 describes the submitted chains of a case: every submission uses its own leaf (serial =
// submission index) under the same root, with the same validity.
type ChainSpec17 struct {
	Root        int  // world root index 0..3
	Inter       bool // an intermediate CA between root and leaf
	IncludeRoot bool // the root is part of the submitted chain
}

type Sub2 struct {
	StartMs    int
	Beh        []Beh
	DeadlineMs int
	CancelMs   int
	Pre        bool
}

type Case2 struct {
	List        ListSpec
	Policy      int
	Life        Lifetime
	Chain       ChainSpec17
	Subs        []Sub2
	InitRefresh bool  // RefreshRoots completes before the first submission starts
	RefreshAtMs []int // further RefreshRoots calls at these instants (concurrent with submissions)
	NoRootCheck bool  // DisableRootCompatibilityCheckingDistributorOption
}

// --- chains -----------------------------------------------------------------------------------

type builtChain struct {
	submit [][]byte
	leaf   [32]byte
}

var (
	chainMu    sync.Mutex
	chainCache = map[string]*builtChain{}
	interCache = map[int]*pki.Cert{}
)

func buildChain(cs ChainSpec17, life Lifetime, pre bool, id int) *builtChain {
	key := fmt.Sprintf("%+v|%+v|%v|%d", cs, life, pre, id)
	chainMu.Lock()
	defer chainMu.Unlock()
	if b, ok := chainCache[key]; ok {
		return b
	}
	root := world.Roots()[cs.Root%4]
	issuer := root
	path := []*pki.Cert{}
	if cs.Inter {
		ic, ok := interCache[cs.Root%4]
		if !ok {
			k := keys.Pick("p256", 3+cs.Root%4)
			ic = pki.Issue(root, pki.CATemplate(fmt.Sprintf("C17 CA %d", cs.Root%4), k, int64(1700+cs.Root%4), pki.KeyID(root.Key)), "c17-inter")
			interCache[cs.Root%4] = ic
		}
		issuer = ic
		path = append(path, ic)
	}
	lk := keys.Pick("p256", 8+id)
	cn := fmt.Sprintf("c17-leaf-%d", id)
	tpl := pki.LeafTemplate(cn, lk, 0, pki.KeyID(issuer.Key))
	tpl.Serial = big.NewInt(int64(170000 + id))
	tpl.NotBefore, tpl.NotAfter = life.NotBefore(), life.NotAfter()
	if pre {
		tpl.Exts = append(tpl.Exts, pki.Poison())
	}
	leaf := pki.Issue(issuer, tpl, cn)
	b := &builtChain{leaf: sha256.Sum256(leaf.DER)}
	b.submit = append(b.submit, leaf.DER)
	for _, c := range path {
		b.submit = append(b.submit, c.DER)
	}
	if cs.IncludeRoot {
		b.submit = append(b.submit, root.DER)
	}
	if len(chainCache) > 4000 {
		chainCache = map[string]*builtChain{}
	}
	chainCache[key] = b
	return b
}

// --- scripted log client ----------------------------------------------------------------------

// RootsCall is one get-roots request seen by a scripted log.
type RootsCall struct {
	Log, Ver   int
	Start, End time.Duration
	OK         bool
}

// Aux carries the certificates of a case (built by the parent process from the committed key pool, so
// that a child process need not load the pool).
type Aux struct {
	Roots  [][]byte   // DER of the four world roots
	Chains [][][]byte // per submission: the chain as submitted
}

func buildAux(cs ChainSpec17, life Lifetime, pres []bool) Aux {
	var a Aux
	for _, r := range world.Roots() {
		a.Roots = append(a.Roots, r.DER)
	}
	for si, pre := range pres {
		a.Chains = append(a.Chains, buildChain(cs, life, pre, si).submit)
	}
	return a
}

type fakeWorld struct {
	tr      *trace
	list    ListSpec
	rootDER [][]byte
	rootsOf func(log int) int // optional: the root mask log answers with right now (overrides LogSpec.Roots)
	leafTo map[[32]byte]int // leaf hash -> submission index
	beh    [][]Beh          // [submission][log]

	mu    sync.Mutex
	roots []RootsCall
}

type fakeLogClient struct {
	w   *fakeWorld
	log int
	ver int
}

func (f *fakeLogClient) add(ctx context.Context, chain []ct.ASN1Cert, pre bool) (*ct.SignedCertificateTimestamp, error) {
	sub := -1
	if len(chain) > 0 {
		if s, ok := f.w.leafTo[sha256.Sum256(chain[0].Data)]; ok {
			sub = s
		}
	}
	c := f.w.tr.begin(sub, f.log, pre, f.ver)
	if sub < 0 {
		f.w.tr.end(c, "err")
		return nil, fmt.Errorf("log %d: unknown chain", f.log)
	}
	return serve(ctx, f.w.tr, c, f.w.beh[sub][f.log], sub, f.log)
}

func (f *fakeLogClient) AddChain(ctx context.Context, chain []ct.ASN1Cert) (*ct.SignedCertificateTimestamp, error) {
	return f.add(ctx, chain, false)
}

func (f *fakeLogClient) AddPreChain(ctx context.Context, chain []ct.ASN1Cert) (*ct.SignedCertificateTimestamp, error) {
	return f.add(ctx, chain, true)
}

func (f *fakeLogClient) GetAcceptedRoots(ctx context.Context) ([]ct.ASN1Cert, error) {
	l := f.w.list.Logs[f.log]
	if f.w.rootsOf != nil {
		l.Roots = f.w.rootsOf(f.log) // decided when the request arrives
	}
	start := f.w.tr.now()
	ok := vt.Sleep(ctx, ms(l.RootsMs)) && l.Roots >= 0
	f.w.mu.Lock()
	f.w.roots = append(f.w.roots, RootsCall{Log: f.log, Ver: f.ver, Start: start, End: f.w.tr.now(), OK: ok})
	f.w.mu.Unlock()
	if !ok {
		if err := ctx.Err(); err != nil {
			return nil, err
		}
		return nil, fmt.Errorf("log %d: get-roots unavailable", f.log)
	}
	var out []ct.ASN1Cert
	for r, der := range f.w.rootDER {
		if l.Roots&(1<<r) != 0 {
			out = append(out, ct.ASN1Cert{Data: der})
		}
	}
	return out, nil
}

func newFakeWorld(tr *trace, ls ListSpec, aux Aux) *fakeWorld {
	w := &fakeWorld{tr: tr, list: ls, rootDER: aux.Roots, leafTo: map[[32]byte]int{}}
	for si, ch := range aux.Chains {
		w.leafTo[sha256.Sum256(ch[0])] = si
	}
	return w
}

func (w *fakeWorld) builder(ver int) submission.LogClientBuilder {
	return func(l *loglist3.Log) (client.AddLogClient, error) {
		i := logIndex(l.URL)
		if i < 0 || i >= len(w.list.Logs) {
			return nil, fmt.Errorf("no such log %q", l.URL)
		}
		return &fakeLogClient{w: w, log: i, ver: ver}, nil
	}
}

// rootsAnswer reports whether log i's get-roots answer arrives inside the distributor's 10 s limit.
func rootsAnswer(l LogSpec) bool { return l.Roots >= 0 && l.RootsMs < 10000 }

func hasClient(l LogSpec) bool {
	st := effState(l)
	return st == stUsable || st == stPending || st == stQualified
}

// --- generator --------------------------------------------------------------------------------

// interval shapes relative to NotAfter: {start, limit, contains}
var ivShapes = [][3]int64{
	{-400 * 86400, 400 * 86400, 1},
	{-400 * 86400, 400 * 86400, 1},
	{0, 400 * 86400, 1},  // start == NotAfter: inside
	{-1, 1, 1},           // the narrowest interval around NotAfter
	{-400 * 86400, 1, 1}, // limit one second after
	{-400 * 86400, 0, 0}, // limit == NotAfter: outside
	{1, 400 * 86400, 0},  // starts one second later
	{-400 * 86400, -1, 0},
	{86400, 400 * 86400, 0},
}

// stanzaClasses labels lists with two-stanza entries for the evidence histogram.
func stanzaClasses(ls ListSpec) []string {
	var out []string
	two, decides := false, false
	for _, l := range ls.Logs {
		if l.Extra > 0 && l.Extra-1 != l.State {
			two = true
			if effState(l) != l.State {
				decides = true
			}
		}
	}
	if two {
		out = append(out, "list:two-stanza-entry")
	}
	if decides {
		out = append(out, "list:second-stanza-takes-precedence")
	}
	return out
}

// genExtraStanza: one entry in eight carries a second state stanza.
func genExtraStanza(t *rapid.T) int {
	if rapid.SampledFrom([]int{0, 0, 0, 0, 0, 0, 0, 1}).Draw(t, "twostanzas") == 0 {
		return 0
	}
	return 1 + rapid.SampledFrom([]int{stUsable, stUsable, stPending, stQualified, stQualified, stReadOnly, stRetired, stRejected}).Draw(t, "extrastate")
}

func genDistList(t *rapid.T, total, root int) ListSpec {
	ls := genListShape(t, total)
	for i := range ls.Logs {
		l := &ls.Logs[i]
		if rapid.IntRange(0, 5).Draw(t, "usable") > 0 {
			l.State = stUsable
		} else {
			l.State = rapid.SampledFrom([]int{stPending, stQualified, stReadOnly, stRetired, stRejected, stUndefined}).Draw(t, "state")
		}
		l.Extra = genExtraStanza(t)
		switch rapid.SampledFrom([]int{0, 0, 1, 1, 1, 2}).Draw(t, "ivkind") {
		case 1: // an interval that contains NotAfter
			sh := ivShapes[rapid.IntRange(0, 4).Draw(t, "ivin")]
			l.HasIv, l.IvStart, l.IvEnd = true, sh[0], sh[1]
		case 2: // one that does not
			sh := ivShapes[rapid.IntRange(5, len(ivShapes)-1).Draw(t, "ivout")]
			l.HasIv, l.IvStart, l.IvEnd = true, sh[0], sh[1]
		}
		switch rapid.SampledFrom([]int{0, 0, 0, 0, 0, 0, 0, 1, 2, 3}).Draw(t, "rootkind") {
		case 0:
			l.Roots = rapid.IntRange(0, 15).Draw(t, "roots") | 1<<root
		case 1:
			l.Roots = rapid.IntRange(0, 15).Draw(t, "roots") &^ (1 << root)
		case 2:
			l.Roots = -1
		case 3:
			l.Roots = rapid.IntRange(0, 15).Draw(t, "roots")
		}
		l.RootsMs = rapid.SampledFrom([]int{0, 0, 0, 7, 2500, 9000, 11000}).Draw(t, "rootsms")
	}
	return ls
}

func genSubs2(t *rapid.T, n int) []Sub2 {
	var subs []Sub2
	nsub := rapid.SampledFrom([]int{1, 1, 2, 3}).Draw(t, "nsub")
	for s := 0; s < nsub; s++ {
		sub := Sub2{StartMs: rapid.SampledFrom([]int{0, 0, 1, 500, 1000, 3000}).Draw(t, "start"), Pre: rapid.Bool().Draw(t, "pre")}
		for i := 0; i < n; i++ {
			sub.Beh = append(sub.Beh, genBeh(t))
		}
		sub.DeadlineMs, sub.CancelMs = genCtxLimits(t)
		subs = append(subs, sub)
	}
	return subs
}

func genCase2(t *rapid.T) Case2 {
	c := Case2{Policy: rapid.SampledFrom([]int{polChrome, polChrome, polApple}).Draw(t, "policy"), Life: genLifetime(t)}
	c.Chain = ChainSpec17{Root: rapid.IntRange(0, 3).Draw(t, "root"), Inter: rapid.Bool().Draw(t, "inter"), IncludeRoot: rapid.Bool().Draw(t, "inclroot")}
	c.List = genDistList(t, requiredTotal(c.Life), c.Chain.Root)
	c.Subs = genSubs2(t, len(c.List.Logs))
	c.InitRefresh = rapid.SampledFrom([]int{1, 1, 1, 1, 0}).Draw(t, "initrefresh") > 0
	nref := rapid.SampledFrom([]int{0, 0, 1, 2, 3}).Draw(t, "nrefresh")
	for i := 0; i < nref; i++ {
		c.RefreshAtMs = append(c.RefreshAtMs, rapid.SampledFrom([]int{260, 770, 1280, 2290, 4310}).Draw(t, "refreshat"))
	}
	c.NoRootCheck = rapid.SampledFrom([]int{0, 0, 0, 0, 0, 0, 0, 0, 0, 0, 0, 1}).Draw(t, "norootcheck") == 1
	return c
}

// --- execution --------------------------------------------------------------------------------

// Span is the execution window of one RefreshRoots call (Ver: list version at the Proxy level).
type Span struct {
	Ver        int
	Start, End time.Duration
}

type Out2 struct {
	TimedOut  bool
	BuildErr  string
	Subs      []SubOut
	Calls     []Call
	Roots     []RootsCall
	Refreshes []Span
}

func distOptions(noRootCheck bool) []submission.DistributorOption {
	if noRootCheck {
		return []submission.DistributorOption{submission.DisableRootCompatibilityCheckingDistributorOption{}}
	}
	return nil
}

func run2(t *testing.T, c Case2, aux Aux, emit func(Out2)) {
	out := Out2{Subs: make([]SubOut, len(c.Subs))}
	tr := &trace{}
	w := newFakeWorld(tr, c.List, aux)
	for _, s := range c.Subs {
		w.beh = append(w.beh, s.Beh)
	}
	chains := aux.Chains
	vt.Run(t, watchdog, func(ctx context.Context) {
		tr.start(ctx)
		defer tr.finish()
		all, release := context.WithCancel(ctx)
		defer release()
		ll := buildList(c.List, c.Life.NotAfter(), nil)
		d, err := submission.NewDistributor(ll, policyObj(c.Policy), w.builder(0), nil, distOptions(c.NoRootCheck)...)
		if err != nil {
			out.BuildErr = err.Error()
			emit(out)
			return
		}
		var mu sync.Mutex
		refresh := func() {
			sp := Span{Start: tr.now()}
			d.RefreshRoots(all)
			sp.End = tr.now()
			mu.Lock()
			out.Refreshes = append(out.Refreshes, sp)
			mu.Unlock()
		}
		if c.InitRefresh {
			refresh()
			vt.Sleep(all, time.Millisecond)
		}
		base := tr.now()
		var wg sync.WaitGroup
		if len(c.RefreshAtMs) > 0 {
			wg.Add(1)
			go func() {
				defer wg.Done()
				for _, at := range c.RefreshAtMs {
					if wait := base + ms(at) - tr.now(); wait > 0 && !vt.Sleep(all, wait) {
						return
					}
					refresh()
				}
			}()
		}
		for si := range c.Subs {
			wg.Add(1)
			go func(si int) {
				defer wg.Done()
				s := c.Subs[si]
				o := &out.Subs[si]
				if !vt.Sleep(all, ms(s.StartMs)) {
					return
				}
				cctx, _ := callerCtx(all, s.DeadlineMs, s.CancelMs)
				o.Started, o.Start = true, tr.now()
				var scts []*submission.AssignedSCT
				var err error
				if s.Pre {
					scts, err = d.AddPreChain(cctx, chains[si], false)
				} else {
					scts, err = d.AddChain(cctx, chains[si], false)
				}
				o.Return, o.Returned = tr.now(), true
				o.CtxEnded = cctx.Err() != nil
				o.Released = ctx.Err() != nil
				if err != nil {
					o.Err = err.Error()
				}
				o.SCTs = collect(scts)
			}(si)
		}
		wg.Wait()
		out.TimedOut = ctx.Err() != nil
		vt.Sleep(ctx, settle)
		release()
		out.Calls = tr.snapshot()
		w.mu.Lock()
		out.Roots = append([]RootsCall(nil), w.roots...)
		w.mu.Unlock()
		mu.Lock()
		emit(out)
		mu.Unlock()
	})
}

func aux2(c Case2) Aux {
	pres := make([]bool, len(c.Subs))
	for si, s := range c.Subs {
		pres[si] = s.Pre
	}
	return buildAux(c.Chain, c.Life, pres)
}

// --- oracle -----------------------------------------------------------------------------------

// inInterval is the statement's temporal clause: start <= NotAfter < limit (offsets are relative to
// NotAfter, so the test is on the signs).
func inInterval(l LogSpec) bool { return !l.HasIv || (l.IvStart <= 0 && 0 < l.IvEnd) }

// eligibility of log l for a chain rooted at root, given whether its accepted roots are known.
func eligible(l LogSpec, root int, known bool) (bool, string) {
	switch {
	case effState(l) != stUsable:
		return false, "contacted-unusable-log"
	case !inInterval(l):
		return false, "contacted-outside-interval"
	case known && l.Roots&(1<<root) == 0:
		return false, "contacted-root-not-accepted"
	}
	return true, ""
}

// fallbackPath recognises the situation in which Distributor.addSomeChain cannot verify the chain
// against the union of the known root sets although root information is incomplete.
func fallbackPath(ls ListSpec, root int, refreshed bool) bool {
	inPool, incomplete := false, false
	for _, l := range ls.Logs {
		if !hasClient(l) {
			continue
		}
		if refreshed && rootsAnswer(l) {
			if l.Roots&(1<<root) != 0 {
				inPool = true
			}
		} else {
			incomplete = true
		}
	}
	return !inPool && incomplete
}

// knowledge says, for a submission starting at instant s, whether a refresh had certainly completed /
// had possibly completed before it.
func knowledge(refreshes []Span, ver int, s time.Duration) (certainly, possibly bool) {
	for _, r := range refreshes {
		if r.Ver != ver {
			continue
		}
		if r.End < s {
			certainly = true
		}
		if r.End <= s {
			possibly = true
		}
	}
	return
}

func check2(t *testing.T, c Case2) harness.Verdict {
	var v harness.Verdict
	races0 := raceErrors()
	var out Out2
	aux := aux2(c)
	completed := guarded(func() { run2(t, c, aux, func(o Out2) { out = o }) })
	if !inProcessRaces(&v, "race-distributor", races0, completed) {
		v.NonTrivial = true
		return v
	}
	return judge2(v, c, out)
}

// check2iso: check2 with the case executed in a child process (regression replays; see check1iso).
func check2iso(t *testing.T, c Case2) harness.Verdict {
	var v harness.Verdict
	res, err := runChild(t, "distributor", c, aux2(c))
	if err != nil {
		v.Failf("harness-child", "%v", err)
		return v
	}
	judgeRaces(&v, res)
	var out Out2
	if res.Obs == nil {
		return v
	}
	if err := json.Unmarshal(res.Obs, &out); err != nil {
		v.Failf("harness-child", "cannot decode the child's observation: %v", err)
		return v
	}
	return judge2(v, c, out)
}

func init() {
	childRunners["distributor"] = func(t *testing.T, raw, auxRaw json.RawMessage, emit func(any)) error {
		var c Case2
		var aux Aux
		if err := json.Unmarshal(raw, &c); err != nil {
			return err
		}
		if err := json.Unmarshal(auxRaw, &aux); err != nil {
			return err
		}
		run2(t, c, aux, func(o Out2) { emit(o) })
		return nil
	}
}

func judge2(v harness.Verdict, c Case2, out Out2) harness.Verdict {
	if out.BuildErr != "" {
		v.Failf("harness-distributor-build", "NewDistributor failed: %s", out.BuildErr)
		return v
	}
	nd := policyNeed(c.Policy, c.Life)
	n := len(c.List.Logs)
	root := c.Chain.Root % 4
	v.Class(fmt.Sprintf("policy:%s", map[int]string{polChrome: "chrome", polApple: "apple"}[c.Policy]), fmt.Sprintf("total:%d", nd.Total), fmt.Sprintf("subs:%d", len(c.Subs)),
		fmt.Sprintf("refreshes:%d", len(out.Refreshes)))
	if c.NoRootCheck {
		v.Class("root-check-disabled")
	}
	v.Class(stanzaClasses(c.List)...)
	v.Class(lifetimeClass(c.Life)...)
	anyBad, anyFiltered := false, false
	for si, s := range c.Subs {
		o := out.Subs[si]
		certainly, possibly := knowledge(out.Refreshes, 0, o.Start)
		if c.NoRootCheck {
			certainly, possibly = false, false
		}
		if certainly != possibly {
			v.Class("roots:refresh-ends-at-submission-start")
		}
		elig, certain := make([]bool, n), make([]bool, n)
		var eligIdx []int
		for i, l := range c.List.Logs {
			// Roots of log i are known once a refresh completed in which the log answered in time.
			knownMin := certainly && rootsAnswer(l) // certainly known
			knownMax := possibly && rootsAnswer(l)  // possibly known
			e1, _ := eligible(l, root, knownMin)
			e2, _ := eligible(l, root, knownMax)
			elig[i], certain[i] = e1 || e2, e1 && e2
			if elig[i] {
				eligIdx = append(eligIdx, i)
			} else {
				anyFiltered = true
			}
			if s.Beh[i].Kind != behSCT && elig[i] {
				anyBad = true
			}
		}
		for _, call := range callsOf(out.Calls, si) {
			if call.Log < 0 || call.Log >= n || elig[call.Log] {
				continue
			}
			l := c.List.Logs[call.Log]
			_, sig := eligible(l, root, possibly && rootsAnswer(l))
			if sig == "contacted-root-not-accepted" && fallbackPath(c.List, root, possibly) {
				// the chain's root is in no known root set while some log's roots are still unknown:
				// the distributor's "no root info yet" branch, which filters by interval only
				sig = "root-filter-skipped-when-roots-incomplete"
			}
			v.Failf(sig, "Distributor sub %d: log %d was contacted at %v although it is not compatible (state %s, interval %v [%d,%d) s around NotAfter, roots mask %d known=%v, chain root %d; root refreshes %v, submission started %v)",
				si, call.Log, call.Start, stateNames[effState(l)], l.HasIv, l.IvStart, l.IvEnd, l.Roots, possibly && rootsAnswer(l), root, out.Refreshes, o.Start)
		}
		if nd.satisfies(c.List, eligIdx) {
			v.Class("eligible-set-satisfiable:true")
		} else {
			v.Class("eligible-set-satisfiable:false")
		}
		if s.DeadlineMs > 0 {
			v.Class("ctx:deadline")
		}
		if s.CancelMs > 0 {
			v.Class("ctx:cancel")
		}
		if possibly {
			v.Class("roots:refreshed-before-submission")
		} else {
			v.Class("roots:unknown-at-submission")
		}
		judgeSub(&v, subView{Idx: si, Out: o, Calls: callsOf(out.Calls, si), Beh: s.Beh, Eligible: elig, Certain: certain,
			DeadlineMs: s.DeadlineMs, CancelMs: s.CancelMs, List: c.List, Need: nd, Level: "Distributor"})
	}
	for _, call := range out.Calls {
		if call.Sub < 0 {
			v.Failf("unattributed-request", "a log received a chain that belongs to no submission: %+v", call)
		}
	}
	if anyFiltered {
		v.Class("has-incompatible-log")
	}
	if anyBad {
		v.Class("has-failing-or-hanging-log")
	}
	v.NonTrivial = anyBad || anyFiltered || len(c.Subs) > 1 || len(c.RefreshAtMs) > 0
	return v
}

// DistributorIsolated only serves regression replays (no generated cases of its own).
var DistributorIsolated = harness.Define(harness.Opts{Name: "distributor-isolated", Rule: "regression cases of distributor, each executed in a child process", Quick: 0, Thorough: 0}, genCase2, check2iso)

var Distributor = harness.Define(harness.Opts{Name: "distributor", Rule: ruleDistributor, Quick: 500, Thorough: 5000, Crashy: true}, genCase2, check2)

const ruleDistributor = "Distributor.AddChain / AddPreChain in a synctest bubble (-race) with a scripted LogClientBuilder: lists of 2-10 logs with states (usable, pending, qualified, readonly, retired, rejected, none), temporal intervals placed around NotAfter (start == NotAfter, limit == NotAfter, +-1 s), per-log accepted roots (subset of four roots, or get-roots failing / slower than the 10 s limit), chains from the standard PKI (leaf or precertificate, optional intermediate, root included or not), Chrome / Apple policy, lifetime around the 15/27/39-month steps, RefreshRoots before and concurrently with 1-3 submissions, per-log behaviour SCT / error / hang, caller deadline / cancellation. Non-trivial: a compatible log fails or hangs, or a log is filtered out, or submissions / refreshes run concurrently"
