package c06

import (
	"bytes"
	"context"
	"encoding/base64"
	"encoding/json"
	"fmt"
	"testing"
	"time"

	ct "github.com/google/certificate-transparency-go"
	"pgregory.net/rapid"

	"verif/internal/ctfex"
	"verif/internal/harness"
	"verif/internal/keys"
	"verif/internal/mtree"
	"verif/internal/realtrillian"
	"verif/internal/reflog"
	"verif/internal/world"
)

// The cross-check replays a duplicate-free history against two front ends - one on the reference
// backend, one on the real Trillian log server (in-memory storage) - and demands byte-identical read
// responses. It validates internal/reflog + internal/mtree, the trusted part of the other C06 oracles,
// against Trillian's own storage, sequencer and proof code.

func genCross(t *rapid.T) Case {
	c := Case{LogKeyKind: "p256"}
	c.ClockMs = rapid.Int64Range(1600000001000, 4102444800000).Draw(t, "clock")
	ops := genOps(t, rapid.IntRange(5, 40).Draw(t, "n"), "")
	for _, op := range ops {
		if op.Kind != "dup" { // Trillian's memory storage does not de-duplicate
			c.Ops = append(c.Ops, op)
		}
	}
	return c
}

func addBody(chain [][]byte) []byte {
	var req struct {
		Chain []string `json:"chain"`
	}
	for _, c := range chain {
		req.Chain = append(req.Chain, base64.StdEncoding.EncodeToString(c))
	}
	b, _ := json.Marshal(req)
	return b
}

func checkCross(t *testing.T, c Case) (v harness.Verdict) {
	ctx := context.Background()
	logKey := keys.Pick(c.LogKeyKind, 3)
	ref := reflog.New(6962, 1)
	real, err := realtrillian.New(ctx)
	if err != nil {
		t.Fatalf("real trillian: %v", err)
	}
	clock := ctfex.NewClock(time.UnixMilli(c.ClockMs))
	a, err := ctfex.New(ctfex.Opts{LogKey: logKey, Roots: world.Roots(), Backend: ref, Clock: clock})
	if err != nil {
		t.Fatalf("instance: %v", err)
	}
	b, err := ctfex.New(ctfex.Opts{LogKey: logKey, Roots: world.Roots(), Backend: real, Clock: clock, LogID: real.Tree.TreeId})
	if err != nil {
		t.Fatalf("instance: %v", err)
	}
	pending, size := 0, 0
	seen := map[uint32]bool{}
	seenCert := map[string]bool{}
	var hashes [][]byte
	cmp := func(path, q string) {
		ra, rb := a.Get(path, q), b.Get(path, q)
		if ra.Status != rb.Status {
			// status classes may differ in detail for impossible requests; only 200-vs-not matters here
			if (ra.Status == 200) != (rb.Status == 200) {
				v.Failf("crosscheck-status", "%s?%s: reference backend %d, real Trillian %d (%q / %q)", path, q, ra.Status, rb.Status, trunc(ra.Body), trunc(rb.Body))
			}
			return
		}
		if ra.Status == 200 && !bytes.Equal(ra.Body, rb.Body) {
			v.Failf("crosscheck-body", "%s?%s: bodies differ between the reference backend and real Trillian:\n%s\n%s", path, q, trunc(ra.Body), trunc(rb.Body))
		}
		if ra.Status == 200 {
			v.Class("compared:" + path[7:])
		}
	}
	ns := uint64(c.ClockMs)*1e6 + 5
	for _, op := range c.Ops {
		switch op.Kind {
		case "add":
			if seen[op.Spec.ID] {
				continue // identical specs could yield identical (RSA / Ed25519-signed) certificates: a duplicate
			}
			seen[op.Spec.ID] = true
			bt := world.Build(*op.Spec)
			if seenCert[string(bt.Leaf.DER)] {
				continue // the same root submitted on its own again: a duplicate
			}
			seenCert[string(bt.Leaf.DER)] = true
			path := "/ct/v1/add-chain"
			if bt.Spec.Precert {
				path = "/ct/v1/add-pre-chain"
			}
			clock.Add(time.Millisecond)
			body := addBody(bt.Submit)
			ra, rb := a.Post(path, body), b.Post(path, body)
			if ra.Status != 200 || rb.Status != 200 {
				v.Failf("valid-chain-refused", "%s: reference %d, real Trillian %d: %q %q", path, ra.Status, rb.Status, trunc(ra.Body), trunc(rb.Body))
				continue
			}
			var sa, sb ct.AddChainResponse
			json.Unmarshal(ra.Body, &sa)
			json.Unmarshal(rb.Body, &sb)
			if sa.Timestamp != sb.Timestamp || !bytes.Equal(sa.ID, sb.ID) || sa.Extensions != sb.Extensions {
				v.Failf("crosscheck-sct", "SCT fields differ between backends")
			}
			pending++
		case "seq":
			if pending == 0 {
				continue
			}
			k := op.A
			if k <= 0 || k > pending {
				k = pending
			}
			ns += 7654321
			ref.Sequence(k, ns)
			n, err := real.Sequence(ctx, k, time.Unix(0, int64(ns)))
			if err != nil || n != k {
				t.Fatalf("real trillian sequenced %d of %d: %v", n, k, err)
			}
			pending -= k
			for i := size; i < size+k; i++ {
				h := mtree.LeafHash(ref.Leaf(i).LeafValue)
				hashes = append(hashes, h[:])
			}
			size += k
			v.Class("sequenced")
		case "sth":
			ra, rb := a.Get("/ct/v1/get-sth", ""), b.Get("/ct/v1/get-sth", "")
			var x, y ct.GetSTHResponse
			if ra.Status != 200 || rb.Status != 200 || json.Unmarshal(ra.Body, &x) != nil || json.Unmarshal(rb.Body, &y) != nil {
				v.Failf("crosscheck-status", "get-sth: %d / %d", ra.Status, rb.Status)
				continue
			}
			if x.TreeSize != y.TreeSize || !bytes.Equal(x.SHA256RootHash, y.SHA256RootHash) || (size > 0 && x.Timestamp != y.Timestamp) {
				v.Failf("crosscheck-sth", "get-sth differs: reference (size %d ts %d root %x) real Trillian (size %d ts %d root %x)", x.TreeSize, x.Timestamp, x.SHA256RootHash, y.TreeSize, y.Timestamp, y.SHA256RootHash)
			}
			v.Class("compared:get-sth")
		case "cons":
			if size == 0 {
				continue
			}
			second := op.B%size + 1
			first := op.A%second + 1
			cmp("/ct/v1/get-sth-consistency", fmt.Sprintf("first=%d&second=%d", first, second))
		case "proof":
			if size == 0 {
				continue
			}
			ts := op.B%size + 1
			idx := op.A % ts
			cmp("/ct/v1/get-proof-by-hash", "tree_size="+fmt.Sprint(ts)+"&hash="+base64.URLEncoding.EncodeToString(hashes[idx]))
			cmp("/ct/v1/get-proof-by-hash", "tree_size="+fmt.Sprint(ts)+"&hash="+urlQuery(hashes[idx]))
		case "entries":
			if size == 0 {
				continue
			}
			start := op.A % size
			cmp("/ct/v1/get-entries", fmt.Sprintf("start=%d&end=%d", start, start+op.B))
		case "eap":
			if size == 0 {
				continue
			}
			n := op.B%size + 1
			cmp("/ct/v1/get-entry-and-proof", fmt.Sprintf("leaf_index=%d&tree_size=%d", op.A%n, n))
		}
	}
	v.NonTrivial = size >= 2
	return v
}

func urlQuery(h []byte) string {
	s := base64.StdEncoding.EncodeToString(h)
	out := ""
	for _, r := range s {
		switch r {
		case '+':
			out += "%2B"
		case '/':
			out += "%2F"
		case '=':
			out += "%3D"
		default:
			out += string(r)
		}
	}
	return out
}

func trunc(b []byte) string {
	if len(b) > 200 {
		return string(b[:200]) + "..."
	}
	return string(b)
}

var CrossCheck = harness.Define(harness.Opts{
	Name:  "trillian-crosscheck",
	Rule:  "the duplicate-free part of a generated history replayed against two front ends, one on the reference backend and one on the real Trillian log server (in-memory storage, log.IntegrateBatch as sequencer), same clock and root timestamps: SCT fields, STH size / root / timestamp and every read response body (consistency proofs, inclusion proofs by hash, entries, entry-and-proof) must be identical. Non-trivial: >= 2 leaves sequenced",
	Quick: 150, Thorough: 800,
}, genCross, checkCross)
