package c06

import (
	"testing"

	"verif/internal/harness"
)

func TestProps(t *testing.T) { harness.Main(t, "C06", History, Concurrent, CrossCheck) }
