// Package c06: the log front end presents one verifiable, append-only history.
package c06

import (
	"bytes"
	"context"
	"crypto"
	"crypto/ecdsa"
	"crypto/rsa"
	"crypto/sha256"
	"encoding/json"
	"errors"
	"fmt"
	"net/http"
	"net/url"
	"sort"
	"strings"
	"sync"
	"testing"
	"time"

	ct "github.com/google/certificate-transparency-go"
	"github.com/google/certificate-transparency-go/client"
	"github.com/google/certificate-transparency-go/ctutil"
	"github.com/google/certificate-transparency-go/jsonclient"
	"github.com/google/certificate-transparency-go/tls"
	"github.com/google/certificate-transparency-go/trillian/ctfe"
	"github.com/google/certificate-transparency-go/trillian/ctfe/cache"
	"github.com/google/certificate-transparency-go/trillian/ctfe/configpb"
	"github.com/google/certificate-transparency-go/x509"
	"google.golang.org/grpc/codes"
	"google.golang.org/grpc/status"
	"google.golang.org/protobuf/proto"
	"pgregory.net/rapid"

	"verif/internal/ctfex"
	"verif/internal/harness"
	"verif/internal/keys"
	"verif/internal/memstore"
	"verif/internal/mtree"
	"verif/internal/reflog"
	"verif/internal/rfc6962"
	"verif/internal/world"
)

// Op is one step of a history. All indices are reduced modulo what exists at run time.
type Op struct {
	Kind string // add | dup | seq | sth | cons | proof | entries | eap | roots
	Spec *world.ChainSpec
	A, B int
	Flip bool
	// Pad > 0 (reads): the numeric query parameters are spelt in a non-canonical decimal form - 1: one leading
	// zero, 2: zero-padded to 6 digits, 3: a leading plus sign - or the query string as a whole is (4: every
	// value percent-encoded, unknown parameters around; 5: parameters in another order between empty pairs).
	// The log may refuse such a request; when it answers, the answer is judged for the decimal value.
	Pad int
	// Fault > 0 (reads, sequential runs): the backend fails the RPC of this read once with a transient error
	// (1 Unavailable, 2 DeadlineExceeded, 3 ResourceExhausted, 4 Internal, 5 a plain error) - or, for reads of
	// entries from a log with external chain storage, 6 / 7: the chain storage fails its first / second read of
	// the request (plain error / deadline-class error); the read may fail,
	// but may not lie; the same read is then repeated against the recovered backend and judged as always.
	Fault int
}

type Case struct {
	LogKeyKind string
	LogKeyIdx  int // which pool key of that kind: different cases use different log keys within one process
	Ops        []Op
	ClockMs    int64
	Indirect   bool // external issuance-chain storage
	// Preload > 0: the tree already holds that many sequenced entries when the history starts
	Preload int
	// Verbosity is the process-wide klog -v level; QuotaUsers configures the two optional quota-charging
	// callbacks. Neither may change what is logged or served.
	Verbosity  int
	QuotaUsers bool
	// TwinReadonly: the second front end over the same tree (own key) is configured read-only, with
	// TwinMMD seconds of maximum merge delay; it must report the tree as the writable front end grows it
	TwinReadonly bool
	TwinMMD      int
	// TwinStore (external chain storage): a further log with its own backend and its own chain storage, an LRU
	// chain cache of 1-2 entries like the first log's, receives every submission right after the first log
	TwinStore bool
	// BackendMax > 0: the backend returns at most that many leaves per range request (short pages)
	BackendMax int
	// Bulky: some certificates carry 300-450 KiB of padding, so that a few entries exceed a megabyte
	Bulky bool
	// concurrent variant
	Workers int
}

func genOps(t *rapid.T, n int, label string) []Op {
	var ops []Op
	for i := 0; i < n; i++ {
		k := rapid.IntRange(0, 19).Draw(t, label+"kind")
		switch {
		case k <= 4:
			s := world.GenSpecX(t, fmt.Sprintf("%ss%d", label, i))
			// one fresh submission in eight carries a copy of the root whose signature bits were altered: it must
			// either be refused or be stored as submitted
			ops = append(ops, Op{Kind: "add", Spec: &s, Flip: rapid.IntRange(0, 7).Draw(t, "altroot") == 0})
		case k == 5:
			ops = append(ops, Op{Kind: "dup", A: rapid.IntRange(0, 30).Draw(t, "a"), Flip: rapid.Bool().Draw(t, "flip")})
		case k <= 8:
			ops = append(ops, Op{Kind: "seq", A: rapid.IntRange(-1, 4).Draw(t, "k")})
		case k <= 10:
			ops = append(ops, Op{Kind: "sth"})
		case k <= 12:
			// Flip: in a tree of >= 100 entries ask for (a, bcd) with a one-digit first, so that (ab, cd) is a pair too
			ops = append(ops, Op{Kind: "cons", A: rapid.IntRange(0, 200).Draw(t, "a"), B: rapid.IntRange(0, 2000).Draw(t, "b"), Flip: rapid.Bool().Draw(t, "digits")})
		case k <= 14:
			ops = append(ops, Op{Kind: "proof", A: rapid.IntRange(0, 200).Draw(t, "a"), B: rapid.IntRange(0, 200).Draw(t, "b"), Flip: rapid.IntRange(0, 9).Draw(t, "unknown") == 0})
		case k <= 16:
			ops = append(ops, Op{Kind: "entries", A: rapid.IntRange(0, 200).Draw(t, "a"), B: rapid.IntRange(0, 5).Draw(t, "b")})
		case k <= 18:
			ops = append(ops, Op{Kind: "eap", A: rapid.IntRange(0, 200).Draw(t, "a"), B: rapid.IntRange(0, 200).Draw(t, "b")})
		default:
			if rapid.Bool().Draw(t, "clk") {
				// the front end's clock is stepped, backwards as often as forwards (front ends of one log do not share a clock)
				ops = append(ops, Op{Kind: "clock", A: rapid.IntRange(-5000, 5000).Draw(t, "dms")})
			} else if rapid.Bool().Draw(t, "sthfault") {
				// the backend fails the next tree-head request(s) with a transient error: get-sth may fail, it must not lie
				ops = append(ops, Op{Kind: "sthfault", A: rapid.IntRange(0, 5).Draw(t, "code"), B: rapid.IntRange(1, 2).Draw(t, "times")})
			} else {
				ops = append(ops, Op{Kind: "roots"})
			}
		}
		if last := &ops[len(ops)-1]; last.Kind == "cons" || last.Kind == "proof" || last.Kind == "entries" || last.Kind == "eap" {
			if rapid.IntRange(0, 3).Draw(t, "padded") == 0 {
				last.Pad = rapid.IntRange(1, 5).Draw(t, "pad")
			}
			if rapid.IntRange(0, 7).Draw(t, "faulted") == 0 {
				last.Fault = rapid.IntRange(1, 7).Draw(t, "fault")
			}
		}
	}
	return ops
}

func gen(t *rapid.T) Case {
	c := Case{LogKeyKind: rapid.SampledFrom([]string{"p256", "p256", "rsa2048"}).Draw(t, "logkey")}
	c.LogKeyIdx = rapid.IntRange(0, 5).Draw(t, "logkeyidx")
	c.Indirect = rapid.IntRange(0, 3).Draw(t, "indirect") == 0
	c.ClockMs = rapid.Int64Range(1, 4102444800000).Draw(t, "clock")
	c.Ops = genOps(t, rapid.IntRange(5, 40).Draw(t, "n"), "")
	if rapid.IntRange(0, 11).Draw(t, "bulky") == 0 {
		c.Bulky = true
		bulkUp(t, c.Ops)
	}
	if !c.Indirect && rapid.IntRange(0, 3).Draw(t, "preloaded") == 0 {
		c.Preload = rapid.IntRange(8, 130).Draw(t, "preload")
		if rapid.IntRange(0, 2).Draw(t, "bigtree") == 0 {
			c.Preload = rapid.IntRange(131, 1300).Draw(t, "preloadbig")
		}
	}
	genProcessOptions(t, &c)
	if c.Indirect {
		// reads of entries from a log with external chain storage often meet a failing storage read
		for i := range c.Ops {
			if k := c.Ops[i].Kind; (k == "entries" || k == "eap") && rapid.IntRange(0, 2).Draw(t, "storagefault") == 0 {
				c.Ops[i].Fault = rapid.IntRange(6, 7).Draw(t, "sf")
				if k == "entries" && c.Ops[i].B == 0 {
					c.Ops[i].B = 2
				}
			}
		}
	}
	if rapid.IntRange(0, 3).Draw(t, "sameissuer") == 0 {
		// every submission of the history is issued by the same CA (their stored chains are one and the same),
		// and the ranges read are long
		var first *world.ChainSpec
		for i := range c.Ops {
			sp := c.Ops[i].Spec
			if c.Ops[i].Kind == "entries" {
				c.Ops[i].B = 2 + c.Ops[i].B%4
			}
			if c.Ops[i].Kind != "add" || sp.RootOnly {
				continue
			}
			if first == nil {
				first = sp
				continue
			}
			sp.Root, sp.Inters, sp.Cross, sp.CrossAlt, sp.RootTwin = first.Root, first.Inters, first.Cross, first.CrossAlt, first.RootTwin
			if rapid.Bool().Draw(t, "precert") {
				sp.Precert, sp.PreIssuer = true, false
			}
		}
	}
	return c
}

func genProcessOptions(t *rapid.T, c *Case) {
	if rapid.IntRange(0, 2).Draw(t, "verbose") == 0 {
		c.Verbosity = rapid.IntRange(1, 5).Draw(t, "v")
	}
	c.QuotaUsers = rapid.IntRange(0, 2).Draw(t, "quota") == 0
	if rapid.IntRange(0, 2).Draw(t, "shortpages") == 0 {
		c.BackendMax = rapid.IntRange(1, 3).Draw(t, "bmax")
	}
	if rapid.Bool().Draw(t, "twinro") {
		c.TwinReadonly, c.TwinMMD = true, rapid.IntRange(0, 3).Draw(t, "twinmmd")
	}
	c.TwinStore = c.Indirect && rapid.Bool().Draw(t, "twinstore")
}

// bulkUp gives most submissions of a history 300-450 KiB of padding and makes the get-entries ranges long.
func bulkUp(t *rapid.T, ops []Op) {
	for i := range ops {
		switch ops[i].Kind {
		case "add":
			if !ops[i].Spec.RootOnly && rapid.IntRange(0, 3).Draw(t, "bulk") != 0 {
				ops[i].Spec.Bulk = rapid.IntRange(300, 450).Draw(t, "kib") << 10
			}
		case "entries":
			ops[i].B = 3 + ops[i].B%3
		}
	}
}

type issued struct {
	built *world.Built
	sct   *ct.SignedCertificateTimestamp
	chain []ct.ASN1Cert
}

type sthRec struct {
	size uint64
	root [32]byte
	ts   uint64
}

// state shared by the sequential and the concurrent runner.
type run struct {
	t      *testing.T
	v      *harness.Verdict
	mu     sync.Mutex
	be     *reflog.Log
	inst   *ctfex.Instance
	lc     *client.LogClient
	logKey *keys.Key
	clock  *ctfex.Clock
	issued []issued
	sths   []sthRec
	seqNs  uint64
	// wantExtra maps a stored leaf value to the acceptable RFC 6962 extra_data encodings of the entry
	// (needed with external chain storage, where the backend leaf holds a hash instead of the chain)
	wantExtra map[string][][]byte
	indirect  bool
	// lc2 talks to a second log instance with ANOTHER key over the same backend (two logs in one process
	// whose tree heads are byte-identical): each must serve STHs under its own key
	lc2 *client.LogClient
	store *memstore.Store // the first log's chain storage (external chain storage only)
	// be3 / inst3: a further log with its own backend and chain storage (TwinStore)
	be3   *reflog.Log
	inst3 *ctfex.Instance
	// faultySTH: the backend's tree-head RPC is failing right now (sequential runs only)
	faultySTH bool
	// faulty: the backend fails the current read's RPC once (sequential runs only)
	faulty bool
	// parallel: several goroutines call exec at once (the fault hook of the backend is one shared field, so
	// fault injection is off)
	parallel bool
}

func newRun(t *testing.T, v *harness.Verdict, c Case) *run {
	r := &run{t: t, v: v, logKey: keys.Pick(c.LogKeyKind, 3+c.LogKeyIdx), be: reflog.New(6962, 1000003), wantExtra: map[string][][]byte{}, indirect: c.Indirect}
	r.clock = ctfex.NewClock(time.UnixMilli(c.ClockMs))
	r.be.MaxLeavesPerRange = c.BackendMax
	if c.BackendMax > 0 {
		v.Class("backend-short-pages")
	}
	o := ctfex.Opts{LogKey: r.logKey, Roots: world.Roots(), Backend: r.be, Clock: r.clock}
	if c.QuotaUsers {
		o.Inst = func(io *ctfe.InstanceOptions) {
			io.RemoteQuotaUser = func(*http.Request) string { return "remote-user" }
			io.CertificateQuotaUser = func(c *x509.Certificate) string { return "@intermediate " + c.Subject.CommonName }
		}
		v.Class("quota-users-configured")
	}
	if c.Verbosity > 0 {
		v.Class(fmt.Sprintf("klog-v=%d", c.Verbosity))
	}
	if c.Indirect {
		r.store = memstore.New()
		o.ChainStorage = r.store
		v.Class("external-chain-storage")
	}
	inst, err := ctfex.New(o)
	if err != nil {
		t.Fatalf("instance: %v", err)
	}
	r.inst = inst
	lc, err := client.New("http://log.example/log", &http.Client{Transport: padTransport{ctfex.RoundTripper{Inst: inst}}}, jsonclient.Options{PublicKeyDER: r.logKey.SPKI})
	if err != nil {
		t.Fatalf("client: %v", err)
	}
	r.lc = lc
	key2 := keys.Pick("p256", 10+c.LogKeyIdx)
	if key2 == r.logKey {
		key2 = keys.Pick("p256", 11+c.LogKeyIdx)
	}
	twinCfg := func(cfg *configpb.LogConfig) {
		if c.TwinReadonly {
			cfg.IsReadonly, cfg.MaxMergeDelaySec = true, int32(c.TwinMMD)
		}
	}
	if c.TwinReadonly {
		v.Class("second-front-end-read-only")
	}
	if c.Indirect {
		lruSize := 1 + int(c.ClockMs%2)
		lru := func(io *ctfe.InstanceOptions) {
			io.CacheType, io.CacheOption = cache.LRU, cache.Option{Size: lruSize, TTL: time.Hour}
		}
		if c.TwinStore {
			// both logs get the same cache configuration; the first log's instance is rebuilt with it
			o.Inst = func(io *ctfe.InstanceOptions) {
				if c.QuotaUsers {
					io.RemoteQuotaUser = func(*http.Request) string { return "remote-user" }
					io.CertificateQuotaUser = func(c *x509.Certificate) string { return "@intermediate " + c.Subject.CommonName }
				}
				lru(io)
			}
			if inst, err = ctfex.New(o); err != nil {
				t.Fatalf("instance: %v", err)
			}
			r.inst = inst
			if r.lc, err = client.New("http://log.example/log", &http.Client{Transport: padTransport{ctfex.RoundTripper{Inst: inst}}}, jsonclient.Options{PublicKeyDER: r.logKey.SPKI}); err != nil {
				t.Fatalf("client: %v", err)
			}
			r.be3 = reflog.New(7000, 1000003)
			o3 := ctfex.Opts{LogKey: keys.Pick("p256", 12+c.LogKeyIdx), Roots: world.Roots(), Backend: r.be3, Clock: r.clock, Prefix: "other", LogID: 7000, ChainStorage: memstore.New(), Inst: lru}
			if r.inst3, err = ctfex.New(o3); err != nil {
				t.Fatalf("third instance: %v", err)
			}
			v.Class("another-log-with-own-chain-storage")
		}
	}
	if inst2, err := ctfex.New(ctfex.Opts{LogKey: key2, Roots: world.Roots(), Backend: r.be, Clock: r.clock, Prefix: "twin", Cfg: twinCfg}); err == nil {
		r.lc2, _ = client.New("http://log.example/twin", &http.Client{Transport: ctfex.RoundTripper{Inst: inst2}}, jsonclient.Options{PublicKeyDER: key2.SPKI})
	}
	r.seqNs = uint64(c.ClockMs)*1e6 + 999
	if c.Preload > 0 && !c.Indirect {
		for i := 0; i < c.Preload; i++ {
			lv, err := rfc6962.EncodeLeaf(rfc6962.Leaf{Timestamp: uint64(c.ClockMs) - 1, Entry: rfc6962.Entry{Type: rfc6962.X509Entry, Cert: []byte(fmt.Sprintf("earlier entry %d", i))}})
			if err != nil {
				t.Fatalf("preload: %v", err)
			}
			r.be.AppendRaw(lv, []byte{0, 0, 0})
		}
		r.be.Publish(r.seqNs)
		v.Class("tree-preloaded")
	}
	return r
}

type padKey struct{}

// padTransport re-spells the numeric query parameters of a request whose context carries a padding mode.
type padTransport struct{ inner http.RoundTripper }

func (p padTransport) RoundTrip(req *http.Request) (*http.Response, error) {
	mode, _ := req.Context().Value(padKey{}).(int)
	if mode != 0 {
		q := req.URL.Query()
		for k, vs := range q {
			for i, v := range vs {
				if v == "" || strings.Trim(v, "0123456789") != "" {
					continue
				}
				switch mode {
				case 1:
					vs[i] = "0" + v
				case 2:
					vs[i] = fmt.Sprintf("%06s", v)
				case 3:
					vs[i] = "+" + v
				}
			}
			q[k] = vs
		}
		req = req.Clone(req.Context())
		req.URL.RawQuery = q.Encode()
		switch mode {
		case 4:
			// every character of every value percent-encoded, and parameters the endpoint does not know around them
			var parts []string
			for k, vs := range q {
				enc := ""
				for _, c := range []byte(vs[0]) {
					enc += fmt.Sprintf("%%%02X", c)
				}
				parts = append(parts, k+"="+enc)
			}
			sort.Strings(parts)
			req.URL.RawQuery = "zz=9&" + strings.Join(parts, "&") + "&aa=1&tree_sizes=3"
		case 5:
			// the same parameters in the opposite order, separated and followed by empty pairs
			var parts []string
			for k, vs := range q {
				parts = append(parts, url.QueryEscape(k)+"="+url.QueryEscape(vs[0]))
			}
			sort.Sort(sort.Reverse(sort.StringSlice(parts)))
			req.URL.RawQuery = "&" + strings.Join(parts, "&&") + "&"
		}
	}
	return p.inner.RoundTrip(req)
}

func (r *run) failf(sig, f string, a ...any) {
	r.mu.Lock()
	r.v.Failf(sig, f, a...)
	r.mu.Unlock()
}
func (r *run) class(c string) { r.mu.Lock(); r.v.Class(c); r.mu.Unlock() }

// answered records that a request in a non-canonical spelling was served (and judged).
func (r *run) answered(op Op) {
	if op.Pad != 0 {
		r.class(fmt.Sprintf("respelt-request-answered:%d", op.Pad))
	}
}

func asn1Chain(ders [][]byte) []ct.ASN1Cert {
	out := make([]ct.ASN1Cert, len(ders))
	for i, d := range ders {
		out[i] = ct.ASN1Cert{Data: d}
	}
	return out
}

func verifyDS(pub crypto.PublicKey, ds ct.DigitallySigned, msg []byte) error {
	if ds.Algorithm.Hash != tls.SHA256 {
		return fmt.Errorf("hash %v", ds.Algorithm.Hash)
	}
	h := sha256.Sum256(msg)
	switch k := pub.(type) {
	case *ecdsa.PublicKey:
		if ds.Algorithm.Signature != tls.ECDSA || !ecdsa.VerifyASN1(k, h[:], ds.Signature) {
			return fmt.Errorf("ECDSA signature invalid (alg %v)", ds.Algorithm.Signature)
		}
	case *rsa.PublicKey:
		if ds.Algorithm.Signature != tls.RSA {
			return fmt.Errorf("alg %v", ds.Algorithm.Signature)
		}
		return rsa.VerifyPKCS1v15(k, crypto.SHA256, h[:], ds.Signature)
	}
	return nil
}

// exec performs one op. concurrent=true relaxes "current root" comparisons to "some published root".
var rpcOfRead = map[string]string{"cons": "GetConsistencyProof", "proof": "GetInclusionProofByHash", "entries": "GetLeavesByRange", "eap": "GetEntryAndProof"}

func (r *run) exec(ctx context.Context, op Op, concurrent bool) {
	if op.Fault >= 6 && (r.store == nil || (op.Kind != "entries" && op.Kind != "eap")) {
		op.Fault = 1 + op.Fault%5
	}
	if op.Fault >= 6 && !concurrent && !r.parallel {
		_, base := r.store.Calls()
		ferr := []error{errors.New("chain storage: injected"), fmt.Errorf("chain storage: %w", context.DeadlineExceeded)}[op.Fault-6]
		r.store.FailGet = func(n int) error {
			if n == base+(op.Fault-6) {
				return ferr
			}
			return nil
		}
		faulted := op
		faulted.Fault = 0
		r.faulty = true
		r.exec(ctx, faulted, false)
		r.faulty = false
		r.store.FailGet = nil
		r.class("read-under-chain-storage-fault")
		op.Fault = 0
	}
	if rpc := rpcOfRead[op.Kind]; op.Fault > 0 && op.Fault < 6 && rpc != "" && !concurrent && !r.parallel {
		errs := []error{status.Error(codes.Unavailable, "injected"), status.Error(codes.DeadlineExceeded, "injected"), status.Error(codes.ResourceExhausted, "injected"), status.Error(codes.Internal, "injected"), errors.New("injected")}
		fired := false
		r.be.Intercept = func(c reflog.Call) (proto.Message, error, bool) {
			if c.RPC == rpc && !fired {
				fired = true
				return nil, errs[(op.Fault-1)%len(errs)], true
			}
			return nil, nil, false
		}
		faulted := op
		faulted.Fault = 0
		r.faulty = true
		r.exec(ctx, faulted, false)
		r.faulty = false
		r.be.Intercept = nil
		r.class("read-under-transient-backend-fault")
		op.Fault = 0 // and once more, against the recovered backend
	}
	if op.Pad != 0 {
		ctx = context.WithValue(ctx, padKey{}, op.Pad)
		r.class("non-canonical-decimal-parameters")
	}
	switch op.Kind {
	case "clock":
		if now := r.clock.Now().Add(time.Duration(op.A) * time.Millisecond); now.UnixMilli() > 0 {
			r.clock.Set(now)
			if op.A < 0 {
				r.class("clock-stepped-back")
			}
		}
	case "add", "dup":
		var b *world.Built
		var chain [][]byte
		if op.Kind == "add" {
			b = world.Build(*op.Spec)
			chain = b.Submit
			if b.Spec.Precert && len(b.Spec.Inters) == 0 {
				// the client needs the final issuer in the chain to rebuild the precert entry it verifies the SCT over
				chain = b.Full
			}
		} else {
			r.mu.Lock()
			n := len(r.issued)
			var prev issued
			if n > 0 {
				prev = r.issued[op.A%n]
			}
			r.mu.Unlock()
			if n == 0 {
				return
			}
			b = prev.built
			chain = b.Submit
			if op.Flip && !(b.Spec.Precert && len(b.Spec.Inters) == 0) && !b.Spec.RootOnly {
				if len(chain) == len(b.Full) {
					chain = b.Full[:len(b.Full)-1]
				} else {
					chain = b.Full
				}
			}
			if b.Spec.Precert && len(b.Spec.Inters) == 0 {
				chain = b.Full
			}
			r.class("duplicate-submission")
		}
		altered := false
		if op.Kind == "add" && op.Flip && !b.Spec.RootOnly {
			// the complete chain, its last certificate (the root) with one signature bit flipped
			chain = append([][]byte{}, b.Full...)
			root := append([]byte(nil), chain[len(chain)-1]...)
			root[len(root)-3] ^= 0x10
			chain[len(chain)-1] = root
			altered = true
			r.class("altered-root-copy-submitted")
		}
		r.clock.Add(time.Millisecond)
		var sct *ct.SignedCertificateTimestamp
		var err error
		if b.Spec.Precert {
			sct, err = r.lc.AddPreChain(ctx, asn1Chain(chain))
		} else {
			sct, err = r.lc.AddChain(ctx, asn1Chain(chain))
		}
		if err != nil {
			if altered {
				return // refusing a chain that holds a certificate nobody issued in that form is fine
			}
			r.failf("valid-chain-refused", "submission refused: %v", err)
			return
		}
		if lv, err := rfc6962.EncodeLeaf(rfc6962.Leaf{Timestamp: sct.Timestamp, Entry: b.Entry(), Extensions: sct.Extensions}); err == nil && !altered {
			r.mu.Lock()
			r.wantExtra[string(lv)] = append(r.wantExtra[string(lv)], b.ExtraData())
			r.mu.Unlock()
		}
		r.mu.Lock()
		r.issued = append(r.issued, issued{b, sct, asn1Chain(chain)})
		r.mu.Unlock()
		if r.inst3 != nil && !altered {
			time.Sleep(300 * time.Microsecond) // the first log's best-effort cache write runs in the background
			path := "/ct/v1/add-chain"
			if b.Spec.Precert {
				path = "/ct/v1/add-pre-chain"
			}
			if rsp := r.inst3.Post(path, addBody(chain)); rsp.Status != 200 {
				r.failf("valid-chain-refused", "the other log of the process refused the chain the first log took: %d %s", rsp.Status, rsp.Body)
			}
		}
		if altered {
			r.class("altered-root-copy-admitted")
		}
	case "seq":
		r.mu.Lock()
		r.seqNs += 1234567
		ns := r.seqNs
		r.mu.Unlock()
		r.be.Sequence(op.A, ns)
	case "sth":
		r.getSTH(ctx, concurrent)
	case "sthfault":
		if concurrent || r.parallel {
			return // the fault hook is one field of the shared backend
		}
		errs := []error{status.Error(codes.Unavailable, "injected"), status.Error(codes.DeadlineExceeded, "injected"), context.DeadlineExceeded, status.Error(codes.ResourceExhausted, "injected"), status.Error(codes.Internal, "injected"), errors.New("injected")}
		left := op.B
		r.be.Intercept = func(c reflog.Call) (proto.Message, error, bool) {
			if c.RPC == "GetLatestSignedLogRoot" && left > 0 {
				left--
				return nil, errs[op.A%len(errs)], true
			}
			return nil, nil, false
		}
		r.faultySTH = true
		r.getSTH(ctx, false)
		r.faultySTH = false
		r.be.Intercept = nil
		r.class("get-sth-under-backend-fault")
	case "cons":
		cur := r.be.CurrentRoot().TreeSize
		if cur == 0 {
			return
		}
		second := uint64(op.B)%cur + 1
		first := uint64(op.A)%second + 1
		if op.A%7 == 0 {
			first = 0
		}
		if op.Flip && cur >= 100 {
			first, second = uint64(op.A)%9+1, 100+uint64(op.B)%(cur-99)
		}
		proof, err := r.lc.GetSTHConsistency(ctx, first, second)
		if err != nil {
			if op.Pad != 0 || r.faulty {
				return
			}
			r.failf("consistency-refused", "get-sth-consistency(%d,%d) with tree %d: %v", first, second, cur, err)
			return
		}
		if first == 0 {
			if len(proof) != 0 {
				r.failf("consistency-from-zero", "get-sth-consistency(0,%d) returned %d hashes", second, len(proof))
			}
			return
		}
		r1, r2 := r.be.TreeRoot(int(first)), r.be.TreeRoot(int(second))
		if err := mtree.VerifyConsistency(first, second, r1[:], r2[:], proof); err != nil {
			r.failf("consistency-proof", "served proof (%d,%d) does not verify: %v", first, second, err)
		}
		r.class("consistency-checked")
		r.answered(op)
		// the other in-range pairs that are written with the same digits (1,123 / 11,23 / 112,3 ...) are asked
		// right afterwards on the same instance: each must get its own proof
		digits := fmt.Sprint(first) + fmt.Sprint(second)
		for cut := 1; cut < len(digits) && op.Pad == 0; cut++ {
			if digits[cut] == '0' || digits[0] == '0' {
				continue
			}
			var f2, s2 uint64
			fmt.Sscan(digits[:cut], &f2)
			fmt.Sscan(digits[cut:], &s2)
			if f2 == first || f2 < 1 || f2 > s2 || s2 > cur {
				continue
			}
			p2, err := r.lc.GetSTHConsistency(ctx, f2, s2)
			if err != nil {
				r.failf("consistency-refused", "get-sth-consistency(%d,%d) with tree %d: %v", f2, s2, cur, err)
				continue
			}
			a, b := r.be.TreeRoot(int(f2)), r.be.TreeRoot(int(s2))
			if err := mtree.VerifyConsistency(f2, s2, a[:], b[:], p2); err != nil {
				r.failf("consistency-proof", "served proof (%d,%d), asked right after (%d,%d), does not verify: %v", f2, s2, first, second, err)
			}
			r.class("consistency-same-digits-pair")
		}
	case "proof":
		r.proofByHash(ctx, op)
	case "entries":
		cur := int(r.be.CurrentRoot().TreeSize)
		if cur == 0 {
			return
		}
		start := op.A % cur
		end := start + op.B
		rsp, err := r.lc.GetRawEntries(ctx, int64(start), int64(end))
		if err != nil && (op.Pad != 0 || r.faulty) {
			return
		}
		if err != nil {
			r.failf("entries-refused", "get-entries(%d,%d) with tree %d: %v", start, end, cur, err)
			return
		}
		total := 0
		for i := start; i <= end && i < r.be.Size(); i++ {
			total += len(r.be.Leaf(i).LeafValue) + len(r.be.Leaf(i).ExtraData)
		}
		if total > 1<<20 {
			r.class("get-entries-range-over-1MiB")
		}
		for i, e := range rsp.Entries {
			if start+i >= r.be.Size() {
				r.failf("entries-beyond", "entry %d served beyond the tree", start+i)
				break
			}
			want := r.be.Leaf(start + i)
			if !bytes.Equal(e.LeafInput, want.LeafValue) || !r.extraOK(want.LeafValue, want.ExtraData, e.ExtraData) {
				r.failf("entry-bytes", "get-entries(%d,%d) entry %d differs from the stored entry (external chain storage: %v)", start, end, i, r.indirect)
			}
		}
	case "eap":
		cur := uint64(r.be.CurrentRoot().TreeSize)
		if cur == 0 {
			return
		}
		n := uint64(op.B)%cur + 1
		i := uint64(op.A) % n
		rsp, err := r.lc.GetEntryAndProof(ctx, i, n)
		if err != nil && (op.Pad != 0 || r.faulty) {
			return
		}
		if err != nil {
			r.failf("eap-refused", "get-entry-and-proof(%d,%d) with tree %d: %v", i, n, cur, err)
			return
		}
		want := r.be.Leaf(int(i))
		if !bytes.Equal(rsp.LeafInput, want.LeafValue) || !r.extraOK(want.LeafValue, want.ExtraData, rsp.ExtraData) {
			r.failf("entry-bytes", "get-entry-and-proof(%d,%d) bytes differ from the stored entry (external chain storage: %v)", i, n, r.indirect)
		}
		root := r.rootFor(n)
		if err := mtree.VerifyInclusion(mtree.LeafHash(rsp.LeafInput), i, n, rsp.AuditPath, root[:]); err != nil {
			r.failf("audit-path", "get-entry-and-proof(%d,%d): served audit path does not verify against the root of size %d: %v", i, n, n, err)
		}
		r.class("entry-and-proof-checked")
		r.answered(op)
	case "roots":
		got, err := r.lc.GetAcceptedRoots(ctx)
		if err != nil {
			r.failf("roots-refused", "get-roots: %v", err)
			return
		}
		var g, w []string
		for _, c := range got {
			g = append(g, string(c.Data))
		}
		for _, c := range world.Roots() {
			w = append(w, string(c.DER))
		}
		sort.Strings(g)
		sort.Strings(w)
		if fmt.Sprint(g) != fmt.Sprint(w) {
			r.failf("roots-set", "get-roots returned %d certificates, configured pool has %d (or contents differ)", len(g), len(w))
		}
	}
}

// extraOK judges served extra_data: with chains inside the backend leaf it must equal the stored bytes, with
// external chain storage it must be the RFC 6962 structure of the chain validated at submission.
func (r *run) extraOK(leafValue, storedExtra, served []byte) bool {
	if !r.indirect {
		return bytes.Equal(storedExtra, served)
	}
	r.mu.Lock()
	defer r.mu.Unlock()
	set, ok := r.wantExtra[string(leafValue)]
	if !ok {
		return true // not an entry this run submitted with a recorded chain
	}
	for _, x := range set {
		if bytes.Equal(x, served) {
			return true
		}
	}
	return false
}

// rootFor returns the root of the tree of size n: from a served STH when there is one, else from the reference tree.
func (r *run) rootFor(n uint64) [32]byte {
	r.mu.Lock()
	for _, s := range r.sths {
		if s.size == n {
			r.mu.Unlock()
			return s.root
		}
	}
	r.mu.Unlock()
	return r.be.TreeRoot(int(n))
}

func (r *run) getSTH(ctx context.Context, concurrent bool) {
	before := len(r.be.PublishedRoots())
	sth, err := r.lc.GetSTH(ctx) // the client verifies the signature under the configured key
	if err != nil && r.faultySTH {
		return // the backend could not be asked: an error is the honest answer
	}
	if err != nil {
		r.failf("sth-refused", "get-sth: %v", err)
		return
	}
	in, _ := rfc6962.STHSignatureInput(0, sth.Timestamp, sth.TreeSize, sth.SHA256RootHash)
	if err := verifyDS(r.logKey.Pub, sth.TreeHeadSignature, in); err != nil {
		r.failf("sth-signature", "STH (size %d) does not verify over the RFC 6962 input: %v", sth.TreeSize, err)
	}
	match := false
	roots := r.be.PublishedRoots()
	lo := len(roots) - 1
	if concurrent {
		lo = before - 1
	}
	for i := len(roots) - 1; i >= lo && i >= 0; i-- {
		x := roots[i]
		if x.TreeSize == sth.TreeSize && bytes.Equal(x.RootHash, sth.SHA256RootHash[:]) && x.TimestampNanos/1e6 == sth.Timestamp {
			match = true
		}
	}
	if !match {
		cur := roots[len(roots)-1]
		r.failf("sth-content", "STH (size %d, ts %d, root %x) is not the backend's root (size %d, ts %d ms, root %x)", sth.TreeSize, sth.Timestamp, sth.SHA256RootHash[:4], cur.TreeSize, cur.TimestampNanos/1e6, cur.RootHash[:4])
	}
	r.mu.Lock()
	r.sths = append(r.sths, sthRec{sth.TreeSize, sth.SHA256RootHash, sth.Timestamp})
	r.mu.Unlock()
	if r.lc2 != nil && !r.faultySTH {
		// the twin log (same backend, other key) is asked right after: its client verifies under the twin's key
		before2 := len(r.be.PublishedRoots())
		if sth2, err := r.lc2.GetSTH(ctx); err != nil {
			r.failf("twin-sth", "a second log instance with its own key over the same tree served an STH its key does not verify: %v", err)
		} else {
			ok := false
			roots := r.be.PublishedRoots()
			lo := len(roots) - 1
			if concurrent {
				lo = before2 - 1
			}
			for i := len(roots) - 1; i >= lo && i >= 0; i-- {
				x := roots[i]
				ok = ok || (x.TreeSize == sth2.TreeSize && bytes.Equal(x.RootHash, sth2.SHA256RootHash[:]) && x.TimestampNanos/1e6 == sth2.Timestamp)
			}
			if !ok {
				cur := roots[len(roots)-1]
				r.failf("twin-sth-content", "the second front end of the tree served an STH (size %d, ts %d) that is not the backend's root (size %d, ts %d ms)", sth2.TreeSize, sth2.Timestamp, cur.TreeSize, cur.TimestampNanos/1e6)
			}
		}
		if _, err := r.lc.GetSTH(ctx); err != nil {
			r.failf("twin-sth", "after the twin log was asked, the first log's STH no longer verifies under its key: %v", err)
		}
	}
}

func (r *run) proofByHash(ctx context.Context, op Op) {
	cur := uint64(r.be.CurrentRoot().TreeSize)
	if cur == 0 {
		return
	}
	size := uint64(op.B)%cur + 1
	if op.Flip {
		h := sha256.Sum256([]byte(fmt.Sprint("unknown", op.A)))
		if _, err := r.lc.GetProofByHash(ctx, h[:], size); err == nil {
			r.failf("unknown-hash-proved", "get-proof-by-hash returned a proof for a hash that is not in the log")
		}
		r.class("unknown-hash")
		return
	}
	idx := uint64(op.A) % size
	leaf := r.be.Leaf(int(idx))
	h := mtree.LeafHash(leaf.LeafValue)
	rsp, err := r.lc.GetProofByHash(ctx, h[:], size)
	if err != nil && (op.Pad != 0 || r.faulty) {
		return
	}
	if err != nil {
		r.failf("proof-refused", "get-proof-by-hash(leaf %d, size %d): %v", idx, size, err)
		return
	}
	root := r.rootFor(size)
	if rsp.LeafIndex < 0 || uint64(rsp.LeafIndex) >= size {
		r.failf("proof-index", "get-proof-by-hash returned index %d for tree size %d", rsp.LeafIndex, size)
		return
	}
	if err := mtree.VerifyInclusion(h, uint64(rsp.LeafIndex), size, rsp.AuditPath, root[:]); err != nil {
		r.failf("audit-path", "get-proof-by-hash(leaf %d, size %d): served path (index %d) does not verify: %v", idx, size, rsp.LeafIndex, err)
	}
	r.class("proof-by-hash-checked")
	r.answered(op)
}

// finalChecks links all served STHs pairwise and looks every issued SCT up.
func (r *run) finalChecks(ctx context.Context) {
	if r.inst3 != nil {
		// everything the other log accepted must be readable from ITS storage
		r.be3.Sequence(-1, r.seqNs+1)
		time.Sleep(300 * time.Microsecond)
		for i := 0; i < r.be3.Size(); i++ {
			rsp := r.inst3.Get("/ct/v1/get-entries", fmt.Sprintf("start=%d&end=%d", i, i))
			var ger ct.GetEntriesResponse
			if rsp.Status != 200 || json.Unmarshal(rsp.Body, &ger) != nil || len(ger.Entries) != 1 {
				r.failf("other-log-entry-unreadable", "the other log of the process cannot serve its entry %d: %d %s", i, rsp.Status, rsp.Body)
				continue
			}
			if le, err := ct.LogEntryFromLeaf(int64(i), &ger.Entries[0]); le == nil || x509.IsFatal(err) {
				r.failf("other-log-entry-undecodable", "entry %d of the other log does not decode: %v", i, err)
			}
		}
	}
	// (2) every two STHs served are linked by a served consistency proof that verifies
	sizes := map[uint64][32]byte{}
	for _, s := range r.sths {
		if prev, ok := sizes[s.size]; ok && prev != s.root {
			r.failf("sth-fork", "two STHs of size %d with different roots were served", s.size)
		}
		sizes[s.size] = s.root
	}
	var ss []uint64
	for s := range sizes {
		ss = append(ss, s)
	}
	sort.Slice(ss, func(i, j int) bool { return ss[i] < ss[j] })
	pairs := 0
	for i := 0; i < len(ss); i++ {
		for j := i + 1; j < len(ss); j++ {
			if ss[i] == 0 {
				continue
			}
			proof, err := r.lc.GetSTHConsistency(ctx, ss[i], ss[j])
			if err != nil {
				r.failf("consistency-refused", "get-sth-consistency(%d,%d) between two served STHs: %v", ss[i], ss[j], err)
				continue
			}
			a, b := sizes[ss[i]], sizes[ss[j]]
			if err := mtree.VerifyConsistency(ss[i], ss[j], a[:], b[:], proof); err != nil {
				r.failf("consistency-proof", "served STHs %d and %d are not linked by the served proof: %v", ss[i], ss[j], err)
			}
			pairs++
		}
	}
	if pairs > 0 {
		r.class("sth-pairs-linked")
	}
	// (4) every issued SCT, once sequenced, is found by the client-computed leaf hash at one index
	root := r.be.CurrentRoot()
	size := root.TreeSize
	byCert := map[string]int64{}
	found := 0
	for n, is := range r.issued {
		entry := is.built.Entry()
		lv, err := rfc6962.EncodeLeaf(rfc6962.Leaf{Timestamp: is.sct.Timestamp, Entry: entry, Extensions: is.sct.Extensions})
		if err != nil {
			r.t.Fatalf("reference leaf: %v", err)
		}
		h := rfc6962.LeafHash(lv)
		// the library's own client-side computation must agree with the reference
		// (a client holds the submitted certificate and the certificates above it: with a precertificate signing
		// certificate in the chain the final issuer comes third)
		var chain []*x509.Certificate
		for _, d := range is.built.Full[:min(3, len(is.built.Full))] {
			c, err := x509.ParseCertificate(d)
			if c == nil {
				r.t.Fatalf("parse: %v", err)
			}
			chain = append(chain, c)
		}
		if lh, err := ctutil.LeafHash(chain, is.sct, false); err != nil {
			r.failf("ctutil-leafhash", "ctutil.LeafHash failed for issued SCT %d: %v", n, err)
		} else if lh != h {
			r.failf("ctutil-leafhash", "ctutil.LeafHash differs from the RFC 6962 leaf hash for issued SCT %d", n)
		}
		// sequenced?
		idx := int64(-1)
		for i := 0; i < int(size); i++ {
			if bytes.Equal(r.be.Leaf(i).LeafValue, lv) {
				idx = int64(i)
				break
			}
		}
		if idx < 0 {
			// everything pending was sequenced before the final checks, so the leaf the client derives from
			// (certificate, SCT) must be in the tree
			r.failf("sct-leaf-missing", "issued SCT %d (timestamp %d, precert=%v): no stored leaf equals the entry a client derives from the certificate and the SCT", n, is.sct.Timestamp, is.built.Spec.Precert)
			continue
		}
		found++
		rsp, err := r.lc.GetProofByHash(ctx, h[:], size)
		if err != nil {
			r.failf("sct-not-found", "issued SCT %d (sequenced at %d) not found by its leaf hash: %v", n, idx, err)
			continue
		}
		if rsp.LeafIndex != idx {
			r.failf("sct-index", "issued SCT %d found at index %d, stored at %d", n, rsp.LeafIndex, idx)
		}
		if err := mtree.VerifyInclusion(h, uint64(rsp.LeafIndex), size, rsp.AuditPath, root.RootHash); err != nil {
			r.failf("audit-path", "inclusion proof for issued SCT %d does not verify against the current root: %v", n, err)
		}
		key := string(is.built.Leaf.DER)
		if prev, ok := byCert[key]; ok && prev != rsp.LeafIndex {
			r.failf("duplicate-index", "the same certificate maps to indices %d and %d", prev, rsp.LeafIndex)
		}
		byCert[key] = rsp.LeafIndex
		ents, err := r.lc.GetRawEntries(ctx, idx, idx)
		if err != nil || len(ents.Entries) != 1 {
			r.failf("entries-refused", "get-entries(%d,%d): %v", idx, idx, err)
			continue
		}
		le, err := ct.LogEntryFromLeaf(idx, &ents.Entries[0])
		if le == nil || x509.IsFatal(err) {
			r.failf("decode-submitted", "entry %d does not decode: %v", idx, err)
			continue
		}
		if err != nil {
			r.class("decoded-with-nonfatal-error")
		}
		var gotCert []byte
		if is.built.Spec.Precert {
			if le.Precert == nil || le.Leaf.TimestampedEntry.EntryType != ct.PrecertLogEntryType {
				r.failf("decode-type", "entry %d: precert submission decoded as %v", idx, le.Leaf.TimestampedEntry.EntryType)
				continue
			}
			gotCert = le.Precert.Submitted.Data
		} else {
			if le.X509Cert == nil || le.Leaf.TimestampedEntry.EntryType != ct.X509LogEntryType {
				r.failf("decode-type", "entry %d: certificate submission decoded as %v", idx, le.Leaf.TimestampedEntry.EntryType)
				continue
			}
			gotCert = le.X509Cert.Raw
		}
		if !bytes.Equal(gotCert, is.built.Leaf.DER) {
			r.failf("decode-cert", "entry %d decodes to another certificate than the submitted one", idx)
		}
		if le.Leaf.TimestampedEntry.Timestamp != is.sct.Timestamp {
			r.failf("decode-timestamp", "entry %d carries timestamp %d, SCT says %d", idx, le.Leaf.TimestampedEntry.Timestamp, is.sct.Timestamp)
		}
		// the stored chain is the validated path: the submitted certificates unchanged and in order, plus the
		// root when it was omitted. One certificate may have been submitted through several valid chains (a
		// deterministic signature scheme yields the same leaf under a root and under that root's twin): the log
		// keeps the entry of the first submission, so the chain of any submission of this certificate is accepted.
		var why string
		matched := false
		for _, other := range r.issued {
			if !bytes.Equal(other.built.Leaf.DER, is.built.Leaf.DER) {
				continue
			}
			if len(le.Chain) != len(other.built.Full)-1 {
				why = fmt.Sprintf("chain of %d, want %d", len(le.Chain), len(other.built.Full)-1)
				continue
			}
			ok := true
			for j := range le.Chain {
				want := other.built.Full[j+1]
				if j+1 < len(other.chain) {
					want = other.chain[j+1].Data // what was actually submitted at that position
				}
				if !bytes.Equal(le.Chain[j].Data, want) {
					ok = false
					why = fmt.Sprintf("stored chain element %d differs from the submitted certificate", j)
				}
			}
			if ok {
				matched = true
				break
			}
		}
		if !matched {
			r.failf("decode-chain", "entry %d: %s", idx, why)
		}
	}
	if found > 0 {
		r.class("sequenced-sct-looked-up")
	}
	distinct := map[uint64]bool{}
	for _, s := range r.sths {
		distinct[s.size] = true
	}
	if len(distinct) >= 2 && found >= 1 {
		r.v.NonTrivial = true
	}
}

func check(t *testing.T, c Case) (v harness.Verdict) {
	if c.Verbosity > 0 {
		harness.SetKlogVerbosity(c.Verbosity)
		defer harness.SetKlogVerbosity(0)
	}
	r := newRun(t, &v, c)
	ctx := context.Background()
	// every history starts by asking for the STH of the empty tree: its signed bytes are the same in every
	// case of a process while the log keys differ from case to case
	r.exec(ctx, Op{Kind: "sth"}, false)
	for _, op := range c.Ops {
		r.exec(ctx, op, false)
	}
	// make sure there is a final STH and a sequenced tail to judge
	r.exec(ctx, Op{Kind: "seq", A: -1}, false)
	r.exec(ctx, Op{Kind: "sth"}, false)
	r.finalChecks(ctx)
	return v
}

var History = harness.Define(harness.Opts{
	Name:  "history",
	Rule:  "5-40 operations (add-chain / add-pre-chain of generated PKI chains, duplicates incl. the other root variant, sequencing of 0..all pending leaves with sub-millisecond root timestamps, get-sth, get-sth-consistency over in-range pairs incl. first=0, get-proof-by-hash for stored and unknown hashes, get-entries, get-entry-and-proof, get-roots) through the real client.LogClient (which holds the log key) against an Instance on the reference backend; then all served STHs are linked pairwise and every issued SCT is looked up by its client-computed leaf hash. Non-trivial: >= 2 STHs of different sizes and >= 1 sequenced SCT",
	Quick: 300, Thorough: 1200,
}, gen, check)

// ---- concurrent variant

func genConc(t *rapid.T) Case {
	c := Case{LogKeyKind: "p256", Workers: rapid.IntRange(2, 6).Draw(t, "workers"), LogKeyIdx: rapid.IntRange(0, 5).Draw(t, "logkeyidx"), Indirect: rapid.IntRange(0, 3).Draw(t, "indirect") == 0}
	c.ClockMs = rapid.Int64Range(1, 4102444800000).Draw(t, "clock")
	c.Ops = genOps(t, rapid.IntRange(10, 40).Draw(t, "n"), "")
	if !c.Indirect && rapid.IntRange(0, 3).Draw(t, "preloaded") == 0 {
		c.Preload = rapid.IntRange(8, 130).Draw(t, "preload")
	}
	genProcessOptions(t, &c)
	return c
}

func checkConc(t *testing.T, c Case) (v harness.Verdict) {
	if c.Verbosity > 0 {
		harness.SetKlogVerbosity(c.Verbosity)
		defer harness.SetKlogVerbosity(0)
	}
	r := newRun(t, &v, c)
	r.parallel = true
	r.inst.SlowWriter = true
	ctx := context.Background()
	var wg sync.WaitGroup
	stop := make(chan struct{})
	seqDone := make(chan struct{})
	go func() { // sequencer
		defer close(seqDone)
		for i := 0; ; i++ {
			select {
			case <-stop:
				return
			default:
			}
			r.exec(ctx, Op{Kind: "seq", A: i%3 + 1}, true)
			time.Sleep(200 * time.Microsecond)
		}
	}()
	for w := 0; w < c.Workers; w++ {
		wg.Add(1)
		go func(w int) {
			defer wg.Done()
			for i, op := range c.Ops {
				if i%c.Workers != w || op.Kind == "seq" {
					continue
				}
				r.exec(ctx, op, true)
			}
		}(w)
	}
	wg.Wait()
	close(stop)
	<-seqDone
	r.exec(ctx, Op{Kind: "seq", A: -1}, false)
	r.exec(ctx, Op{Kind: "sth"}, false)
	// read storm: every read of the script again, from 8 goroutines at once, against the now stable tree
	// (concurrent readers must not disturb each other's responses)
	var sw sync.WaitGroup
	for g := 0; g < 8; g++ {
		sw.Add(1)
		go func(g int) {
			defer sw.Done()
			for i := range c.Ops {
				op := c.Ops[(i+g*3)%len(c.Ops)]
				switch op.Kind {
				case "cons", "proof", "entries", "eap", "sth":
					r.exec(ctx, op, false)
				}
			}
		}(g)
	}
	sw.Wait()
	r.finalChecks(ctx)
	v.NonTrivial = v.NonTrivial || len(r.issued) > 0
	return v
}

var Concurrent = harness.Define(harness.Opts{
	Name:  "concurrent",
	Rule:  "the same operation mix split over 2-6 goroutines against one Instance while a sequencer goroutine integrates batches; responses judged as in `history` except that an STH must equal some root the backend published during the call; the race detector is on. Non-trivial: at least one SCT issued",
	Quick: 60, Thorough: 300, Crashy: true,
}, genConc, checkConc)
