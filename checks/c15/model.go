// Package c15 decides property C15: configuration validation is total and accepts exactly the
// well-formed configurations; an instance built from an accepted configuration matches it.
//
// Validity is known BY CONSTRUCTION: the generator builds a well-formed configuration, applies
// validity-preserving edits, then 0-2 invalidating edits from a catalogue with one entry per rule of
// the property statement. The oracle never re-implements the validator: it only looks at the labels
// of the edits that were applied.
package c15

import (
	"crypto"
	"crypto/rand"
	"crypto/rsa"
	"crypto/sha256"
	"fmt"

	"github.com/google/certificate-transparency-go/trillian/ctfe/configpb"
	"github.com/google/trillian/crypto/keyspb"
	"google.golang.org/protobuf/types/known/anypb"
	"google.golang.org/protobuf/types/known/timestamppb"

	"verif/internal/ctfex"
	"verif/internal/keys"
	"verif/internal/rfc6962"
)

// RawTS is a protobuf Timestamp with explicit fields (may be out of range on purpose).
type RawTS struct {
	Sec   int64
	Nanos int32
}

// RawPriv describes the private_key Any.
//
//	Form "der":          Any(keyspb.PrivateKey{der: PKCS#8 of pool key})   - well-formed
//	Form "unknown-type": Any with a type URL nobody registered             - not parseable
//	Form "bad-value":    Any(keyspb.PrivateKey) whose value is not a valid protobuf encoding
//	Form "empty-any":    &anypb.Any{}                                       - no type at all
type RawPriv struct {
	Pool string
	Form string
	// Form "pem-file": Any(keyspb.PEMKeyFile{path, password}) - the reference to a key file every
	// configuration shipped with the repository uses; well-formed for validation (the file is only read
	// when the signer is built)
	Path     string `json:",omitempty"`
	Password string `json:",omitempty"`
}

// RawPub describes the public_key message. Mut "" = SPKI of the pool key; "empty" = no DER bytes;
// "truncated" = SPKI cut at Arg%len; "garbage" = Junk.
type RawPub struct {
	Pool string
	Mut  string
	Arg  int
	Junk []byte
}

// RawSTH describes frozen_sth. The signature is made at check time (ECDSA signing is randomised, so
// it cannot be part of the case) by the harness over rfc6962.STHSignatureInput with pool key SignKey.
//
//	Mut ""             genuine
//	Mut "sig-bit"      one bit of the signature octets flipped (bit Arg)
//	Mut "wrong-key"    signed by pool key OtherKey (same algorithm family, different key)
//	Mut "size"         signed for Size, Size+1+Arg%7 presented
//	Mut "ts"           signed for TS, TS+1+Arg%7 presented
//	Mut "root"         one bit of the presented root flipped after signing
//	Mut "trailing"     1+Arg%3 octets appended after the DigitallySigned structure
//	Mut "truncated"    DigitallySigned cut to Arg%len octets (0 = absent signature)
//	Mut "empty"        every field absent
//
// RootLen is the number of root-hash octets presented (32 when well-formed); when it is not 32 the
// signature is made over the root zero-padded / cut to 32.
type RawSTH struct {
	Size     int64
	TS       int64
	Root     []byte
	RootLen  int
	SignKey  string
	OtherKey string
	Mut      string
	Arg      int
}

// RawLog mirrors configpb.LogConfig with explicit presence.
type RawLog struct {
	ID        int64
	Prefix    string
	Override  string
	Roots     []string
	Priv      *RawPriv
	Pub       *RawPub
	RejExp    bool
	RejUnexp  bool
	EKUs      []string
	Start     *RawTS
	Limit     *RawTS
	OnlyCA    bool
	Backend   string
	Mirror    bool
	Readonly  bool
	MaxDelay  int32
	ExpDelay  int32
	STH       *RawSTH
	RejExt    []string
	Conn      string
	CTFEStore bool
}

// RawBackend mirrors configpb.LogBackend.
type RawBackend struct{ Name, Spec string }

// Edit records one applied edit. Verdict: "valid" (validity-preserving), "invalid", "dontcare"
// (the statement is silent on acceptance; only totality is asserted). Scope of an invalidating edit:
// "log" (a rule of one log config; Log is its final index), "set" (prefix / tree-id rules over the set
// of logs), "backend" (rules of the backend set), "multi" (rules tying logs to backends).
type Edit struct {
	Name    string
	Verdict string
	Scope   string
	Log     int
}

func anyOf(p *RawPriv) *anypb.Any {
	if p == nil {
		return nil
	}
	switch p.Form {
	case "der":
		return ctfex.PrivKeyAny(keys.Get(p.Pool))
	case "pem-file":
		a, err := anypb.New(&keyspb.PEMKeyFile{Path: p.Path, Password: p.Password})
		if err != nil {
			panic(err)
		}
		return a
	case "unknown-type":
		return &anypb.Any{TypeUrl: "type.googleapis.com/verif.NoSuchKeyType", Value: keys.Get(p.Pool).PKCS8}
	case "bad-value":
		// field 1, wire type 2, length 0x7f, but only two octets follow: truncated message
		return &anypb.Any{TypeUrl: "type.googleapis.com/keyspb.PrivateKey", Value: []byte{0x0a, 0x7f, 0x01, 0x02}}
	case "empty-any":
		return &anypb.Any{}
	}
	panic("c15: unknown private key form " + p.Form)
}

func pubOf(p *RawPub) *keyspb.PublicKey {
	if p == nil {
		return nil
	}
	switch p.Mut {
	case "":
		return &keyspb.PublicKey{Der: keys.Get(p.Pool).SPKI}
	case "empty":
		return &keyspb.PublicKey{}
	case "truncated":
		spki := keys.Get(p.Pool).SPKI
		return &keyspb.PublicKey{Der: spki[:1+p.Arg%(len(spki)-1)]}
	case "garbage":
		return &keyspb.PublicKey{Der: p.Junk}
	}
	panic("c15: unknown public key mutation " + p.Mut)
}

func tsOf(t *RawTS) *timestamppb.Timestamp {
	if t == nil {
		return nil
	}
	return &timestamppb.Timestamp{Seconds: t.Sec, Nanos: t.Nanos}
}

// signDS signs data (SHA-256) with the pool key and returns the RFC 5246 DigitallySigned encoding.
// Only RSA (PKCS#1 v1.5) and ECDSA keys are used for tree heads (RFC 6962 s2.1.4).
func signDS(keyName string, data []byte) []byte {
	ck := keyName + "|" + string(data)
	if ds, ok := sigCache[ck]; ok {
		return append([]byte(nil), ds...)
	}
	ds := signFresh(keyName, data)
	sigCache[ck] = ds
	return append([]byte(nil), ds...)
}

// sigCache makes signing a pure function of (key, content) within one case, so that a broken frozen
// STH carries byte for byte the signature of its well-formed twin. Checks run sequentially.
var sigCache = map[string][]byte{}

func resetSignatures() { sigCache = map[string][]byte{} }

func signFresh(keyName string, data []byte) []byte {
	k := keys.Get(keyName)
	h := sha256.Sum256(data)
	sig, err := k.Signer.Sign(rand.Reader, h[:], crypto.SHA256)
	if err != nil {
		panic(err)
	}
	alg := uint8(3) // ecdsa
	if _, ok := k.Pub.(*rsa.PublicKey); ok {
		alg = 1
	}
	ds, err := rfc6962.EncodeDS(rfc6962.DigitallySigned{Hash: 4, Sig: alg, Signature: sig})
	if err != nil {
		panic(err)
	}
	return ds
}

// sthOf renders the frozen STH; it also returns the well-formed encoding's length of the signature
// structure (for evidence only).
func sthOf(s *RawSTH) *configpb.SignedTreeHead {
	if s == nil {
		return nil
	}
	if s.Mut == "empty" {
		return &configpb.SignedTreeHead{}
	}
	var root32 [32]byte
	copy(root32[:], s.Root)
	// "size" / "ts": the genuine content is signed (same signature octets as the well-formed twin), an
	// altered value is presented
	size, ts := uint64(s.Size), uint64(s.TS)
	showSize, showTS := s.Size, s.TS
	switch s.Mut {
	case "size":
		showSize += int64(1 + s.Arg%7)
	case "ts":
		showTS += int64(1 + s.Arg%7)
	}
	in, err := rfc6962.STHSignatureInput(0, ts, size, root32)
	if err != nil {
		panic(err)
	}
	key := s.SignKey
	if s.Mut == "wrong-key" {
		key = s.OtherKey
	}
	ds := signDS(key, in)
	root := append([]byte(nil), root32[:]...)
	switch {
	case s.RootLen < 32:
		root = root[:s.RootLen]
	case s.RootLen > 32:
		root = append(root, make([]byte, s.RootLen-32)...)
	}
	switch s.Mut {
	case "sig-bit":
		// the signature octets start after hash(1) sig(1) length(2)
		n := (len(ds) - 4) * 8
		b := s.Arg % n
		ds[4+b/8] ^= 1 << (b % 8)
	case "root":
		b := s.Arg % 256
		root[b/8] ^= 1 << (b % 8)
	case "trailing":
		ds = append(ds, make([]byte, 1+s.Arg%3)...)
	case "truncated":
		ds = ds[:s.Arg%len(ds)]
	}
	return &configpb.SignedTreeHead{TreeSize: showSize, Timestamp: showTS, Sha256RootHash: root, TreeHeadSignature: ds}
}

func logOf(l *RawLog) *configpb.LogConfig {
	c := &configpb.LogConfig{
		LogId:                       l.ID,
		Prefix:                      l.Prefix,
		OverrideHandlerPrefix:       l.Override,
		RootsPemFile:                l.Roots,
		PrivateKey:                  anyOf(l.Priv),
		PublicKey:                   pubOf(l.Pub),
		RejectExpired:               l.RejExp,
		RejectUnexpired:             l.RejUnexp,
		ExtKeyUsages:                l.EKUs,
		NotAfterStart:               tsOf(l.Start),
		NotAfterLimit:               tsOf(l.Limit),
		AcceptOnlyCa:                l.OnlyCA,
		LogBackendName:              l.Backend,
		IsMirror:                    l.Mirror,
		IsReadonly:                  l.Readonly,
		MaxMergeDelaySec:            l.MaxDelay,
		ExpectedMergeDelaySec:       l.ExpDelay,
		FrozenSth:                   sthOf(l.STH),
		RejectExtensions:            l.RejExt,
		CtfeStorageConnectionString: l.Conn,
	}
	if l.CTFEStore {
		c.ExtraDataIssuanceChainStorageBackend = configpb.LogConfig_ISSUANCE_CHAIN_STORAGE_BACKEND_CTFE
	}
	return c
}

func logsOf(ls []RawLog) []*configpb.LogConfig {
	out := make([]*configpb.LogConfig, 0, len(ls))
	for i := range ls {
		out = append(out, logOf(&ls[i]))
	}
	return out
}

func backendsOf(bs []RawBackend) []*configpb.LogBackend {
	out := make([]*configpb.LogBackend, 0, len(bs))
	for _, b := range bs {
		out = append(out, &configpb.LogBackend{Name: b.Name, BackendSpec: b.Spec})
	}
	return out
}

// kindOfLog labels a log for the class histogram.
func kindOfLog(l *RawLog) string {
	k := "plain"
	if l.Mirror {
		k = "mirror"
	}
	if l.STH != nil {
		k += "+frozen"
	}
	if l.Readonly {
		k += "+ro"
	}
	return k
}

func (e Edit) String() string { return fmt.Sprintf("%s[%s/%s@%d]", e.Name, e.Verdict, e.Scope, e.Log) }
