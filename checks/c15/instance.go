package c15

import (
	"bytes"
	"context"
	"crypto/sha256"
	"encoding/json"
	"errors"
	"fmt"
	"net/http"
	"net/http/httptest"
	"sort"
	"strings"
	"testing"

	ct "github.com/google/certificate-transparency-go"
	"github.com/google/certificate-transparency-go/trillian/ctfe"
	"github.com/google/certificate-transparency-go/trillian/ctfe/configpb"
	"github.com/google/trillian"
	"github.com/google/trillian/types"
	"google.golang.org/grpc/codes"
	"google.golang.org/grpc/status"
	"google.golang.org/protobuf/proto"
	"pgregory.net/rapid"

	"verif/internal/ctfex"
	"verif/internal/harness"
	"verif/internal/reflog"
	"verif/internal/world"
)

// InstOp is one step of the script run against the instance.
//
//	"sth"    GET get-sth
//	"grow"   the backend integrates N more leaves and publishes a root
//	"stage"  the backend integrates N more leaves WITHOUT publishing (its visible tree does not grow)
//	"rewind" the backend now reports a tree N leaves smaller than the one it reported last (a lagging
//	         replica, a restored backend); the next "grow" makes it report its full tree again
//	"fault"  from now on GetLatestSignedLogRoot misbehaves in way Mode
//	"heal"   the backend behaves again
type InstOp struct {
	Kind string
	N    int
	Mode string
}

var faultModes = []string{"unavailable", "not-found", "deadline", "internal", "no-root", "garbage-root", "short-hash"}

// InstCase: one accepted single-log configuration, how the instance is set up, and a script.
type InstCase struct {
	Log        RawLog
	WithRoots  bool  // a (real) roots file is configured
	Leaves     int   // backend tree size at start
	StubSizes  []int // tree sizes of the STHs the mirror's STH storage holds
	StubPick   []int // per call: serve the k-th largest STH not above the limit (0 = largest)
	NilStorage bool  // mirror without an STHStorage (the default one always fails)
	Ops        []InstOp
	Verbosity  int // process-wide klog -v level during set-up and requests
}

func genInst(t *rapid.T) InstCase {
	var c InstCase
	c.Log = drawLog(t, 0, nil, true)
	l := &c.Log
	l.Roots = nil
	c.WithRoots = rapid.IntRange(0, 3).Draw(t, "withroots") != 0
	c.Leaves = rapid.IntRange(0, 10).Draw(t, "leaves")
	if !l.Mirror && l.Pub != nil && rapid.IntRange(0, 3).Draw(t, "mismatch") == 0 {
		// the configured public key (and the frozen STH made with it) stays; the private key is another one
		how := rapid.IntRange(0, 1).Draw(t, "mismatch-how")
		if how == 0 {
			l.Priv.Pool = otherKeyOfKind(t, l.Pub.Pool, "mismatch-key")
		} else {
			k := drawKey(t, anyKeyKinds, "mismatch-anykey")
			if k == l.Pub.Pool {
				k = otherKeyOfKind(t, k, "mismatch-key")
			}
			l.Priv.Pool = k
		}
	}
	if l.Mirror && l.STH != nil {
		// keep the two clauses of the statement compatible: a frozen mirror's STH is within its backend tree
		l.STH.Size = int64(rapid.IntRange(0, c.Leaves).Draw(t, "frozen-mirror-size"))
	}
	if l.Mirror {
		c.StubSizes = rapid.SliceOfNDistinct(rapid.IntRange(0, 16), 0, 12, func(i int) int { return i }).Draw(t, "stub-sizes")
		sort.Ints(c.StubSizes)
		c.StubPick = rapid.SliceOfN(rapid.SampledFrom([]int{0, 0, 0, 0, 1, 2}), 1, 4).Draw(t, "stub-pick")
		c.NilStorage = rapid.IntRange(0, 9).Draw(t, "nil-storage") == 0
	}
	n := rapid.IntRange(1, 8).Draw(t, "nops")
	for i := 0; i < n; i++ {
		switch rapid.SampledFrom([]string{"sth", "sth", "sth", "sth", "grow", "grow", "rewind", "rewind", "stage", "fault", "heal"}).Draw(t, "op") {
		case "rewind":
			if l.Mirror && l.STH != nil {
				// a frozen mirror's STH stays within its backend tree (see above): no shrinking below it
				c.Ops = append(c.Ops, InstOp{Kind: "sth"})
			} else {
				c.Ops = append(c.Ops, InstOp{Kind: "rewind", N: rapid.IntRange(1, 12).Draw(t, "rewind-n")})
			}
		case "sth":
			c.Ops = append(c.Ops, InstOp{Kind: "sth"})
		case "grow":
			c.Ops = append(c.Ops, InstOp{Kind: "grow", N: rapid.IntRange(0, 3).Draw(t, "grow-n")})
		case "stage":
			c.Ops = append(c.Ops, InstOp{Kind: "stage", N: rapid.IntRange(1, 3).Draw(t, "stage-n")})
		case "fault":
			c.Ops = append(c.Ops, InstOp{Kind: "fault", Mode: rapid.SampledFrom(faultModes).Draw(t, "fault-mode")})
		case "heal":
			c.Ops = append(c.Ops, InstOp{Kind: "heal"})
		}
	}
	c.Ops = append(c.Ops, InstOp{Kind: "sth"})
	c.Verbosity = rapid.SampledFrom([]int{0, 0, 0, 1, 2, 3}).Draw(t, "klog-v")
	return c
}

// stubStorage is a contract-abiding ctfe.MirrorSTHStorage: it only ever returns an STH whose tree
// size is <= maxTreeSize (usually the largest such), or an error when it has none.
type stubStorage struct {
	sizes []int // ascending
	pick  []int
	calls int
	limit []int64
}

func stubSTH(size int) *ct.SignedTreeHead {
	sth := &ct.SignedTreeHead{Version: ct.V1, TreeSize: uint64(size), Timestamp: uint64(1700000000000 + size)}
	sth.SHA256RootHash = sha256.Sum256([]byte(fmt.Sprintf("source log root %d", size)))
	sth.TreeHeadSignature = ct.DigitallySigned{}
	sth.TreeHeadSignature.Algorithm.Hash = 4
	sth.TreeHeadSignature.Algorithm.Signature = 3
	sth.TreeHeadSignature.Signature = []byte{0x30, 0x06, 0x02, 0x01, byte(size + 1), 0x02, 0x01, 0x01}
	return sth
}

func (s *stubStorage) GetMirrorSTH(_ context.Context, maxTreeSize int64) (*ct.SignedTreeHead, error) {
	k := s.pick[s.calls%len(s.pick)]
	s.calls++
	s.limit = append(s.limit, maxTreeSize)
	var ok []int
	for _, sz := range s.sizes {
		if int64(sz) <= maxTreeSize {
			ok = append(ok, sz)
		}
	}
	if len(ok) == 0 {
		return nil, errors.New("stub: no STH at or below the requested size")
	}
	if k >= len(ok) {
		k = len(ok) - 1
	}
	return stubSTH(ok[len(ok)-1-k]), nil
}

type sthJSON struct {
	TreeSize  uint64 `json:"tree_size"`
	Timestamp uint64 `json:"timestamp"`
	Root      []byte `json:"sha256_root_hash"`
	Sig       []byte `json:"tree_head_signature"`
}

// handlersBySuffix finds the handlers registered for an RFC 6962 path, whatever the prefix looks like.
func handlersBySuffix(h ctfe.PathHandlers, suffix string) []string {
	var out []string
	for p := range h {
		if strings.HasSuffix(p, suffix) {
			out = append(out, p)
		}
	}
	sort.Strings(out)
	return out
}

// serve calls a handler in-process (AppHandler does not look at the request path).
func serve(h http.Handler, method, rfcPath string) *httptest.ResponseRecorder {
	req := httptest.NewRequest(method, "http://log.example"+rfcPath, nil)
	w := httptest.NewRecorder()
	h.ServeHTTP(w, req)
	return w
}

func checkInst(t *testing.T, c InstCase) (v harness.Verdict) {
	ct.AllowVerificationWithNonCompliantKeys = false
	resetSignatures()
	harness.SetKlogVerbosity(c.Verbosity)
	defer harness.SetKlogVerbosity(0)
	v.Class(fmt.Sprintf("klog-v=%d", c.Verbosity))
	l := &c.Log
	v.NonTrivial = true
	v.Class("log:" + kindOfLog(l))

	be := reflog.New(6962, 1)
	for i := 0; i < c.Leaves; i++ {
		be.AppendRaw([]byte(fmt.Sprintf("leaf %d", i)), nil)
	}
	be.Publish(2)
	published := c.Leaves // size of the backend's visible tree
	staged := c.Leaves
	fault := ""
	var override []byte // when set: the serialised (smaller) root the backend reports instead of its latest
	be.Intercept = func(call reflog.Call) (proto.Message, error, bool) {
		if call.RPC != "GetLatestSignedLogRoot" {
			return nil, nil, false
		}
		if fault == "" && override != nil {
			return &trillian.GetLatestSignedLogRootResponse{SignedLogRoot: &trillian.SignedLogRoot{LogRoot: override}}, nil, true
		}
		switch fault {
		case "unavailable":
			return nil, status.Error(codes.Unavailable, "backend down"), true
		case "not-found":
			return nil, status.Error(codes.NotFound, "no such tree"), true
		case "deadline":
			return nil, status.Error(codes.DeadlineExceeded, "too slow"), true
		case "internal":
			return nil, errors.New("plain error"), true
		case "no-root":
			return &trillian.GetLatestSignedLogRootResponse{}, nil, true
		case "garbage-root":
			return &trillian.GetLatestSignedLogRootResponse{SignedLogRoot: &trillian.SignedLogRoot{LogRoot: []byte{0, 1, 2}}}, nil, true
		}
		return nil, nil, false
	}
	be.Mutate = func(call reflog.Call, rsp proto.Message) proto.Message {
		if call.RPC != "GetLatestSignedLogRoot" || fault != "short-hash" {
			return rsp
		}
		r := rsp.(*trillian.GetLatestSignedLogRootResponse)
		var root types.LogRootV1
		if err := root.UnmarshalBinary(r.SignedLogRoot.LogRoot); err != nil {
			return rsp
		}
		root.RootHash = root.RootHash[:31]
		b, err := root.MarshalBinary()
		if err != nil {
			return rsp
		}
		return &trillian.GetLatestSignedLogRootResponse{SignedLogRoot: &trillian.SignedLogRoot{LogRoot: b}}
	}

	// the configuration message is built once: the frozen STH's ECDSA signature differs per signing
	want := logOf(l)
	var stub *stubStorage
	opts := ctfex.Opts{
		Backend: be,
		Prefix:  l.Prefix,
		Cfg: func(cfg *configpb.LogConfig) {
			roots := cfg.RootsPemFile
			proto.Reset(cfg)
			proto.Merge(cfg, want)
			if c.WithRoots {
				cfg.RootsPemFile = roots
			}
		},
	}
	if c.WithRoots {
		opts.Roots = world.Roots()
	}
	if l.Mirror && !c.NilStorage {
		stub = &stubStorage{sizes: c.StubSizes, pick: c.StubPick}
		opts.Inst = func(io *ctfe.InstanceOptions) { io.STHStorage = stub }
	}
	var inst *ctfex.Instance
	var err error
	func() {
		defer func() {
			if p := recover(); p != nil {
				v.Failf("setup-panic", "SetUpInstance panicked: %v", p)
				err = fmt.Errorf("panic")
			}
		}()
		inst, err = ctfex.New(opts)
	}()
	if len(v.Violations) > 0 {
		return v
	}

	// ---- set-up succeeds exactly when roots and key consistency allow it
	noRoots := !l.Mirror && !c.WithRoots
	mismatch := !l.Mirror && l.Pub != nil && l.Pub.Pool != l.Priv.Pool
	switch {
	case noRoots:
		v.Class("setup:no-roots")
	case mismatch:
		v.Class("setup:key-mismatch")
	default:
		v.Class("setup:ok")
	}
	if err != nil && strings.HasPrefix(err.Error(), "ValidateLogConfig:") {
		v.Failf("valid-config-rejected:ValidateLogConfig", "a well-formed single-log configuration was rejected: %v", err)
		return v
	}
	if noRoots || mismatch {
		if err == nil {
			if noRoots {
				v.Failf("setup-without-roots", "SetUpInstance succeeded for a non-mirror log without roots file")
			} else {
				v.Failf("setup-key-mismatch", "SetUpInstance succeeded although public key %s does not belong to private key %s", l.Pub.Pool, l.Priv.Pool)
			}
		}
		return v
	}
	if err != nil {
		v.Failf("setup-failed", "SetUpInstance failed for an accepted configuration (%s, roots=%v): %v", kindOfLog(l), c.WithRoots, err)
		return v
	}

	// ---- submission endpoints <=> neither mirror nor read-only
	adds := append(handlersBySuffix(inst.Handlers, "/ct/v1/add-chain"), handlersBySuffix(inst.Handlers, "/ct/v1/add-pre-chain")...)
	wantAdds := 0
	if !l.Mirror && !l.Readonly {
		wantAdds = 2
	}
	v.Class(fmt.Sprintf("add-endpoints=%d", wantAdds))
	if len(adds) != wantAdds {
		v.Failf("add-endpoints", "%s log exposes submission endpoints %v, want %d of them", kindOfLog(l), adds, wantAdds)
	}
	// the endpoints that exist must answer a POST (with whatever verdict on the empty chain, but not "no such method")
	for _, p := range adds {
		func() {
			defer func() {
				if r := recover(); r != nil {
					v.Failf("add-endpoint-panic", "POST %s panicked: %v", p, r)
				}
			}()
			req := httptest.NewRequest(http.MethodPost, "http://log.example/ct/v1/add-chain", strings.NewReader(`{"chain":[]}`))
			w := httptest.NewRecorder()
			inst.Handlers[p].ServeHTTP(w, req)
			if wantAdds == 0 && w.Code != http.StatusMethodNotAllowed && w.Code != http.StatusNotFound {
				v.Failf("add-endpoints", "%s log answers POST %s with %d", kindOfLog(l), p, w.Code)
			}
			if wantAdds == 2 && (w.Code == http.StatusMethodNotAllowed || w.Code == http.StatusNotFound) {
				v.Failf("add-endpoint-unusable", "POST %s with an empty chain answered %d", p, w.Code)
			}
		}()
	}
	switch {
	case strings.HasSuffix(l.Prefix, "/"):
		v.Class("prefix:trailing-slash")
	case strings.HasPrefix(l.Prefix, "/"):
		v.Class("prefix:leading-slash")
	default:
		v.Class("prefix:bare")
	}
	sthPaths := handlersBySuffix(inst.Handlers, "/ct/v1/get-sth")
	if len(sthPaths) != 1 {
		v.Failf("no-get-sth", "instance has get-sth handlers %v", sthPaths)
		return v
	}
	sthHandler := inst.Handlers[sthPaths[0]]

	// ---- the script
	nLeaf := c.Leaves
	for i, op := range c.Ops {
		switch op.Kind {
		case "grow", "stage":
			for k := 0; k < op.N; k++ {
				be.AppendRaw([]byte(fmt.Sprintf("leaf %d", nLeaf)), nil)
				nLeaf++
			}
			staged = nLeaf
			if op.Kind == "grow" {
				be.Publish(uint64(3 + i))
				published = staged
				override = nil
			}
		case "rewind":
			published = max(0, published-op.N)
			h := be.Tree().Root(published)
			b, err := (&types.LogRootV1{TreeSize: uint64(published), RootHash: h[:], TimestampNanos: uint64(3 + i)}).MarshalBinary()
			if err != nil {
				t.Fatalf("harness: %v", err)
			}
			override = b
			v.Class("backend:rewound")
		case "fault":
			fault = op.Mode
		case "heal":
			fault = ""
		case "sth":
			var w *httptest.ResponseRecorder
			func() {
				defer func() {
					if p := recover(); p != nil {
						v.Failf("get-sth-panic", "get-sth panicked (fault %q): %v", fault, p)
					}
				}()
				w = serve(sthHandler, http.MethodGet, "/ct/v1/get-sth")
			}()
			if w == nil {
				return v
			}
			var got sthJSON
			if w.Code == http.StatusOK {
				if err := json.Unmarshal(w.Body.Bytes(), &got); err != nil {
					v.Failf("get-sth-json", "get-sth 200 body is not JSON: %v", err)
					continue
				}
			}
			state := "healthy"
			if fault != "" {
				state = "faulty"
			}
			switch {
			case l.STH != nil:
				v.Class("sth:frozen/" + state)
				s := want.FrozenSth
				if w.Code != http.StatusOK {
					v.Failf("frozen-sth-not-served", "frozen log answered get-sth with %d (backend %s, size %d): %s", w.Code, state, published, w.Body.Bytes())
				} else if got.TreeSize != uint64(s.TreeSize) || got.Timestamp != uint64(s.Timestamp) || !bytes.Equal(got.Root, s.Sha256RootHash) || !bytes.Equal(got.Sig, s.TreeHeadSignature) {
					v.Failf("frozen-sth-differs", "frozen log served tree_size=%d timestamp=%d (backend size %d, %s); frozen STH is size=%d timestamp=%d; root equal=%v signature equal=%v",
						got.TreeSize, got.Timestamp, published, state, s.TreeSize, s.Timestamp, bytes.Equal(got.Root, s.Sha256RootHash), bytes.Equal(got.Sig, s.TreeHeadSignature))
				}
				if l.Mirror && w.Code == http.StatusOK && got.TreeSize > uint64(published) {
					v.Failf("mirror-sth-beyond-backend", "frozen mirror served tree_size %d, backend tree is %d", got.TreeSize, published)
				}
			case l.Mirror:
				if w.Code != http.StatusOK {
					v.Class("sth:mirror/" + state + "/refused")
					continue
				}
				v.Class("sth:mirror/" + state + "/served")
				if got.TreeSize > uint64(published) {
					v.Failf("mirror-sth-beyond-backend", "mirror served tree_size %d while its backend tree has %d leaves (staged %d); storage was asked with limits %v",
						got.TreeSize, published, staged, stub.limit)
				}
				if got.TreeSize == uint64(published) {
					v.Class("sth:mirror/at-backend-size")
				}
			default:
				if w.Code == http.StatusOK {
					v.Class("sth:log/" + state + "/served")
				} else {
					v.Class("sth:log/" + state + "/refused")
				}
			}
		}
	}
	if stub != nil {
		for _, s := range c.StubSizes {
			if s == published+1 {
				v.Class("mirror:stub-holds-size+1")
				break
			}
		}
	}
	return v
}

// Inst is the instance half of C15.
var Inst = harness.Define(harness.Opts{
	Name:  "instance",
	Rule:  "one well-formed single-log configuration (regular / mirror / frozen / read-only, prefixes with leading / trailing / doubled slashes incl. the bare / and log/, pool keys, optional public key - matching or not -, with or without a real roots file) set up over the reference backend (0-10 leaves) through ctfex.New; script of 2-9 steps: get-sth, backend grows (published or only staged), backend rewinds (reports a tree 1-12 leaves smaller), GetLatestSignedLogRoot starts failing in one of 7 ways, heals; mirrors get a contract-abiding MirrorSTHStorage stub holding STHs of up to 12 sizes in 0..16 (or none at all). Oracle: set-up fails <=> non-mirror without roots or key mismatch; add-chain/add-pre-chain registered <=> neither mirror nor read-only; frozen log: every get-sth is 200 with exactly the frozen STH; mirror: tree_size served <= published backend size. Every case is non-trivial",
	Quick: 4000, Thorough: 20000, MaxSample: 2500,
}, genInst, checkInst)
