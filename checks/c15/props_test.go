package c15

import (
	"testing"

	"verif/internal/harness"
)

func TestProps(t *testing.T) { harness.Main(t, "C15", Validate, Inst, Pair) }
