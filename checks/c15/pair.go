package c15

import (
	"bytes"
	"context"
	"crypto/sha256"
	"encoding/json"
	"errors"
	"fmt"
	"net/http"
	"net/http/httptest"
	"sort"
	"sync"
	"testing"
	"time"

	ct "github.com/google/certificate-transparency-go"
	"github.com/google/certificate-transparency-go/trillian/ctfe"
	"github.com/google/certificate-transparency-go/trillian/ctfe/configpb"
	"google.golang.org/protobuf/proto"
	"pgregory.net/rapid"

	"verif/internal/ctfex"
	"verif/internal/harness"
	"verif/internal/reflog"
	"verif/internal/world"
)

// PairCase: an accepted LogMultiConfig with two logs that share ONE tree id on two different backends
// (tree ids need only be unique per backend), both set up in one process, queried sequentially and
// concurrently while one backend is slow.
type PairCase struct {
	ID       int64
	Logs     [2]RawLog // Logs[1] is always a mirror; Logs[0] a mirror or a regular log
	Leaves   [2]int    // backend tree sizes at start
	Stub     [2][]int  // sizes of the STHs each mirror's storage holds
	Rounds   []PairRound
	Backends [2]RawBackend
}

// PairRound: both instances answer get-sth. Slow >= 0: that instance's backend holds its
// GetLatestSignedLogRoot reply until the other instance has answered (or has demonstrably got stuck
// behind it); Slow < 0: one after the other. Grow: leaves added to each backend before the round.
type PairRound struct {
	Slow int
	Grow [2]int
}

func genPair(t *rapid.T) PairCase {
	var c PairCase
	c.Backends = [2]RawBackend{{Name: "be-a", Spec: "trillian-a:8090"}, {Name: "be-b", Spec: "trillian-b:8090"}}
	for i := 0; i < 2; i++ {
		l := drawLog(t, i, []string{c.Backends[i].Name}, true)
		l.Roots, l.STH = nil, nil // frozen logs never ask the backend: not the subject here
		if i == 1 || rapid.IntRange(0, 2).Draw(t, "a-mirror") != 0 {
			if !l.Mirror {
				l.Mirror, l.Priv = true, nil
				if l.Pub == nil {
					l.Pub = &RawPub{Pool: drawKey(t, anyKeyKinds, "pair-pub")}
				}
			}
		} else if l.Mirror {
			key := l.Pub.Pool
			l.Mirror, l.Priv = false, &RawPriv{Pool: key, Form: "der"}
		}
		if !l.Mirror && (l.Priv.Pool[:2] == "ed") {
			l.Priv.Pool, l.Pub = "p256-3", nil // a regular log must be able to sign its tree heads
		}
		c.Logs[i] = l
		c.Leaves[i] = rapid.IntRange(0, 12).Draw(t, "pair-leaves")
		c.Stub[i] = rapid.SliceOfNDistinct(rapid.IntRange(0, 18), 0, 14, func(i int) int { return i }).Draw(t, "pair-stub")
		sort.Ints(c.Stub[i])
	}
	if c.Logs[1].Prefix == c.Logs[0].Prefix {
		c.Logs[1].Prefix += "1" // prefixes are unique in a well-formed set
	}
	c.ID = c.Logs[0].ID
	c.Logs[1].ID = c.ID
	n := rapid.IntRange(1, 5).Draw(t, "pair-rounds")
	for i := 0; i < n; i++ {
		c.Rounds = append(c.Rounds, PairRound{
			Slow: rapid.SampledFrom([]int{-1, 0, 0, 1, 1}).Draw(t, "pair-slow"),
			Grow: [2]int{rapid.IntRange(0, 3).Draw(t, "pair-grow-a"), rapid.IntRange(0, 3).Draw(t, "pair-grow-b")},
		})
	}
	return c
}

// tagged STH storage: like stubStorage, but every STH names the instance whose storage holds it
type tagStorage struct {
	mu    sync.Mutex
	tag   string
	sizes []int
}

func tagSTH(tag string, size int) *ct.SignedTreeHead {
	sth := stubSTH(size)
	sth.SHA256RootHash = sha256.Sum256([]byte(fmt.Sprintf("source log of %s, size %d", tag, size)))
	return sth
}

func (s *tagStorage) GetMirrorSTH(_ context.Context, maxTreeSize int64) (*ct.SignedTreeHead, error) {
	s.mu.Lock()
	defer s.mu.Unlock()
	best := -1
	for _, sz := range s.sizes {
		if int64(sz) <= maxTreeSize {
			best = sz
		}
	}
	if best < 0 {
		return nil, errors.New("stub: no STH at or below the requested size")
	}
	return tagSTH(s.tag, best), nil
}

type pairSide struct {
	log       *RawLog
	be        *reflog.Log
	inst      *ctfex.Instance
	sth       http.Handler
	published int
	nLeaf     int
	tag       string

	mu      sync.Mutex
	hold    bool          // the next GetLatestSignedLogRoot waits for release
	entered chan struct{} // closed when that RPC has arrived at the backend
	release chan struct{}
}

func checkPair(t *testing.T, c PairCase) (v harness.Verdict) {
	ct.AllowVerificationWithNonCompliantKeys = false
	resetSignatures()
	v.NonTrivial = true

	// the configuration set must be accepted: same tree id, different backends
	cfgs := [2]*configpb.LogConfig{logOf(&c.Logs[0]), logOf(&c.Logs[1])}
	mc := &configpb.LogMultiConfig{
		Backends:   &configpb.LogBackendSet{Backend: backendsOf(c.Backends[:])},
		LogConfigs: &configpb.LogConfigSet{Config: []*configpb.LogConfig{cfgs[0], cfgs[1]}},
	}
	if _, err := ctfe.ValidateLogMultiConfig(mc); err != nil {
		v.Failf("valid-config-rejected:ValidateLogMultiConfig", "one tree id on two different backends was rejected: %v", err)
		return v
	}

	var sides [2]*pairSide
	for i := 0; i < 2; i++ {
		i := i
		s := &pairSide{log: &c.Logs[i], be: reflog.New(c.ID, 1), tag: c.Backends[i].Name}
		for k := 0; k < c.Leaves[i]; k++ {
			s.be.AppendRaw([]byte(fmt.Sprintf("%s leaf %d", s.tag, k)), nil)
		}
		s.nLeaf, s.published = c.Leaves[i], c.Leaves[i]
		s.be.Publish(2)
		s.be.Intercept = func(call reflog.Call) (proto.Message, error, bool) {
			if call.RPC != "GetLatestSignedLogRoot" {
				return nil, nil, false
			}
			s.mu.Lock()
			hold, entered, release := s.hold, s.entered, s.release
			s.hold = false
			s.mu.Unlock()
			if hold {
				close(entered)
				<-release
			}
			return nil, nil, false
		}
		opts := ctfex.Opts{Backend: s.be, Prefix: s.log.Prefix, LogID: c.ID,
			Cfg: func(cfg *configpb.LogConfig) {
				roots := cfg.RootsPemFile
				proto.Reset(cfg)
				proto.Merge(cfg, cfgs[i])
				if !s.log.Mirror {
					cfg.RootsPemFile = roots
				}
			}}
		if !s.log.Mirror {
			opts.Roots = world.Roots()
		} else {
			st := &tagStorage{tag: s.tag, sizes: c.Stub[i]}
			opts.Inst = func(io *ctfe.InstanceOptions) { io.STHStorage = st }
		}
		inst, err := ctfex.New(opts)
		if err != nil {
			v.Failf("setup-failed", "SetUpInstance failed for an accepted configuration (%s): %v", kindOfLog(s.log), err)
			return v
		}
		paths := handlersBySuffix(inst.Handlers, "/ct/v1/get-sth")
		if len(paths) != 1 {
			v.Failf("no-get-sth", "instance has get-sth handlers %v", paths)
			return v
		}
		s.inst, s.sth = inst, inst.Handlers[paths[0]]
		sides[i] = s
		v.Class("pair:" + kindOfLog(s.log))
	}

	ask := func(s *pairSide) *httptest.ResponseRecorder { return serve(s.sth, http.MethodGet, "/ct/v1/get-sth") }
	judge := func(s *pairSide, w *httptest.ResponseRecorder, how string) {
		if w.Code != http.StatusOK {
			v.Class("pair-reply:refused")
			return
		}
		var got sthJSON
		if err := json.Unmarshal(w.Body.Bytes(), &got); err != nil {
			v.Failf("get-sth-json", "get-sth 200 body is not JSON: %v", err)
			return
		}
		if !s.log.Mirror {
			// a regular log signs its own backend's root: C06 judges that; here only the size bound
			if got.TreeSize != uint64(s.published) {
				v.Failf("log-sth-foreign-backend", "%s: regular log on %s served tree_size %d, its backend tree is %d", how, s.tag, got.TreeSize, s.published)
			}
			return
		}
		v.Class("pair-reply:mirror-served")
		if got.TreeSize > uint64(s.published) {
			v.Failf("mirror-sth-beyond-backend", "%s: mirror on %s (tree id %d) served tree_size %d while its backend tree has %d leaves", how, s.tag, c.ID, got.TreeSize, s.published)
			return
		}
		want := tagSTH(s.tag, int(got.TreeSize))
		if !bytes.Equal(got.Root, want.SHA256RootHash[:]) {
			v.Failf("mirror-sth-foreign", "%s: mirror on %s served an STH of size %d that its own STH storage does not hold", how, s.tag, got.TreeSize)
		}
	}

	for ri, rd := range c.Rounds {
		for i, s := range sides {
			for k := 0; k < rd.Grow[i]; k++ {
				s.be.AppendRaw([]byte(fmt.Sprintf("%s leaf %d", s.tag, s.nLeaf)), nil)
				s.nLeaf++
			}
			if rd.Grow[i] > 0 {
				s.be.Publish(uint64(10 + ri))
				s.published = s.nLeaf
			}
		}
		if rd.Slow < 0 {
			v.Class("pair-round:sequential")
			for _, s := range sides {
				judge(s, ask(s), "sequential")
			}
			continue
		}
		v.Class("pair-round:overlapping")
		slow, fast := sides[rd.Slow], sides[1-rd.Slow]
		slow.mu.Lock()
		slow.hold, slow.entered, slow.release = true, make(chan struct{}), make(chan struct{})
		entered, release := slow.entered, slow.release
		slow.mu.Unlock()
		slowDone, fastDone := make(chan *httptest.ResponseRecorder, 1), make(chan *httptest.ResponseRecorder, 1)
		go func() { slowDone <- ask(slow) }()
		select {
		case <-entered:
		case <-time.After(10 * time.Second):
			t.Fatalf("harness: the slow instance's backend was never called")
		}
		go func() { fastDone <- ask(fast) }()
		// The fast instance has its own, responsive backend: it answers at once. Only if it (wrongly)
		// waits for the slow instance's RPC does the grace period run out; the verdict does not depend
		// on the clock either way.
		var fw *httptest.ResponseRecorder
		select {
		case fw = <-fastDone:
			v.Class("pair-overlap:fast-independent")
		case <-time.After(100 * time.Millisecond):
			v.Class("pair-overlap:fast-waited-for-slow")
		}
		close(release)
		if fw == nil {
			select {
			case fw = <-fastDone:
			case <-time.After(20 * time.Second):
				t.Fatalf("harness: get-sth did not return")
			}
		}
		var sw *httptest.ResponseRecorder
		select {
		case sw = <-slowDone:
		case <-time.After(20 * time.Second):
			t.Fatalf("harness: get-sth did not return")
		}
		judge(fast, fw, fmt.Sprintf("overlapping with a slow RPC of the instance on %s", slow.tag))
		judge(slow, sw, "slow backend")
		if slow.published != fast.published {
			v.Class("pair-overlap:sizes-differ")
		}
	}
	return v
}

// Pair is the two-instances-one-tree-id part of C15.
var Pair = harness.Define(harness.Opts{
	Name:  "pair",
	Rule:  "an accepted LogMultiConfig of two logs with the SAME tree id on two different backends (a mirror plus a mirror or regular log; tree ids are unique per backend only), both instances set up in one process over two reference backends (0-12 leaves, growing), mirrors with tagged STH storages (up to 14 sizes in 0..18); 1-5 rounds of get-sth on both, sequential or overlapping (one backend holds its GetLatestSignedLogRoot reply until the other instance has answered). Oracle: each mirror's tree_size <= ITS backend's published size and the STH is one its own storage holds; a regular log reports its own backend's size. Every case is non-trivial",
	Quick: 1500, Thorough: 8000, MaxSample: 2500,
}, genPair, checkPair)
