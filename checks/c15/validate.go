package c15

import (
	"fmt"
	"os"
	"path/filepath"
	"runtime/debug"
	"strings"
	"testing"
	"unicode/utf8"

	ct "github.com/google/certificate-transparency-go"
	"github.com/google/certificate-transparency-go/trillian/ctfe"
	"github.com/google/certificate-transparency-go/trillian/ctfe/configpb"
	"google.golang.org/protobuf/encoding/prototext"
	"google.golang.org/protobuf/proto"

	"verif/internal/ctfex"
	"verif/internal/harness"
)

// outcome of one call into the code under test
type outcome struct {
	panicked bool
	err      error
}

func (o outcome) accepted() bool { return !o.panicked && o.err == nil }

// panicSig classifies a recovered panic by root cause. The two D6 mechanisms get their own
// signature; anything else is a new finding.
func panicSig(r any, stack string) string {
	msg := fmt.Sprint(r)
	// the innermost frame of the repository: where the panic happened
	top := ""
	for _, line := range strings.Split(stack, "\n") {
		if strings.HasPrefix(line, "github.com/google/certificate-transparency-go/") {
			top = line
			break
		}
	}
	switch {
	case strings.Contains(msg, "index out of range") && strings.Contains(top, "ctfe.ValidateLogConfig("):
		// strings.Split(conn, "://")[1] on a connection string without the separator
		return "config-panic-connstring"
	case strings.Contains(msg, "nil pointer dereference") &&
		(strings.Contains(top, "ctfe.BuildLogBackendMap(") || strings.Contains(top, "ctfe.ValidateLogMultiConfig(")):
		// field access through an absent Backends / LogConfigs sub-message
		return "config-panic-absent-sets"
	}
	return "config-panic"
}

type valRun struct {
	v     *harness.Verdict
	seen  map[string]bool
	phase string // "" first presentation; "valid-twin"; "after-valid-twin"; "again"
}

// call runs f, turning a panic into a violation (once per signature and case).
func (r *valRun) call(what string, f func() error) (o outcome) {
	defer func() {
		if p := recover(); p != nil {
			o.panicked = true
			st := string(debug.Stack())
			sig := panicSig(p, st)
			if !r.seen[sig] {
				r.seen[sig] = true
				r.v.Failf(sig, "%s panicked: %v\n%s", what, p, trimStack(st))
			}
		}
	}()
	o.err = f()
	return o
}

func trimStack(st string) string {
	lines := strings.Split(st, "\n")
	var keep []string
	for i := 0; i+1 < len(lines); i++ {
		if strings.HasPrefix(lines[i], "github.com/google/certificate-transparency-go/") {
			keep = append(keep, lines[i], lines[i+1])
		}
	}
	if len(keep) > 8 {
		keep = keep[:8]
	}
	return strings.Join(keep, "\n")
}

// expect compares an observed verdict with the label known by construction. want: +1 accept, -1 reject,
// 0 don't care (totality only).
func (r *valRun) expect(what string, o outcome, want int, edits []Edit) {
	if o.panicked || want == 0 {
		return
	}
	ph, when := "", ""
	if r.phase != "" {
		ph, when = "-"+r.phase, " ("+r.phase+" in the same process)"
	}
	switch {
	case want > 0 && o.err != nil:
		r.v.Failf("valid-config-rejected"+ph+":"+what, "%s rejected a well-formed configuration%s (edits %v): %v", what, when, edits, o.err)
	case want < 0 && o.err == nil:
		r.v.Failf("invalid-config-accepted"+ph+":"+ruleOf(edits), "%s accepted a configuration broken by %v%s", what, edits, when)
	}
}

// ruleOf names the (first) invalidating edit: the signature of an acceptance failure is the rule that
// was not enforced.
func ruleOf(edits []Edit) string {
	for _, e := range edits {
		if e.Verdict == "invalid" {
			return e.Name
		}
	}
	return "none"
}

func (c *ValCase) multiProto() *configpb.LogMultiConfig {
	m := &configpb.LogMultiConfig{}
	if !c.BackendsAbsent {
		m.Backends = &configpb.LogBackendSet{Backend: backendsOf(c.Backends)}
	}
	if !c.LogsAbsent {
		m.LogConfigs = &configpb.LogConfigSet{Config: logsOf(c.Logs)}
	}
	return m
}

// binaryIsUTF8 reports (for evidence) whether the last binary file written is also valid UTF-8 text.
var binaryIsUTF8 bool

func writeForms(t *testing.T, m proto.Message, multiline bool) (textPath, binPath string) {
	txt, err := prototext.MarshalOptions{Multiline: multiline}.Marshal(m)
	if err != nil {
		t.Fatalf("harness: prototext.Marshal: %v", err)
	}
	bin, err := proto.Marshal(m)
	if err != nil {
		t.Fatalf("harness: proto.Marshal: %v", err)
	}
	binaryIsUTF8 = utf8.Valid(bin) && len(bin) > 0
	dir := ctfex.TempDir()
	textPath, binPath = filepath.Join(dir, "c15-config.textproto"), filepath.Join(dir, "c15-config.binpb")
	if err := os.WriteFile(textPath, txt, 0o644); err != nil {
		t.Fatalf("harness: %v", err)
	}
	if err := os.WriteFile(binPath, bin, 0o644); err != nil {
		t.Fatalf("harness: %v", err)
	}
	return textPath, binPath
}

// judge presents one configuration through every entry point and compares the verdicts with the
// labels derived from edits. first: record evidence classes and go through the file forms too.
func (r *valRun) judge(t *testing.T, c *ValCase, edits []Edit, first bool) {
	v := r.v

	// ---- labels, from the record of edits only
	var invalid, dontcare, perSet []Edit
	perLog := map[int][]Edit{}
	for _, e := range edits {
		if first {
			v.Class("edit:" + e.Name)
		}
		switch e.Verdict {
		case "invalid":
			invalid = append(invalid, e)
			switch e.Scope {
			case "log":
				perLog[e.Log] = append(perLog[e.Log], e)
				perSet = append(perSet, e)
			case "set":
				perSet = append(perSet, e)
			}
		case "dontcare":
			dontcare = append(dontcare, e)
		}
	}
	label := func(bad []Edit) int {
		if len(bad) > 0 {
			return -1
		}
		return +1
	}
	whole := label(invalid)
	if len(dontcare) > 0 {
		whole = 0
	}
	if first {
		v.NonTrivial = len(edits) > 0
		v.Class(fmt.Sprintf("invalid-edits=%d", len(invalid)), fmt.Sprintf("logs=%d", len(c.Logs)))
		if c.Multi {
			v.Class("form:multi", fmt.Sprintf("backends=%d", len(c.Backends)))
		} else {
			v.Class("form:single")
		}
		switch {
		case whole > 0:
			v.Class("expect:accept")
		case whole < 0:
			v.Class("expect:reject")
		default:
			v.Class("expect:dontcare")
		}
		for i := range c.Logs {
			v.Class("log:" + kindOfLog(&c.Logs[i]))
			if p := c.Logs[i].Priv; p != nil && p.Form == "pem-file" {
				v.Class("privkey:pem-file")
			}
		}
	}

	// ---- each log on its own
	for i := range c.Logs {
		i := i
		cfg := logOf(&c.Logs[i])
		var vc *ctfe.ValidatedLogConfig
		o := r.call("ValidateLogConfig", func() (err error) { vc, err = ctfe.ValidateLogConfig(cfg); return })
		want := label(perLog[i])
		if want > 0 && c.Logs[i].Prefix == "" {
			want = 0 // prefixes are a rule of the set; silent for one config on its own
		}
		r.expect("ValidateLogConfig", o, want, perLog[i])
		if o.accepted() && (vc == nil || vc.Config != cfg) {
			v.Failf("validated-config-missing", "ValidateLogConfig returned no error and %v", vc)
		}
	}

	if !c.Multi {
		// ---- LogConfigSet: Go message, text file, binary file, and the single -> multi conversion
		logs := logsOf(c.Logs)
		want := label(perSet)
		o := r.call("ValidateLogConfigs", func() error { return ctfe.ValidateLogConfigs(logs) })
		r.expect("ValidateLogConfigs", o, want, perSet)
		if first {
			observe(v, o)
		}

		set := &configpb.LogConfigSet{Config: logsOf(c.Logs)}
		forms := []struct{ form, path string }{}
		if first {
			tp, bp := writeForms(t, set, c.Multiline)
			if binaryIsUTF8 {
				v.Class(fmt.Sprintf("file:binary-is-valid-utf8/expect%+d", want))
			}
			forms = append(forms, struct{ form, path string }{"text", tp}, struct{ form, path string }{"binary", bp})
		}
		for _, f := range forms {
			var loaded []*configpb.LogConfig
			lo := r.call("LogConfigFromFile/"+f.form, func() (err error) { loaded, err = ctfe.LogConfigFromFile(f.path); return })
			if lo.panicked {
				continue
			}
			if lo.err != nil {
				// A refusal by the loader is a rejection like any other: only wrong for a well-formed set.
				// (Seen on the unchanged tree for malformed sets only: the loader tries the text syntax
				// first, and a binary LogConfigSet whose single config is 35 octets long starts "\n#",
				// i.e. reads as a comment-only text file -> "empty log config found".)
				v.Class("file:loader-refused/" + f.form)
				r.expect("LogConfigFromFile/"+f.form, lo, want, perSet)
				continue
			}
			if !proto.Equal(&configpb.LogConfigSet{Config: loaded}, set) {
				v.Failf("file-form-differs:"+f.form, "LogConfigFromFile(%s form) returned a different message than was written", f.form)
				continue
			}
			vo := r.call("ValidateLogConfigs/"+f.form, func() error { return ctfe.ValidateLogConfigs(loaded) })
			r.expect("ValidateLogConfigs/"+f.form, vo, want, perSet)
		}

		spec := "trillian.example:8090"
		conv := r.call("ToMultiLogConfig+ValidateLogMultiConfig", func() error {
			_, err := ctfe.ValidateLogMultiConfig(ctfe.ToMultiLogConfig(logsOf(c.Logs), spec))
			return err
		})
		r.expect("ToMultiLogConfig+ValidateLogMultiConfig", conv, want, perSet)
		return
	}

	// ---- LogMultiConfig
	var backendBad []Edit
	for _, e := range invalid {
		if e.Scope == "backend" {
			backendBad = append(backendBad, e)
		}
	}
	if !c.BackendsAbsent {
		bs := &configpb.LogBackendSet{Backend: backendsOf(c.Backends)}
		var m ctfe.LogBackendMap
		o := r.call("BuildLogBackendMap", func() (err error) { m, err = ctfe.BuildLogBackendMap(bs); return })
		wantB := label(backendBad)
		if len(c.Backends) == 0 {
			wantB = 0 // the set was emptied after its entries were edited: nothing left to judge
		}
		r.expect("BuildLogBackendMap", o, wantB, backendBad)
		if o.accepted() {
			// by construction names are unique here, so the map has one entry per backend
			if len(m) != len(c.Backends) {
				v.Failf("backend-map-size", "BuildLogBackendMap returned %d entries for %d uniquely named backends", len(m), len(c.Backends))
			}
			for _, b := range c.Backends {
				if got := m[b.Name]; got == nil || got.BackendSpec != b.Spec {
					v.Failf("backend-map-entry", "backend %q maps to %v, want spec %q", b.Name, got, b.Spec)
				}
			}
		}
	} else {
		r.call("BuildLogBackendMap(absent)", func() error { _, err := ctfe.BuildLogBackendMap(nil); return err })
	}

	// evidence only: does the set contain a repeated (backend, tree id) pair, and is every such pair
	// separated by a log with the same id on another backend?
	if dup, interleaved := dupShape(c.Logs); dup && first {
		if interleaved {
			v.Class("tree-id:duplicate-interleaved-only")
		} else {
			v.Class("tree-id:duplicate-adjacent")
		}
	}
	mc := c.multiProto()
	o := r.call("ValidateLogMultiConfig", func() error { _, err := ctfe.ValidateLogMultiConfig(mc); return err })
	r.expect("ValidateLogMultiConfig", o, whole, invalid)
	if first {
		observe(v, o)
	}
	// totality only: the single-backend validator sees the same logs (tree ids may legitimately repeat)
	r.call("ValidateLogConfigs(multi logs)", func() error { return ctfe.ValidateLogConfigs(logsOf(c.Logs)) })

	forms := []struct{ form, path string }{}
	if first {
		tp, bp := writeForms(t, mc, c.Multiline)
		if binaryIsUTF8 {
			v.Class(fmt.Sprintf("file:binary-is-valid-utf8/expect%+d", whole))
		}
		forms = append(forms, struct{ form, path string }{"text", tp}, struct{ form, path string }{"binary", bp})
	}
	for _, f := range forms {
		var loaded *configpb.LogMultiConfig
		lo := r.call("MultiLogConfigFromFile/"+f.form, func() (err error) { loaded, err = ctfe.MultiLogConfigFromFile(f.path); return })
		if lo.panicked {
			continue
		}
		if lo.err != nil {
			// the loader may refuse early ("non empty" check); that is a rejection like any other
			r.expect("MultiLogConfigFromFile/"+f.form, lo, whole, invalid)
			continue
		}
		if !proto.Equal(loaded, mc) {
			v.Failf("file-form-differs:"+f.form, "MultiLogConfigFromFile(%s form) returned a different message than was written", f.form)
			continue
		}
		vo := r.call("ValidateLogMultiConfig/"+f.form, func() error { _, err := ctfe.ValidateLogMultiConfig(loaded); return err })
		r.expect("ValidateLogMultiConfig/"+f.form, vo, whole, invalid)
	}
}

// applyBulk pads the chosen log's roots_pem_file (a list of paths validation does not look at) with
// one long entry - plus, where varint length steps make the exact size unreachable with one, a short
// second one - so that the binary encoding reaches the requested size. Returns an evidence class.
func (c *ValCase) applyBulk() string {
	b := c.Bulk
	if b.Log < 0 || b.Log >= len(c.Logs) {
		return "bulk:no-such-log"
	}
	c.Logs = append([]RawLog(nil), c.Logs...) // the padded copy is local to this run
	base := c.Logs[b.Log].Roots
	want := b.Target + b.Delta
	size := func() int {
		var m proto.Message
		switch {
		case c.Multi:
			m = c.multiProto()
		case b.Mode == "entry":
			m = &configpb.LogConfigSet{Config: logsOf(c.Logs[:b.Log+1])}
		default:
			m = &configpb.LogConfigSet{Config: logsOf(c.Logs)}
		}
		return proto.Size(m)
	}
	for extra := -1; extra < 6; extra++ {
		n := 0
		for iter := 0; iter < 8; iter++ {
			roots := append(append([]string(nil), base...), "/"+strings.Repeat("d", n))
			if extra >= 0 {
				roots = append(roots, strings.Repeat("x", extra))
			}
			c.Logs[b.Log].Roots = roots
			d := want - size()
			if d == 0 {
				where := "file"
				if !c.Multi && b.Mode == "entry" {
					where = "entry"
					if b.Log == len(c.Logs)-1 {
						where = "last-entry"
					}
				}
				return fmt.Sprintf("bulk:%s-ends-at-2^%d%+d", where, bitsOf(b.Target), b.Delta)
			}
			n += d
			if n < 0 {
				c.Logs[b.Log].Roots = base
				return "bulk:already-larger"
			}
		}
	}
	return "bulk:size-not-reached-exactly"
}

func bitsOf(n int) int {
	k := 0
	for n > 1 {
		n >>= 1
		k++
	}
	return k
}

// checkVal judges the configuration, then - when it was broken on purpose - its well-formed twin (the
// state just before the invalidating edits; frozen STH signatures byte-identical), then the broken one
// again: validation must not depend on what the process validated before.
func checkVal(t *testing.T, c ValCase) (v harness.Verdict) {
	ct.AllowVerificationWithNonCompliantKeys = false
	resetSignatures()
	harness.SetKlogVerbosity(c.Verbosity)
	defer harness.SetKlogVerbosity(0)
	v.Class(fmt.Sprintf("klog-v=%d", c.Verbosity))
	if c.Bulk != nil {
		v.Class(c.applyBulk())
	}
	r := &valRun{v: &v, seen: map[string]bool{}}
	r.judge(t, &c, c.Edits, true)
	if c.Twin != nil {
		v.Class("sequence:broken/twin/broken")
		twin := ValCase{Multi: c.Multi, Logs: c.Twin.Logs, Backends: c.Twin.Backends, Multiline: c.Multiline}
		r.phase = "valid-twin"
		r.judge(t, &twin, nil, false)
		r.phase = "after-valid-twin"
		r.judge(t, &c, c.Edits, false)
	} else if len(c.Logs) > 0 {
		r.phase = "again"
		r.judge(t, &c, c.Edits, false)
	}
	return v
}

// dupShape looks at the logs sharing a tree id, in configuration order: dup = some backend occurs twice
// for one id; interleaved = no two consecutive sharers of any id are on the same backend.
func dupShape(logs []RawLog) (dup, interleaved bool) {
	interleaved = true
	last := map[int64]string{}
	seen := map[int64]map[string]bool{}
	for i := range logs {
		id, be := logs[i].ID, logs[i].Backend
		if seen[id] == nil {
			seen[id] = map[string]bool{}
		}
		if seen[id][be] {
			dup = true
		}
		if prev, ok := last[id]; ok && prev == be {
			interleaved = false
		}
		seen[id][be] = true
		last[id] = be
	}
	return dup, dup && interleaved
}

func observe(v *harness.Verdict, o outcome) {
	switch {
	case o.panicked:
		v.Class("observed:panic")
	case o.err == nil:
		v.Class("observed:accept")
	default:
		v.Class("observed:reject")
	}
}

// Validate is the validation half of C15.
var Validate = harness.Define(harness.Opts{
	Name:  "validate",
	Rule:  "a LogConfigSet (one backend) or LogMultiConfig (1-4 backends) of 1-6 logs that is well-formed by construction (regular / mirror / frozen / read-only logs, pool keys of eight kinds, harness-signed frozen STH, windows incl. sub-second ones, delays, EKU names, prefixes with leading/trailing/doubled slashes, mysql:// or postgres:// storage strings), then 0-5 validity-preserving edits and 0-2 invalidating edits from a catalogue with one entry per rule of the statement; presented as Go messages (ValidateLogConfig per log, ValidateLogConfigs, BuildLogBackendMap, ValidateLogMultiConfig, ToMultiLogConfig) and through LogConfigFromFile / MultiLogConfigFromFile in text and binary form. klog verbosity 0-3; a rare class pads one log so that the binary file or an entry boundary lands at 2^16 / 2^20 +- a few octets. Each broken configuration is judged, then its well-formed twin (same frozen-STH signature octets), then the broken one again, in one process. Oracle: no panic; accepted <=> no invalidating edit (labels by construction), whatever was validated before. Non-trivial: >= 1 edit",
	Quick: 3000, Thorough: 20000, MaxSample: 2500,
}, genVal, checkVal)
