package c15

import (
	"encoding/json"
	"fmt"
	"sort"

	"pgregory.net/rapid"

	"verif/internal/harness"
)

// ValCase is one configuration set plus the record of how it was derived from a well-formed one.
type ValCase struct {
	Multi          bool // LogMultiConfig (else LogConfigSet for one backend)
	Logs           []RawLog
	LogsAbsent     bool // multi: log_configs sub-message absent
	Backends       []RawBackend
	BackendsAbsent bool // multi: backends sub-message absent
	Edits          []Edit
	Multiline      bool // text form layout
	// Verbosity is the process-wide klog -v level while the configuration is validated (0 = default).
	Verbosity int
	// Bulk, when set, pads one log with a long (unchecked) roots_pem_file path so that the serialised
	// configuration has a chosen size around a power of two.
	Bulk *Bulk
	// Twin is the well-formed configuration as it was just before the invalidating edits (nil when
	// there are none): it is validated between two presentations of the broken configuration.
	Twin *Twin
}

// Bulk: pad log Log so that, in binary form, either the whole file ("file") or the encoding up to and
// including that log's entry ("entry"; only meaningful for a LogConfigSet, whose entries are top-level)
// is exactly Target+Delta octets long. Applied at check time, when the encoded sizes are known.
type Bulk struct {
	Log    int
	Mode   string
	Target int
	Delta  int
}

// Twin is the well-formed state a broken configuration was derived from.
type Twin struct {
	Logs     []RawLog
	Backends []RawBackend
}

// snapshot deep-copies the current state (the edits mutate through pointers).
func (c *ValCase) snapshot() *Twin {
	b, err := json.Marshal(Twin{Logs: c.Logs, Backends: c.Backends})
	if err != nil {
		panic(err)
	}
	var tw Twin
	if err := json.Unmarshal(b, &tw); err != nil {
		panic(err)
	}
	return &tw
}

func (c *ValCase) record(name, verdict, scope string, log int) {
	c.Edits = append(c.Edits, Edit{Name: name, Verdict: verdict, Scope: scope, Log: log})
}

// An entry of either catalogue: targets lists the indices (logs, or backends for backend scope, or
// {0} for whole-set edits) the edit can be applied to in the current state.
type entry struct {
	name    string
	scope   string // invalidating edits: log | set | backend | multi ; valid edits: ""
	verdict string
	targets func(c *ValCase) []int
	apply   func(t *rapid.T, c *ValCase, i int)
}

func allLogs(c *ValCase) []int {
	var out []int
	for i := range c.Logs {
		out = append(out, i)
	}
	return out
}

func logsWhere(c *ValCase, f func(l *RawLog) bool) []int {
	var out []int
	for i := range c.Logs {
		if f(&c.Logs[i]) {
			out = append(out, i)
		}
	}
	return out
}

func whole(cond func(c *ValCase) bool) func(c *ValCase) []int {
	return func(c *ValCase) []int {
		if cond(c) {
			return []int{0}
		}
		return nil
	}
}

func allBackends(c *ValCase) []int {
	if !c.Multi {
		return nil
	}
	var out []int
	for i := range c.Backends {
		out = append(out, i)
	}
	return out
}

// renameBackend gives backend i a new name (unless another backend has it) and re-points its logs.
func renameBackend(c *ValCase, i int, name string) {
	for k := range c.Backends {
		if k != i && c.Backends[k].Name == name {
			return
		}
	}
	old := c.Backends[i].Name
	c.Backends[i].Name = name
	for k := range c.Logs {
		if c.Logs[k].Backend == old {
			c.Logs[k].Backend = name
		}
	}
}

func firstAny(ekus []string) int {
	for i, e := range ekus {
		if e == "Any" {
			return i
		}
	}
	return len(ekus)
}

func insertAt(s []string, i int, v string) []string {
	s = append(s, "")
	copy(s[i+1:], s[i:])
	s[i] = v
	return s
}

// ---- validity-preserving edits -------------------------------------------------------------------

var validCatalogue = []entry{
	{name: "reorder-logs", targets: whole(func(c *ValCase) bool { return len(c.Logs) >= 2 }), apply: func(t *rapid.T, c *ValCase, _ int) {
		perm := rapid.Permutation(allLogs(c)).Draw(t, "log-perm")
		out := make([]RawLog, len(c.Logs))
		for i, p := range perm {
			out[i] = c.Logs[p]
		}
		c.Logs = out
	}},
	{name: "reorder-backends", targets: whole(func(c *ValCase) bool { return c.Multi && len(c.Backends) >= 2 }), apply: func(t *rapid.T, c *ValCase, _ int) {
		perm := rapid.Permutation(allBackends(c)).Draw(t, "be-perm")
		out := make([]RawBackend, len(c.Backends))
		for i, p := range perm {
			out[i] = c.Backends[p]
		}
		c.Backends = out
	}},
	{name: "eku-any", targets: allLogs, apply: func(t *rapid.T, c *ValCase, i int) {
		l := &c.Logs[i]
		l.EKUs = insertAt(l.EKUs, rapid.IntRange(0, len(l.EKUs)).Draw(t, "any-pos"), "Any")
	}},
	{name: "eku-duplicate", targets: func(c *ValCase) []int { return logsWhere(c, func(l *RawLog) bool { return len(l.EKUs) > 0 }) }, apply: func(t *rapid.T, c *ValCase, i int) {
		l := &c.Logs[i]
		l.EKUs = append(l.EKUs, l.EKUs[rapid.IntRange(0, len(l.EKUs)-1).Draw(t, "dup-eku")])
	}},
	{name: "eku-all-known", targets: allLogs, apply: func(t *rapid.T, c *ValCase, i int) {
		c.Logs[i].EKUs = append([]string(nil), knownEKUs[1:]...)
	}},
	{name: "delays-equal", targets: allLogs, apply: func(t *rapid.T, c *ValCase, i int) {
		d := rapid.SampledFrom([]int32{0, 1, 86400, 2147483647}).Draw(t, "equal-delay")
		c.Logs[i].MaxDelay, c.Logs[i].ExpDelay = d, d
	}},
	{name: "same-tree-id-other-backend", targets: func(c *ValCase) []int {
		if !c.Multi {
			return nil
		}
		return logsWhere(c, func(l *RawLog) bool {
			for j := range c.Logs {
				if c.Logs[j].Backend != l.Backend {
					return true
				}
			}
			return false
		})
	}, apply: func(t *rapid.T, c *ValCase, i int) {
		// copy the id of a log living on another backend - unless a third log on OUR backend already has it
		var others []int
		for j := range c.Logs {
			if c.Logs[j].Backend != c.Logs[i].Backend {
				others = append(others, j)
			}
		}
		j := rapid.SampledFrom(others).Draw(t, "id-donor")
		for k := range c.Logs {
			if k != i && c.Logs[k].Backend == c.Logs[i].Backend && c.Logs[k].ID == c.Logs[j].ID {
				return
			}
		}
		c.Logs[i].ID = c.Logs[j].ID
	}},
	{name: "tree-id-shared-across-backends", targets: whole(func(c *ValCase) bool { return c.Multi && len(c.Backends) >= 2 && len(c.Logs) >= 2 }), apply: func(t *rapid.T, c *ValCase, _ int) {
		// one tree id on as many distinct backends as the draw allows (A B C ... never twice the same)
		order := rapid.Permutation(allLogs(c)).Draw(t, "share-order")
		x := c.Logs[order[0]].ID
		used := map[string]bool{c.Logs[order[0]].Backend: true}
		for _, j := range order[1:] {
			be := c.Logs[j].Backend
			if used[be] || !rapid.Bool().Draw(t, "share-this") {
				continue
			}
			clash := false
			for k := range c.Logs {
				if k != j && c.Logs[k].Backend == be && c.Logs[k].ID == x {
					clash = true
				}
			}
			if !clash {
				c.Logs[j].ID = x
				used[be] = true
			}
		}
	}},
	{name: "drop-optional-pubkey", targets: func(c *ValCase) []int {
		return logsWhere(c, func(l *RawLog) bool { return !l.Mirror && l.STH == nil && l.Pub != nil })
	}, apply: func(t *rapid.T, c *ValCase, i int) { c.Logs[i].Pub = nil }},
	{name: "pubkey-of-other-key", targets: func(c *ValCase) []int {
		return logsWhere(c, func(l *RawLog) bool { return !l.Mirror && l.STH == nil })
	}, apply: func(t *rapid.T, c *ValCase, i int) {
		// validation does not (and per the statement need not) compare the two keys; set-up does
		c.Logs[i].Pub = &RawPub{Pool: drawKey(t, anyKeyKinds, "otherpub")}
	}},
	{name: "drop-window", targets: func(c *ValCase) []int {
		return logsWhere(c, func(l *RawLog) bool { return l.Start != nil || l.Limit != nil })
	}, apply: func(t *rapid.T, c *ValCase, i int) {
		switch rapid.IntRange(0, 2).Draw(t, "drop-which") {
		case 0:
			c.Logs[i].Start = nil
		case 1:
			c.Logs[i].Limit = nil
		default:
			c.Logs[i].Start, c.Logs[i].Limit = nil, nil
		}
	}},
	{name: "epoch-start", targets: func(c *ValCase) []int {
		return logsWhere(c, func(l *RawLog) bool { return l.Limit == nil || tsLess(RawTS{}, *l.Limit) })
	}, apply: func(t *rapid.T, c *ValCase, i int) { c.Logs[i].Start = &RawTS{} }}, // an empty Timestamp message
	{name: "junk-conn-string-unselected", targets: func(c *ValCase) []int {
		return logsWhere(c, func(l *RawLog) bool { return !l.CTFEStore })
	}, apply: func(t *rapid.T, c *ValCase, i int) {
		// the statement only constrains the string "when that backend is selected"
		pool := append(append(append(append([]string{}, connBadScheme...), connNoSepMySQL...), connNoSepPostgres...), connBadDSN...)
		c.Logs[i].Conn = rapid.SampledFrom(pool).Draw(t, "junk-conn")
	}},
	{name: "unused-backend", targets: whole(func(c *ValCase) bool { return c.Multi }), apply: func(t *rapid.T, c *ValCase, _ int) {
		k := len(c.Backends)
		c.Backends = append(c.Backends, RawBackend{Name: fmt.Sprintf("spare%d", k), Spec: fmt.Sprintf("spare:%d", k)})
	}},
	{name: "backend-name-equals-a-spec", targets: allBackends, apply: func(t *rapid.T, c *ValCase, i int) {
		// names must be unique among names and specs among specs - nothing forbids one backend's NAME to
		// read like a backend's SPEC (its own or another's, earlier or later in the set)
		j := rapid.IntRange(0, len(c.Backends)-1).Draw(t, "name-from-spec")
		renameBackend(c, i, c.Backends[j].Spec)
	}},
	{name: "backend-spec-equals-a-name", targets: allBackends, apply: func(t *rapid.T, c *ValCase, i int) {
		j := rapid.IntRange(0, len(c.Backends)-1).Draw(t, "spec-from-name")
		v := c.Backends[j].Name
		for k := range c.Backends {
			if k != i && c.Backends[k].Spec == v {
				return // would duplicate a spec
			}
		}
		c.Backends[i].Spec = v
	}},
	{name: "backend-name-ignored-single", targets: func(c *ValCase) []int {
		if c.Multi {
			return nil
		}
		return allLogs(c)
	}, apply: func(t *rapid.T, c *ValCase, i int) {
		c.Logs[i].Backend = rapid.SampledFrom([]string{"nowhere", "default", " ", "be0"}).Draw(t, "single-backend-name")
	}},
	{name: "clear-optionals", targets: allLogs, apply: func(t *rapid.T, c *ValCase, i int) {
		l := &c.Logs[i]
		l.Override, l.Roots, l.RejExt, l.EKUs, l.OnlyCA, l.RejExp, l.RejUnexp, l.Readonly = "", nil, nil, nil, false, false, false, false
		l.MaxDelay, l.ExpDelay = 0, 0
	}},
	{name: "all-logs-minimal", targets: whole(func(c *ValCase) bool { return len(c.Logs) > 0 }), apply: func(t *rapid.T, c *ValCase, _ int) {
		// every log in the shape of the configurations shipped with the repository: small tree id, a
		// prefix, a key file reference, nothing else. (In binary form such a file is short and consists
		// of 7-bit / valid UTF-8 octets only - the loaders must still take it.)
		for i := range c.Logs {
			l := &c.Logs[i]
			*l = RawLog{
				ID:      int64(rapid.IntRange(1, 15).Draw(t, "min-id"))<<3 | int64(i),
				Prefix:  l.Prefix,
				Backend: l.Backend,
				Priv:    &RawPriv{Pool: "p256-0", Form: "pem-file", Path: rapid.SampledFrom(pemPaths).Draw(t, "min-path"), Password: rapid.SampledFrom(passwords).Draw(t, "min-pw")},
			}
			if rapid.Bool().Draw(t, "min-ascii-prefix") {
				l.Prefix = fmt.Sprintf("%c%d", rune('a'+i), i)
			}
			if rapid.IntRange(0, 2).Draw(t, "min-eku") == 0 {
				l.EKUs = []string{"ServerAuth"}
			}
			if rapid.IntRange(0, 2).Draw(t, "min-mmd") == 0 {
				l.MaxDelay, l.ExpDelay = int32(rapid.IntRange(1, 100).Draw(t, "min-mmd-v")), 1
			}
		}
	}},
	{name: "toggle-readonly", targets: allLogs, apply: func(t *rapid.T, c *ValCase, i int) { c.Logs[i].Readonly = !c.Logs[i].Readonly }},
	{name: "odd-reject-extensions", targets: allLogs, apply: func(t *rapid.T, c *ValCase, i int) {
		// not a rule of the statement (checked at set-up time only)
		c.Logs[i].RejExt = []string{rapid.SampledFrom([]string{"", "1..2", "not.an.oid", "1.2.3"}).Draw(t, "odd-rejext")}
	}},
}

// ---- invalidating edits: one entry (or a small family) per rule of the statement -----------------

func nonMirror(c *ValCase) []int { return logsWhere(c, func(l *RawLog) bool { return !l.Mirror }) }
func mirrors(c *ValCase) []int   { return logsWhere(c, func(l *RawLog) bool { return l.Mirror }) }
func frozen(c *ValCase) []int    { return logsWhere(c, func(l *RawLog) bool { return l.STH != nil }) }

// genuine frozen logs with their public key in place: the STH rules can be exercised in isolation
func frozenIntact(c *ValCase) []int {
	return logsWhere(c, func(l *RawLog) bool {
		return l.STH != nil && l.STH.Mut == "" && l.STH.RootLen == 32 && l.Pub != nil && l.Pub.Mut == ""
	})
}

func sthMut(name, mut string) entry {
	return entry{name: name, scope: "log", targets: frozenIntact, apply: func(t *rapid.T, c *ValCase, i int) {
		s := c.Logs[i].STH
		s.Mut = mut
		s.Arg = rapid.IntRange(0, 4095).Draw(t, "sth-arg")
		if mut == "wrong-key" {
			s.OtherKey = otherKeyOfKind(t, s.SignKey, "sth-otherkey")
		}
	}}
}

func connEdit(name string, pool []string) entry {
	return entry{name: name, scope: "log", targets: allLogs, apply: func(t *rapid.T, c *ValCase, i int) {
		c.Logs[i].CTFEStore = true
		c.Logs[i].Conn = rapid.SampledFrom(pool).Draw(t, "bad-conn")
	}}
}

func mirrorPriv(name, form string) entry {
	return entry{name: name, scope: "log", targets: mirrors, apply: func(t *rapid.T, c *ValCase, i int) {
		pool := "p256-0"
		if c.Logs[i].Pub != nil {
			pool = c.Logs[i].Pub.Pool
		}
		c.Logs[i].Priv = &RawPriv{Pool: pool, Form: form}
		if form == "pem-file" {
			c.Logs[i].Priv.Path = rapid.SampledFrom(pemPaths).Draw(t, "mirror-pem")
		}
	}}
}

func privEdit(name, form string) entry {
	return entry{name: name, scope: "log", targets: nonMirror, apply: func(t *rapid.T, c *ValCase, i int) {
		if c.Logs[i].Priv == nil {
			c.Logs[i].Priv = &RawPriv{Pool: "p256-0"}
		}
		c.Logs[i].Priv.Form = form
	}}
}

var invalidCatalogue = []entry{
	// --- per-log rules
	{name: "log-id-zero", scope: "log", targets: allLogs, apply: func(t *rapid.T, c *ValCase, i int) { c.Logs[i].ID = 0 }},
	{name: "privkey-missing", scope: "log", targets: nonMirror, apply: func(t *rapid.T, c *ValCase, i int) { c.Logs[i].Priv = nil }},
	privEdit("privkey-unknown-type", "unknown-type"),
	privEdit("privkey-undecodable", "bad-value"),
	privEdit("privkey-empty-any", "empty-any"),
	// "mirror: public key only" - a private_key field of ANY shape is superfluous on a mirror
	mirrorPriv("privkey-on-mirror", "der"),
	mirrorPriv("privkey-file-on-mirror", "pem-file"),
	mirrorPriv("privkey-empty-any-on-mirror", "empty-any"),
	mirrorPriv("privkey-unknown-type-on-mirror", "unknown-type"),
	mirrorPriv("privkey-undecodable-on-mirror", "bad-value"),
	{name: "pubkey-missing-mirror", scope: "log", targets: mirrors, apply: func(t *rapid.T, c *ValCase, i int) { c.Logs[i].Pub = nil }},
	{name: "pubkey-unparsable", scope: "log", targets: allLogs, apply: func(t *rapid.T, c *ValCase, i int) {
		l := &c.Logs[i]
		pool := "p256-0"
		if l.Pub != nil {
			pool = l.Pub.Pool
		}
		p := &RawPub{Pool: pool, Mut: rapid.SampledFrom([]string{"empty", "truncated", "garbage"}).Draw(t, "pub-mut")}
		switch p.Mut {
		case "truncated":
			p.Arg = rapid.IntRange(0, 4095).Draw(t, "pub-cut")
		case "garbage":
			p.Junk = rapid.SliceOfN(rapid.Byte(), 1, 30).Draw(t, "pub-junk") // shorter than any SubjectPublicKeyInfo
		}
		l.Pub = p
	}},
	{name: "frozen-sth-without-pubkey", scope: "log", targets: func(c *ValCase) []int {
		// a frozen log loses its key, or a key-less regular log gains a (genuine) frozen STH
		return logsWhere(c, func(l *RawLog) bool { return l.STH != nil || (!l.Mirror && l.Pub == nil) })
	}, apply: func(t *rapid.T, c *ValCase, i int) {
		l := &c.Logs[i]
		if l.STH == nil {
			k := drawKey(t, sthKeyKinds, "sth-key")
			l.STH = &RawSTH{Size: rapid.Int64Range(0, 1000).Draw(t, "sth-size"), TS: rapid.Int64Range(0, 4102444800000).Draw(t, "sth-ts"), Root: drawRoot(t, "sth-root"), RootLen: 32, SignKey: k}
		}
		l.Pub = nil
	}},
	sthMut("frozen-sth-signature-bit", "sig-bit"),
	sthMut("frozen-sth-wrong-key", "wrong-key"),
	sthMut("frozen-sth-other-size", "size"),
	sthMut("frozen-sth-other-timestamp", "ts"),
	sthMut("frozen-sth-other-root", "root"),
	sthMut("frozen-sth-trailing-bytes", "trailing"),
	sthMut("frozen-sth-truncated-signature", "truncated"),
	sthMut("frozen-sth-empty", "empty"),
	{name: "frozen-sth-root-length", scope: "log", targets: frozenIntact, apply: func(t *rapid.T, c *ValCase, i int) {
		c.Logs[i].STH.RootLen = rapid.SampledFrom([]int{31, 33, 0, 1, 16, 64}).Draw(t, "root-len")
	}},
	{name: "window-inverted", scope: "log", targets: allLogs, apply: func(t *rapid.T, c *ValCase, i int) {
		lo, hi := drawWindow(t, "inv")              // includes inversions inside one second and across adjacent seconds
		c.Logs[i].Start, c.Logs[i].Limit = &hi, &lo // start strictly after limit
	}},
	{name: "window-start-invalid", scope: "log", targets: allLogs, apply: func(t *rapid.T, c *ValCase, i int) {
		ts := drawInvalidTS(t, "bad-start")
		c.Logs[i].Start = &ts
	}},
	{name: "window-limit-invalid", scope: "log", targets: allLogs, apply: func(t *rapid.T, c *ValCase, i int) {
		ts := drawInvalidTS(t, "bad-limit")
		c.Logs[i].Limit = &ts
	}},
	{name: "delay-max-negative", scope: "log", targets: allLogs, apply: func(t *rapid.T, c *ValCase, i int) {
		c.Logs[i].MaxDelay = rapid.OneOf(rapid.Int32Range(-10, -1), rapid.Int32Range(-2147483648, -1)).Draw(t, "neg-mmd")
		c.Logs[i].ExpDelay = rapid.SampledFrom([]int32{0, c.Logs[i].MaxDelay, c.Logs[i].MaxDelay / 2}).Draw(t, "neg-mmd-emd")
	}},
	{name: "delay-expected-negative", scope: "log", targets: allLogs, apply: func(t *rapid.T, c *ValCase, i int) {
		c.Logs[i].ExpDelay = rapid.OneOf(rapid.Int32Range(-10, -1), rapid.Int32Range(-2147483648, -1)).Draw(t, "neg-emd")
		if c.Logs[i].MaxDelay < 0 {
			c.Logs[i].MaxDelay = 0
		}
	}},
	{name: "delay-expected-above-max", scope: "log", targets: allLogs, apply: func(t *rapid.T, c *ValCase, i int) {
		m := rapid.OneOf(rapid.Int32Range(0, 10), rapid.Int32Range(0, 2147483646)).Draw(t, "inv-mmd")
		c.Logs[i].MaxDelay = m
		c.Logs[i].ExpDelay = rapid.OneOf(rapid.Just(m+1), rapid.Int32Range(m+1, 2147483647)).Draw(t, "inv-emd")
	}},
	{name: "reject-everything", scope: "log", targets: allLogs, apply: func(t *rapid.T, c *ValCase, i int) {
		c.Logs[i].RejExp, c.Logs[i].RejUnexp = true, true
	}},
	{name: "eku-unknown", scope: "log", targets: allLogs, apply: func(t *rapid.T, c *ValCase, i int) {
		l := &c.Logs[i]
		// never after an "Any": the list is by design not read beyond it ("don't care")
		pos := rapid.IntRange(0, firstAny(l.EKUs)).Draw(t, "bad-eku-pos")
		l.EKUs = insertAt(l.EKUs, pos, rapid.SampledFrom(unknownEKUs).Draw(t, "bad-eku"))
	}},
	{name: "eku-unknown-before-any", scope: "log", targets: allLogs, apply: func(t *rapid.T, c *ValCase, i int) {
		// an unknown name is not excused by an "Any" that FOLLOWS it: make sure one does (the list may
		// already hold one; otherwise it is added somewhere behind the unknown name)
		l := &c.Logs[i]
		pos := rapid.IntRange(0, firstAny(l.EKUs)).Draw(t, "bad-eku-pos")
		l.EKUs = insertAt(l.EKUs, pos, rapid.SampledFrom(unknownEKUs).Draw(t, "bad-eku"))
		if firstAny(l.EKUs) == len(l.EKUs) {
			l.EKUs = insertAt(l.EKUs, rapid.IntRange(pos+1, len(l.EKUs)).Draw(t, "any-after-pos"), "Any")
		}
	}},
	{name: "conn-empty", scope: "log", targets: allLogs, apply: func(t *rapid.T, c *ValCase, i int) {
		c.Logs[i].CTFEStore, c.Logs[i].Conn = true, ""
	}},
	connEdit("conn-unsupported-scheme", connBadScheme),
	connEdit("conn-no-separator-mysql", connNoSepMySQL),
	connEdit("conn-no-separator-postgres", connNoSepPostgres),
	connEdit("conn-unparsable-dsn", connBadDSN),
	{name: "log-all-absent", scope: "log", targets: allLogs, apply: func(t *rapid.T, c *ValCase, i int) { c.Logs[i] = RawLog{} }},

	// --- rules over the set of logs
	// (first of the structural entries: rapid's SampledFrom favours the head of a list, and this entry
	// has the largest space of shapes to cover)
	{name: "tree-id-duplicate-pattern", scope: "set", targets: whole(func(c *ValCase) bool { return len(c.Logs) >= 2 }), apply: func(t *rapid.T, c *ValCase, _ int) {
		// 2-5 logs at arbitrary positions share one tree id; their backends are drawn freely, then one
		// pair is forced onto the same backend (any position pattern: A A, A B A, A B B A, B A C A ...)
		m := min(rapid.SampledFrom([]int{2, 3, 3, 3, 4, 4, 5}).Draw(t, "dup-m"), len(c.Logs))
		pos := append([]int(nil), rapid.Permutation(allLogs(c)).Draw(t, "dup-pos")[:m]...)
		sort.Ints(pos)
		x := c.Logs[pos[0]].ID
		if c.Multi && len(c.Backends) > 0 {
			names := backendNames(c.Backends)
			shape := rapid.SampledFrom([]string{"random", "alternate", "alternate", "ends"}).Draw(t, "dup-shape")
			if len(names) < 2 || m < 3 {
				shape = "random"
			}
			switch shape {
			case "random":
				for _, p := range pos {
					c.Logs[p].Backend = rapid.SampledFrom(names).Draw(t, "dup-backend")
				}
				a := rapid.IntRange(0, m-2).Draw(t, "dup-a")
				b := rapid.IntRange(a+1, m-1).Draw(t, "dup-b")
				c.Logs[pos[b]].Backend = c.Logs[pos[a]].Backend
			case "alternate": // A B A B ...: the repeated pair is never adjacent among the sharers
				ab := rapid.Permutation(names).Draw(t, "dup-ab")
				for k, p := range pos {
					c.Logs[p].Backend = ab[k%2]
				}
			case "ends": // A x .. x A with every x != A
				ab := rapid.Permutation(names).Draw(t, "dup-ab")
				for k, p := range pos {
					if k == 0 || k == m-1 {
						c.Logs[p].Backend = ab[0]
					} else {
						c.Logs[p].Backend = rapid.SampledFrom(ab[1:]).Draw(t, "dup-mid")
					}
				}
			}
		}
		for _, p := range pos {
			c.Logs[p].ID = x
		}
	}},
	{name: "prefix-empty", scope: "set", targets: allLogs, apply: func(t *rapid.T, c *ValCase, i int) { c.Logs[i].Prefix = "" }},
	{name: "prefix-duplicate", scope: "set", targets: func(c *ValCase) []int {
		if len(c.Logs) < 2 {
			return nil
		}
		return allLogs(c)
	}, apply: func(t *rapid.T, c *ValCase, i int) {
		j := (i + rapid.IntRange(1, len(c.Logs)-1).Draw(t, "prefix-donor")) % len(c.Logs)
		c.Logs[i].Prefix = c.Logs[j].Prefix
	}},
	{name: "tree-id-duplicate", scope: "set", targets: func(c *ValCase) []int {
		if len(c.Logs) < 2 {
			return nil
		}
		return allLogs(c)
	}, apply: func(t *rapid.T, c *ValCase, i int) {
		j := (i + rapid.IntRange(1, len(c.Logs)-1).Draw(t, "id-donor")) % len(c.Logs)
		c.Logs[i].ID = c.Logs[j].ID
		c.Logs[i].Backend = c.Logs[j].Backend // same backend: the per-backend rule
	}},

	// --- rules of the backend set
	{name: "backend-name-empty", scope: "backend", targets: allBackends, apply: func(t *rapid.T, c *ValCase, i int) { c.Backends[i].Name = "" }},
	{name: "backend-spec-empty", scope: "backend", targets: allBackends, apply: func(t *rapid.T, c *ValCase, i int) { c.Backends[i].Spec = "" }},
	{name: "backend-all-absent", scope: "backend", targets: allBackends, apply: func(t *rapid.T, c *ValCase, i int) { c.Backends[i] = RawBackend{} }},
	{name: "backend-name-duplicate", scope: "backend", targets: func(c *ValCase) []int {
		if len(c.Backends) < 2 {
			return nil
		}
		return allBackends(c)
	}, apply: func(t *rapid.T, c *ValCase, i int) {
		j := (i + rapid.IntRange(1, len(c.Backends)-1).Draw(t, "bename-donor")) % len(c.Backends)
		c.Backends[i].Name = c.Backends[j].Name
	}},
	{name: "backend-spec-duplicate", scope: "backend", targets: func(c *ValCase) []int {
		if len(c.Backends) < 2 {
			return nil
		}
		return allBackends(c)
	}, apply: func(t *rapid.T, c *ValCase, i int) {
		j := (i + rapid.IntRange(1, len(c.Backends)-1).Draw(t, "bespec-donor")) % len(c.Backends)
		c.Backends[i].Spec = c.Backends[j].Spec
	}},

	// --- rules tying logs to backends
	{name: "backend-reference-dangling", scope: "multi", targets: func(c *ValCase) []int {
		if !c.Multi {
			return nil
		}
		return allLogs(c)
	}, apply: func(t *rapid.T, c *ValCase, i int) {
		c.Logs[i].Backend = rapid.SampledFrom([]string{"", "nowhere", "BE0", "be0 ", "default"}).Draw(t, "dangling-name")
	}},
	// A reference to no defined backend at a chosen position: one log alone (first, middle, last) or a
	// run of 2..n consecutive logs that starts at that position (so leading runs, inner runs and "every
	// log" all occur), all carrying the same undefined name - the empty / absent name half of the time.
	// Drawn by genVal on its own (see "undef-ref" there) so that it is the only defect of the case.
	{name: "backend-reference-undefined-run", scope: "multi", targets: func(c *ValCase) []int {
		if !c.Multi {
			return nil
		}
		return allLogs(c)
	}, apply: func(t *rapid.T, c *ValCase, i int) {
		defined := map[string]bool{}
		for _, b := range c.Backends {
			defined[b.Name] = true
		}
		cands := []string{"", "", "", ""}
		for _, n := range []string{" ", "nowhere", "default", "BE0", "0"} {
			if !defined[n] {
				cands = append(cands, n)
			}
		}
		for _, b := range c.Backends { // near misses of defined names
			for _, n := range []string{b.Name + " ", " " + b.Name, b.Name + "x", b.Spec} {
				if !defined[n] {
					cands = append(cands, n)
				}
			}
		}
		name := rapid.SampledFrom(cands).Draw(t, "undefined-name")
		run := 1
		if rest := len(c.Logs) - i; rest > 1 && rapid.Bool().Draw(t, "undefined-is-run") {
			run = rapid.IntRange(2, rest).Draw(t, "undefined-run-len")
		}
		for k := i; k < i+run; k++ {
			c.Logs[k].Backend = name
		}
	}},
	{name: "backends-absent", scope: "multi", targets: whole(func(c *ValCase) bool { return c.Multi && len(c.Logs) > 0 && !c.LogsAbsent }), apply: func(t *rapid.T, c *ValCase, _ int) {
		c.Backends, c.BackendsAbsent = nil, true
	}},
	{name: "backends-empty", scope: "multi", targets: whole(func(c *ValCase) bool { return c.Multi && len(c.Logs) > 0 && !c.LogsAbsent }), apply: func(t *rapid.T, c *ValCase, _ int) {
		c.Backends, c.BackendsAbsent = nil, false
	}},
	// Whether a multi-config without any log is well-formed is not said by the statement: "dontcare"
	// for acceptance, but it must not panic.
	{name: "log-configs-absent", scope: "multi", verdict: "dontcare", targets: whole(func(c *ValCase) bool { return c.Multi }), apply: func(t *rapid.T, c *ValCase, _ int) {
		c.Logs, c.LogsAbsent = nil, true
	}},
	{name: "log-configs-empty", scope: "multi", verdict: "dontcare", targets: whole(func(c *ValCase) bool { return c.Multi }), apply: func(t *rapid.T, c *ValCase, _ int) {
		c.Logs, c.LogsAbsent = nil, false
	}},
	{name: "multi-config-all-absent", scope: "multi", verdict: "dontcare", targets: whole(func(c *ValCase) bool { return c.Multi }), apply: func(t *rapid.T, c *ValCase, _ int) {
		c.Logs, c.LogsAbsent, c.Backends, c.BackendsAbsent = nil, true, nil, true
	}},
}

func structural(e *entry) bool { return e.scope != "log" }

// applyFrom draws one applicable entry of cat (filtered by keep) and applies it. Reports false when
// nothing is applicable.
func applyFrom(t *rapid.T, c *ValCase, cat []entry, keep func(*entry) bool, label string) bool {
	var names []string
	byName := map[string]*entry{}
	for k := range cat {
		e := &cat[k]
		if keep != nil && !keep(e) {
			continue
		}
		if len(e.targets(c)) > 0 {
			names = append(names, e.name)
			byName[e.name] = e
		}
	}
	if len(names) == 0 {
		return false
	}
	e := byName[rapid.SampledFrom(names).Draw(t, label)]
	i := rapid.SampledFrom(e.targets(c)).Draw(t, label+"-target")
	e.apply(t, c, i)
	verdict := e.verdict
	if verdict == "" {
		if e.scope == "" {
			verdict = "valid"
		} else {
			verdict = "invalid"
		}
	}
	c.record(e.name, verdict, e.scope, i)
	return true
}

// genVal: a well-formed configuration, validity-preserving edits, then 0-2 invalidating ones.
// Order matters for the soundness of the labels: structural (set / backend / multi) invalidations are
// applied before per-log ones so that no per-log defect is ever copied into a log the oracle believes
// to be individually well-formed, and validity-preserving edits are applied to a still well-formed
// configuration.
func genVal(t *rapid.T) ValCase {
	var c ValCase
	c.Multi = rapid.Bool().Draw(t, "multi")
	c.Multiline = rapid.Bool().Draw(t, "multiline")
	var names []string
	if c.Multi {
		c.Backends = drawBackends(t)
		names = backendNames(c.Backends)
	}
	n := rapid.IntRange(1, 6).Draw(t, "nlogs")
	for i := 0; i < n; i++ {
		c.Logs = append(c.Logs, drawLog(t, i, names, false))
	}
	nv := rapid.SampledFrom([]int{0, 0, 1, 1, 2, 3, 5}).Draw(t, "nvalid")
	for k := 0; k < nv; k++ {
		applyFrom(t, &c, validCatalogue, func(e *entry) bool {
			// reorders first only (later edits record indices)
			return k == 0 || e.name != "reorder-logs"
		}, "valid-edit")
	}
	c.Verbosity = rapid.SampledFrom([]int{0, 0, 0, 1, 1, 2, 3}).Draw(t, "klog-v")
	// (a value in the middle of the range: rapid favours the ends)
	bulkDraw := rapid.IntRange(0, 59).Draw(t, "bulk")
	if bulkDraw == 17 || bulkDraw == 23 || (harness.Thorough() && bulkDraw == 41) {
		targets := []int{1 << 16, 1 << 20, 1 << 20, 1 << 20}
		if harness.Thorough() {
			targets = append(targets, 1<<22, 1<<24)
		}
		c.Bulk = &Bulk{
			Log:    rapid.IntRange(0, len(c.Logs)-1).Draw(t, "bulk-log"),
			Mode:   rapid.SampledFrom([]string{"file", "entry", "entry"}).Draw(t, "bulk-mode"),
			Target: rapid.SampledFrom(targets).Draw(t, "bulk-target"),
			Delta:  rapid.SampledFrom([]int{0, 0, 0, 1, -1, 2, -2, 100, -100, 5000}).Draw(t, "bulk-delta"),
		}
		c.record("bulk-padding", "valid", "", c.Bulk.Log)
	}
	// Own generator entry: about one multi-config in twelve gets an undefined backend reference (alone
	// or as a run, at any position, half of them starting at the first log) as its ONLY defect.
	// (a value in the middle of the range: rapid favours the ends)
	if c.Multi {
		if d := rapid.IntRange(0, 23).Draw(t, "undef-ref"); d == 7 || d == 13 {
			c.Twin = c.snapshot()
			only := func(e *entry) bool { return e.name == "backend-reference-undefined-run" }
			if rapid.Bool().Draw(t, "undef-ref-leading") {
				for k := range invalidCatalogue {
					if e := &invalidCatalogue[k]; only(e) {
						e.apply(t, &c, 0)
						c.record(e.name, "invalid", e.scope, 0)
					}
				}
			} else {
				applyFrom(t, &c, invalidCatalogue, only, "invalid-edit")
			}
			return c
		}
	}
	ni := rapid.SampledFrom([]int{0, 0, 0, 0, 1, 1, 1, 1, 2, 2}).Draw(t, "ninvalid")
	if ni > 0 {
		c.Twin = c.snapshot()
	}
	nstruct := 0
	for k := 0; k < ni; k++ {
		if rapid.IntRange(0, 2).Draw(t, "structural") == 0 {
			nstruct++
		}
	}
	applied := 0
	for k := 0; k < nstruct; k++ {
		if applyFrom(t, &c, invalidCatalogue, structural, "invalid-edit") {
			applied++
		}
	}
	for ; applied < ni; applied++ {
		if !applyFrom(t, &c, invalidCatalogue, func(e *entry) bool { return !structural(e) }, "invalid-edit") {
			break
		}
	}
	return c
}
