#!/bin/bash
# Sensitivity run for C15: plants each mutant of the S list in a scratch worktree of /repo (with
# proposed_fixes/C15-1.diff applied first when /repo still has defect D6, so that the known panics do
# not mask the mutant) and runs ./check C15 quick against it. usage: checks/c15/mutants.sh [name-filter]
set -u
cd /verif
FILTER=${1:-}
run() { # name file old new
  local NAME=$1 FILE=$2 OLD=$3 NEW=$4
  if [ -n "$FILTER" ] && [[ "$NAME" != *$FILTER* ]]; then return; fi
  local WT=/tmp/mut-C15-$NAME-$$
  git -C /repo worktree add -q --detach $WT HEAD || exit 3
  (cd $WT && git apply --check /verif/proposed_fixes/C15-1.diff 2>/dev/null && git apply /verif/proposed_fixes/C15-1.diff)
  python3 - "$WT/$FILE" "$OLD" "$NEW" <<'PY'
import sys
p,old,new=sys.argv[1:4]
s=open(p).read()
if old not in s:
    print("MUTANT-ERROR: pattern not found"); sys.exit(4)
open(p,'w').write(s.replace(old,new,1))
PY
  if [ $? -eq 0 ]; then
    VERIF_REPO=$WT VERIF_SHRINKTIME=2s timeout 900 ./check C15 quick > /tmp/mut-C15-$NAME.log 2>&1
    local rc=$?
    echo "MUTANT $NAME exit=$rc $(grep -v 'rapid\]' /tmp/mut-C15-$NAME.log | grep -m1 -oE '\[[a-z][A-Za-z0-9:+/-]*\] .{0,110}' | head -1)"
  fi
  git -C /repo worktree remove --force $WT
  local TAG=$(python3 -c "import hashlib,sys;print(hashlib.sha256(sys.argv[1].encode()).hexdigest()[:10])" $WT)
  rm -rf /verif/.cache/alt/go-$TAG.* /verif/.cache/bin/*.$TAG*.test /verif/.cache/out/*.$TAG
}
C=trillian/ctfe/config.go
run logid0        $C 'if cfg.LogId == 0 {' 'if false {'
run mirror-nopub  $C '} else if cfg.IsMirror {' '} else if false {'
run pub-parse     $C 'if vCfg.PubKey, err = x509.ParsePKIXPublicKey(pubKey.Der); err != nil {' 'if vCfg.PubKey, err = x509.ParsePKIXPublicKey(pubKey.Der); err != nil && false {'
run priv-mirror   $C '} else if cfg.PrivateKey != nil {' '} else if false {'
run reject-all    $C 'if cfg.RejectExpired && cfg.RejectUnexpired {' 'if false {'
run eku-unknown   $C 'return nil, fmt.Errorf("unknown extended key usage: %s", kuStr)' 'continue'
run start-valid   $C 'if err := start.CheckValid(); err != nil {' 'if err := start.CheckValid(); err != nil && false {'
run limit-valid   $C 'if err := limit.CheckValid(); err != nil {' 'if err := limit.CheckValid(); err != nil && false {'
run window-order  $C '(*vCfg.NotAfterLimit).Before(*vCfg.NotAfterStart) {' '(*vCfg.NotAfterLimit).Before(*vCfg.NotAfterStart) && false {'
run mmd-neg       $C 'case cfg.MaxMergeDelaySec < 0:' 'case false:'
run emd-neg       $C 'case cfg.ExpectedMergeDelaySec < 0:' 'case false:'
run emd-gt-mmd    $C 'case cfg.ExpectedMergeDelaySec > cfg.MaxMergeDelaySec:' 'case false:'
run sth-verify    $C 'if err := verifier.VerifySTHSignature(*vCfg.FrozenSTH); err != nil {' 'if err := verifier.VerifySTHSignature(*vCfg.FrozenSTH); err != nil && false {'
run sth-parse     /types.go 'if len(r.SHA256RootHash) != sha256.Size {' 'if false {'
run conn-empty    $C 'if len(cfg.CtfeStorageConnectionString) == 0 {' 'if false {'
run conn-scheme   $C 'return nil, errors.New("unsupported driver in ctfe_storage_connection_string")' ''
run conn-pg       $C 'return nil, errors.New("failed to parse ctfe_storage_connection_string for postgresql pgx driver")' ''
run be-name-empty $C 'if len(be.Name) == 0 {' 'if false {'
run be-spec-empty $C 'if len(be.BackendSpec) == 0 {' 'if false {'
run be-name-dup   $C 'if _, ok := lbm[be.Name]; ok {' 'if _, ok := lbm[be.Name]; ok && false {'
run be-spec-dup   $C 'if ok := specs[be.BackendSpec]; ok {' 'if ok := specs[be.BackendSpec]; ok && false {'
run prefix-empty  $C 'if len(logCfg.Prefix) == 0 {' 'if false {'
run prefix-dup    $C 'if logNameMap[logCfg.Prefix] {' 'if false {'
run treeid-dup-single $C 'if treeIDs[logCfg.LogId] {' 'if false {'
run treeid-dup-multi  $C 'if ok := logIDMap[logIDKey]; ok {' 'if ok := logIDMap[logIDKey]; ok && false {'
run treeid-global-multi $C 'logIDKey := fmt.Sprintf("%s-%d", logCfg.LogBackendName, logCfg.LogId)' 'logIDKey := fmt.Sprintf("%d", logCfg.LogId)'
run be-dangling   $C 'if _, ok := backendMap[logCfg.LogBackendName]; !ok {' 'if _, ok := backendMap[logCfg.LogBackendName]; !ok && false {'
run frozen-nopub  $C 'return nil, errors.New("empty public key for frozen STH")' '_ = 0'
run priv-missing  $C 'return nil, errors.New("empty private key")' '_ = 0'
run priv-parse    $C 'return nil, fmt.Errorf("invalid private key: %v", err)' '_ = 0'
run conn-mysql    $C 'if _, err := mysql.ParseDSN(conn[1]); err != nil {' 'if _, err := mysql.ParseDSN(conn[1]); err != nil && false {'
run key-mismatch  trillian/ctfe/instance.go 'if !pub.Equal(signer.Public()) {' 'if false {'
run key-mismatch-all trillian/ctfe/instance.go 'if vCfg.PubKey != nil {' 'if false {'
run frozen-getter trillian/ctfe/sth.go 'return sg.sth, nil' 'c := *sg.sth; c.Timestamp++; return &c, nil'
run sth-trailing  /types.go $'} else if len(rest) > 0 {\n\t\treturn nil, fmt.Errorf("trailing data (%d bytes) after DigitallySigned", len(rest))\n\t}\n\tsth.TreeHeadSignature = ds' $'} else if len(rest) > 0 {\n\t\t_ = 0\n\t}\n\tsth.TreeHeadSignature = ds'
run d6-connstring-again $C 'if len(conn) != 2 {' 'if len(conn) != 2 && false {'
run d6-absent-backends-again $C 'range lbs.GetBackend() {' 'range lbs.Backend {'
run d6-absent-logs-again $C 'range cfg.GetLogConfigs().GetConfig() {' 'range cfg.LogConfigs.Config {'
run readonly-and  trillian/ctfe/handlers.go 'Config.IsReadonly || li.instanceOpts.Validated.Config.IsMirror {' 'Config.IsReadonly && li.instanceOpts.Validated.Config.IsMirror {'
run mirror-size+1 trillian/ctfe/sth.go 'sg.st.GetMirrorSTH(ctx, int64(currentRoot.TreeSize))' 'sg.st.GetMirrorSTH(ctx, int64(currentRoot.TreeSize)+1)'
run frozen-ignored trillian/ctfe/handlers.go 'case vCfg.FrozenSTH != nil:' 'case vCfg.FrozenSTH != nil && !cfg.IsMirror:'
run roots-optional trillian/ctfe/instance.go 'if !cfg.IsMirror && len(cfg.RootsPemFile) == 0 {' 'if false {'
