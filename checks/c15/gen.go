package c15

import (
	"fmt"
	"strings"

	"pgregory.net/rapid"

	"verif/internal/keys"
)

// ---- well-formed building blocks ---------------------------------------------------------------

var knownEKUs = []string{"Any", "ServerAuth", "ClientAuth", "CodeSigning", "EmailProtection", "IPSECEndSystem",
	"IPSECTunnel", "IPSECUser", "TimeStamping", "OCSPSigning", "MicrosoftServerGatedCrypto", "NetscapeServerGatedCrypto"}

// names that are neither in the validator's table nor known to any x509 package under another spelling
var unknownEKUs = []string{"", "any", "ANY", "serverAuth", "ServerAuth ", " ServerAuth", "Server Auth", "ServerAuth,ClientAuth",
	"1.3.6.1.5.5.7.3.1", "TLSWebServer", "Everything", "ExtKeyUsageServerAuth", "Any\n", "Äny"}

var anyKeyKinds = []string{"p256", "p256", "p384", "p521", "p224", "rsa2048", "rsa3072", "rsa1024", "ed25519"}

// kinds ct.NewSignatureVerifier takes without the non-compliance switch (RFC 6962 s2.1.4)
var sthKeyKinds = []string{"p256", "p256", "rsa2048", "rsa3072"}

func drawKey(t *rapid.T, kinds []string, label string) string {
	kind := rapid.SampledFrom(kinds).Draw(t, label+"-kind")
	n := len(keys.Kind(kind))
	return fmt.Sprintf("%s-%d", kind, rapid.IntRange(0, n-1).Draw(t, label+"-idx"))
}

// otherKeyOfKind returns a different pool key of the same kind (every kind has at least two).
func otherKeyOfKind(t *rapid.T, name, label string) string {
	kind := name[:strings.LastIndex(name, "-")]
	n := len(keys.Kind(kind))
	var cur int
	fmt.Sscanf(name[strings.LastIndex(name, "-")+1:], "%d", &cur)
	d := rapid.IntRange(1, n-1).Draw(t, label)
	return fmt.Sprintf("%s-%d", kind, (cur+d)%n)
}

const (
	tsMinSec = -62135596800 // 0001-01-01T00:00:00Z
	tsMaxSec = 253402300799 // 9999-12-31T23:59:59Z
)

func drawValidTS(t *rapid.T, label string) RawTS {
	sec := rapid.OneOf(
		rapid.Int64Range(0, 4102444800),
		rapid.Int64Range(tsMinSec, tsMaxSec),
		rapid.SampledFrom([]int64{tsMinSec, tsMaxSec, 0, -1, 1}),
	).Draw(t, label+"-sec")
	nanos := rapid.OneOf(rapid.Int32Range(0, 999999999), rapid.SampledFrom([]int32{0, 999999999})).Draw(t, label+"-ns")
	return RawTS{Sec: sec, Nanos: nanos}
}

// drawWindow returns two valid timestamps lo < hi (strictly). Besides independent bounds it draws the
// tight shapes: both within one second (differing only in nanos, down to 1 ns) and adjacent seconds
// ((s, 999999999), (s+1, 0)), where a comparison at the wrong granularity shows.
func drawWindow(t *rapid.T, label string) (lo, hi RawTS) {
	switch rapid.IntRange(0, 4).Draw(t, label+"-shape") {
	case 0, 1:
		a, b := drawValidTS(t, label+"-a"), drawValidTS(t, label+"-b")
		if tsLess(b, a) {
			a, b = b, a
		}
		if a == b {
			if b.Nanos < 999999999 {
				b.Nanos++
			} else if b.Sec < tsMaxSec {
				b.Sec++
			} else {
				a.Nanos--
			}
		}
		return a, b
	case 2: // same second
		sec := drawValidTS(t, label+"-s").Sec
		n1 := rapid.Int32Range(0, 999999998).Draw(t, label+"-n1")
		n2 := rapid.Int32Range(n1+1, 999999999).Draw(t, label+"-n2")
		return RawTS{sec, n1}, RawTS{sec, n2}
	case 3: // one nanosecond apart
		a := drawValidTS(t, label+"-s")
		if a.Nanos == 999999999 {
			a.Nanos--
		}
		return a, RawTS{a.Sec, a.Nanos + 1}
	default: // adjacent seconds, nanos ordered the other way round
		sec := rapid.Int64Range(tsMinSec, tsMaxSec-1).Draw(t, label+"-s")
		n1 := rapid.Int32Range(1, 999999999).Draw(t, label+"-n1")
		n2 := rapid.Int32Range(0, n1-1).Draw(t, label+"-n2")
		return RawTS{sec, n1}, RawTS{sec + 1, n2}
	}
}

func tsLess(a, b RawTS) bool { return a.Sec < b.Sec || (a.Sec == b.Sec && a.Nanos < b.Nanos) }

func drawInvalidTS(t *rapid.T, label string) RawTS {
	switch rapid.IntRange(0, 5).Draw(t, label+"-how") {
	case 0:
		return RawTS{Sec: rapid.Int64Range(0, 4102444800).Draw(t, label+"-sec"), Nanos: rapid.Int32Range(-1000000000, -1).Draw(t, label+"-ns")}
	case 1:
		return RawTS{Sec: rapid.Int64Range(0, 4102444800).Draw(t, label+"-sec"), Nanos: rapid.Int32Range(1000000000, 2147483647).Draw(t, label+"-ns")}
	case 2:
		return RawTS{Sec: rapid.Int64Range(tsMaxSec+1, 1<<62).Draw(t, label+"-sec")}
	case 3:
		return RawTS{Sec: rapid.Int64Range(-(1<<62), tsMinSec-1).Draw(t, label+"-sec")}
	case 4:
		return RawTS{Sec: tsMaxSec + 1}
	default:
		return RawTS{Sec: rapid.SampledFrom([]int64{-1 << 63, 1<<63 - 1, tsMinSec - 1}).Draw(t, label+"-sec")}
	}
}

var hostNames = []string{"db", "127.0.0.1", "db.internal.example", "localhost", "h-1"}
var dbNames = []string{"ctfe", "chains", "issuance_chain", "x"}
var userNames = []string{"ctfe", "root", "u_1"}
var passwords = []string{"", "zaphod", "p-w.1"}

// drawGoodConn is a well-formed connection string of one of the two supported drivers. The DSN never
// contains "://" again and is never empty (both are "don't care" regions).
func drawGoodConn(t *rapid.T, label string) string {
	user := rapid.SampledFrom(userNames).Draw(t, label+"-user")
	pw := rapid.SampledFrom(passwords).Draw(t, label+"-pw")
	host := rapid.SampledFrom(hostNames).Draw(t, label+"-host")
	port := rapid.IntRange(1, 65535).Draw(t, label+"-port")
	db := rapid.SampledFrom(dbNames).Draw(t, label+"-db")
	cred := user
	if pw != "" {
		cred += ":" + pw
	}
	switch rapid.IntRange(0, 5).Draw(t, label+"-shape") {
	case 0:
		return fmt.Sprintf("mysql://%s@tcp(%s:%d)/%s", cred, host, port, db)
	case 1:
		return fmt.Sprintf("mysql://%s@tcp(%s:%d)/%s?parseTime=true&timeout=5s", cred, host, port, db)
	case 2:
		return fmt.Sprintf("mysql://%s@unix(/var/run/mysqld/mysqld.sock)/%s", cred, db)
	case 3:
		return fmt.Sprintf("postgres://%s@%s:%d/%s", cred, host, port, db)
	case 4:
		return fmt.Sprintf("postgresql://%s@%s:%d/%s?sslmode=disable", cred, host, port, db)
	default:
		return fmt.Sprintf("postgres://%s@%s/%s?sslmode=disable&connect_timeout=10", cred, host, db)
	}
}

// connection strings that are NOT usable, by rule
var connBadScheme = []string{"sqlite://file.db", "file:///tmp/x.db", "MySQL://u@tcp(db:3306)/ctfe", "Postgres://u@db/ctfe",
	"://", "tcp(db:3306)/ctfe", "u@tcp(db:3306)/ctfe", " mysql://u@tcp(db:3306)/ctfe", "cockroach://u@db:26257/ctfe",
	"mongodb://db/ctfe", "my", "//mysql", "spanner://projects/p/instances/i/databases/d", "-", "µysql://x/y"}
var connNoSepMySQL = []string{"mysql", "mysql:", "mysql:/", "mysql:/u@tcp(db:3306)/ctfe", "mysql//u@tcp(db:3306)/ctfe",
	"mysqlu@tcp(db:3306)/ctfe", "mysql:u@tcp(db:3306)/ctfe", "mysql:/ /u@tcp(db:3306)/ctfe", "mysql/ctfe", "mysql "}
var connNoSepPostgres = []string{"postgres", "postgresql", "postgres:", "postgres:/u@db/ctfe", "postgres//u@db/ctfe",
	"postgresql:/u@db:5432/ctfe", "postgres u@db/ctfe"}
var connBadDSN = []string{"mysql://ctfe", "mysql://u@tcp(db:3306", "mysql://u@tcp(db:3306/ctfe", "mysql://u@nosuchnet/ctfe",
	"mysql://u@tcp(db:3306)/ctfe?timeout=soon", "mysql://u@tcp(db:3306)/ctfe?parseTime=perhaps", "mysql://u:p@tcp(db:3306)ctfe",
	"postgres://u@db:port/ctfe", "postgres://u@db:5432/ctfe?sslmode=sometimes", "postgres://u@db/ctfe?connect_timeout=soon",
	"postgres://%zz@db/ctfe", "postgresql://u@db:99999999/ctfe", "postgres://u@db/ctfe?target_session_attrs=whatever"}

var pemPaths = []string{"k.pem", "/etc/ctfe/log.privkey.pem", "../testdata/ct-http-server.privkey.pem", "clé.pem"}
var slashShapes = []string{"", "", "/", "/", "//"}
var prefixStems = []string{"log", "/log", "ct/log", "/a/b/", "my log", "日志", "-", "x.example/2024h1", "LOG", "l"}
var backendStems = []string{"be", "backend ", "后端", "B/", "trillian-log."}
var specStems = []string{"trillian:809", "dns:///log.example:", "10.0.0.1:9", "etcd-resolved-", "[::1]:80"}

func drawRoot(t *rapid.T, label string) []byte {
	return rapid.SliceOfN(rapid.Byte(), 32, 32).Draw(t, label)
}

// drawLog draws one well-formed log config. ids and prefixes are unique by construction (idx is
// folded in), backend is one of names (or "" in single-backend mode).
func drawLog(t *rapid.T, idx int, backendNames []string, forInstance bool) RawLog {
	p := fmt.Sprintf("l%d-", idx)
	var l RawLog
	// unique positive id: high part random, low 3 bits = idx
	l.ID = rapid.OneOf(rapid.Int64Range(1, 1000), rapid.Int64Range(1, 1<<60-1)).Draw(t, p+"id")<<3 | int64(idx)
	// unique by the embedded index; leading / trailing / doubled slashes are all legal prefix shapes
	l.Prefix = rapid.SampledFrom(slashShapes).Draw(t, p+"prefix-lead") + rapid.SampledFrom(prefixStems).Draw(t, p+"prefix") + fmt.Sprint(idx) +
		rapid.SampledFrom(slashShapes).Draw(t, p+"prefix-trail")
	if forInstance && rapid.IntRange(0, 7).Draw(t, p+"prefix-special") == 0 {
		l.Prefix = rapid.SampledFrom([]string{"/", "//", "log/", "/log/", "a/b//", "//a//b//", "log", "/log"}).Draw(t, p+"prefix-special-v")
	}
	if rapid.IntRange(0, 3).Draw(t, p+"override") == 0 {
		l.Override = rapid.SampledFrom([]string{"/", "/ct", "x"}).Draw(t, p+"override-v")
	}
	mirrorOdds := 3 // one in four
	if forInstance {
		mirrorOdds = 1 // one in two: the mirror clause needs the volume
	}
	l.Mirror = rapid.IntRange(0, mirrorOdds).Draw(t, p+"mirror") == 0
	l.Readonly = rapid.IntRange(0, 2).Draw(t, p+"readonly") == 0
	frozen := rapid.IntRange(0, 2).Draw(t, p+"frozen") == 0
	kinds := anyKeyKinds
	if frozen {
		kinds = sthKeyKinds
	}
	key := drawKey(t, kinds, p+"key")
	if !l.Mirror {
		l.Priv = &RawPriv{Pool: key, Form: "der"}
		if !forInstance && rapid.IntRange(0, 3).Draw(t, p+"pemfile") == 0 {
			l.Priv.Form, l.Priv.Path, l.Priv.Password = "pem-file", rapid.SampledFrom(pemPaths).Draw(t, p+"pempath"), rapid.SampledFrom(passwords).Draw(t, p+"pempw")
		}
	}
	if l.Mirror || frozen || rapid.Bool().Draw(t, p+"haspub") {
		l.Pub = &RawPub{Pool: key}
	}
	if frozen {
		l.STH = &RawSTH{
			Size:    rapid.OneOf(rapid.Int64Range(0, 100), rapid.Int64Range(0, 1<<62)).Draw(t, p+"sth-size"),
			TS:      rapid.OneOf(rapid.Int64Range(0, 4102444800000), rapid.Int64Range(0, 1<<62)).Draw(t, p+"sth-ts"),
			Root:    drawRoot(t, p+"sth-root"),
			RootLen: 32,
			SignKey: key,
		}
	}
	if !forInstance || rapid.Bool().Draw(t, p+"hasroots") {
		n := rapid.IntRange(0, 2).Draw(t, p+"nroots")
		for i := 0; i < n; i++ {
			l.Roots = append(l.Roots, rapid.SampledFrom([]string{"roots.pem", "/etc/ctfe/roots.pem", "../testdata/fake-ca.cert", ""}).Draw(t, p+"rootfile"))
		}
	}
	switch rapid.IntRange(0, 3).Draw(t, p+"reject") {
	case 0:
		l.RejExp = true
	case 1:
		l.RejUnexp = true
	}
	nek := rapid.IntRange(0, 3).Draw(t, p+"neku")
	for i := 0; i < nek; i++ {
		l.EKUs = append(l.EKUs, rapid.SampledFrom(knownEKUs[1:]).Draw(t, p+"eku"))
	}
	switch rapid.IntRange(0, 3).Draw(t, p+"window") {
	case 0: // both, strictly ordered (start == limit is a "don't care" input)
		a, b := drawWindow(t, p+"win")
		l.Start, l.Limit = &a, &b
	case 1:
		a := drawValidTS(t, p+"ts-a")
		l.Start = &a
	case 2:
		b := drawValidTS(t, p+"ts-b")
		l.Limit = &b
	}
	l.OnlyCA = rapid.IntRange(0, 3).Draw(t, p+"onlyca") == 0
	if len(backendNames) > 0 {
		l.Backend = rapid.SampledFrom(backendNames).Draw(t, p+"backend")
	}
	switch rapid.IntRange(0, 2).Draw(t, p+"delays") {
	case 0:
		l.MaxDelay = rapid.OneOf(rapid.Int32Range(1, 172800), rapid.Int32Range(1, 2147483647)).Draw(t, p+"mmd")
		l.ExpDelay = rapid.Int32Range(0, l.MaxDelay).Draw(t, p+"emd")
	case 1:
		l.MaxDelay = rapid.Int32Range(0, 86400).Draw(t, p+"mmd")
	}
	if rapid.IntRange(0, 3).Draw(t, p+"rejext") == 0 {
		l.RejExt = []string{rapid.SampledFrom([]string{"1.3.6.1.4.1.11129.2.4.99", "2.5.29.32", "1.2"}).Draw(t, p+"rejext-v")}
	}
	if !forInstance && rapid.IntRange(0, 2).Draw(t, p+"ctfestore") == 0 {
		l.CTFEStore = true
		l.Conn = drawGoodConn(t, p+"conn")
	}
	return l
}

func drawBackends(t *rapid.T) []RawBackend {
	n := rapid.IntRange(1, 4).Draw(t, "nbackends")
	var bs []RawBackend
	for i := 0; i < n; i++ {
		bs = append(bs, RawBackend{
			Name: rapid.SampledFrom(backendStems).Draw(t, "be-name") + fmt.Sprint(i),
			Spec: rapid.SampledFrom(specStems).Draw(t, "be-spec") + fmt.Sprint(i),
		})
	}
	return bs
}

func backendNames(bs []RawBackend) []string {
	var out []string
	for _, b := range bs {
		out = append(out, b.Name)
	}
	return out
}
