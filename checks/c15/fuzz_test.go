package c15

import (
	"encoding/json"
	"os"
	"path/filepath"
	"runtime/debug"
	"testing"

	ct "github.com/google/certificate-transparency-go"
	"github.com/google/certificate-transparency-go/trillian/ctfe"
	"github.com/google/certificate-transparency-go/trillian/ctfe/configpb"
	"google.golang.org/protobuf/encoding/prototext"
	"google.golang.org/protobuf/proto"

	"verif/internal/harness"
)

// knownSigs reads the session's known findings so that the fuzz target can keep searching behind a
// known, unrepaired panic (the rapid props get the same service from the harness).
func knownSigs() map[string]bool {
	out := map[string]bool{}
	root := os.Getenv("VERIF_ROOT")
	if root == "" {
		root = "/verif"
	}
	path := os.Getenv("VERIF_KNOWN")
	if path == "" {
		path = filepath.Join(root, "KNOWN_FINDINGS.json")
	}
	b, err := os.ReadFile(path)
	if err != nil {
		return out
	}
	var all []struct{ Property, Status, Signature string }
	if json.Unmarshal(b, &all) == nil {
		for _, k := range all {
			if k.Property == "C15" && k.Status == "known" {
				out[k.Signature] = true
			}
		}
	}
	return out
}

// FuzzConfigFile feeds arbitrary file contents to both loaders and everything they return to the
// validators. Oracle (inside the target): no panic anywhere, and the acceptance verdicts are coherent
// with "accepted <=> well-formed": a set is only well-formed if each of its logs is, a single-backend
// set that is accepted stays accepted when converted with ToMultiLogConfig, and a multi-config is only
// accepted if its backend set is.
func FuzzConfigFile(f *testing.F) {
	harness.SilenceKlog()
	known := knownSigs()
	for _, g := range []string{"trillian/integration/*.cfg", "trillian/integration/postgresql/*.cfg", "trillian/examples/deployment/docker/ctfe/*.cfg",
		"trillian/testdata/*.cfg", "testdata/*.cfg", "trillian/migrillian/testdata/*.textproto"} {
		repo := os.Getenv("VERIF_REPO")
		if repo == "" {
			repo = "/repo"
		}
		files, _ := filepath.Glob(filepath.Join(repo, g))
		for _, p := range files {
			if b, err := os.ReadFile(p); err == nil {
				f.Add(b)
			}
		}
	}
	// well-formed and broken configurations from the model, in both encodings
	seedLogs := []RawLog{
		{ID: 5, Prefix: "a", Priv: &RawPriv{Pool: "p256-0", Form: "der"}, Pub: &RawPub{Pool: "p256-0"}, EKUs: []string{"ServerAuth", "Any"}, Start: &RawTS{Sec: 1}, Limit: &RawTS{Sec: 2}, MaxDelay: 10, ExpDelay: 5, Backend: "be0",
			STH: &RawSTH{Size: 3, TS: 4, Root: make([]byte, 32), RootLen: 32, SignKey: "p256-0"}},
		{ID: 6, Prefix: "b", Mirror: true, Pub: &RawPub{Pool: "rsa2048-0"}, CTFEStore: true, Conn: "mysql://u:p@tcp(db:3306)/ctfe", Backend: "be0"},
		{ID: 7, Prefix: "c", Priv: &RawPriv{Pool: "ed25519-0", Form: "der"}, CTFEStore: true, Conn: "postgres://u@db/ctfe", Backend: "be1"},
		{ID: 8, Prefix: "d", Priv: &RawPriv{Pool: "p256-1", Form: "der"}, CTFEStore: true, Conn: "mysql", Backend: "be1"},
	}
	for _, m := range []proto.Message{
		&configpb.LogConfigSet{Config: logsOf(seedLogs[:3])},
		&configpb.LogConfigSet{Config: logsOf(seedLogs[3:])},
		&configpb.LogMultiConfig{Backends: &configpb.LogBackendSet{Backend: backendsOf([]RawBackend{{"be0", "s0"}, {"be1", "s1"}})}, LogConfigs: &configpb.LogConfigSet{Config: logsOf(seedLogs[:3])}},
		&configpb.LogMultiConfig{Backends: &configpb.LogBackendSet{Backend: backendsOf([]RawBackend{{"be0", "s0"}})}},
		&configpb.LogMultiConfig{LogConfigs: &configpb.LogConfigSet{Config: logsOf(seedLogs[1:2])}},
	} {
		if b, err := proto.Marshal(m); err == nil {
			f.Add(b)
		}
		if b, err := (prototext.MarshalOptions{Multiline: true}).Marshal(m); err == nil {
			f.Add(b)
		}
	}
	f.Add([]byte(`backends{} log_configs{config{}}`))
	f.Add([]byte(`config{log_id:1 private_key{} extra_data_issuance_chain_storage_backend:ISSUANCE_CHAIN_STORAGE_BACKEND_CTFE ctfe_storage_connection_string:"mysql"}`))

	dir := f.TempDir()
	path := filepath.Join(dir, "fuzz.cfg")
	f.Fuzz(func(t *testing.T, data []byte) {
		ct.AllowVerificationWithNonCompliantKeys = false
		if err := os.WriteFile(path, data, 0o644); err != nil {
			t.Skip()
		}
		guard := func(what string, fn func() error) (err error, ok bool) {
			defer func() {
				if p := recover(); p != nil {
					sig := panicSig(p, string(debug.Stack()))
					if known[sig] {
						ok = false
						return
					}
					t.Fatalf("[%s] %s panicked: %v\n%s", sig, what, p, debug.Stack())
				}
			}()
			return fn(), true
		}
		var cfgs []*configpb.LogConfig
		if err, ok := guard("LogConfigFromFile", func() (e error) { cfgs, e = ctfe.LogConfigFromFile(path); return }); ok && err == nil {
			if len(cfgs) == 0 {
				t.Fatalf("[loader-empty] LogConfigFromFile returned no error and no config")
			}
			each := true
			for _, c := range cfgs {
				if err, ok := guard("ValidateLogConfig", func() error { _, e := ctfe.ValidateLogConfig(c); return e }); !ok {
					return
				} else if err != nil {
					each = false
				}
			}
			setErr, ok := guard("ValidateLogConfigs", func() error { return ctfe.ValidateLogConfigs(cfgs) })
			if !ok {
				return
			}
			if setErr == nil && !each {
				t.Fatalf("[set-accepted-log-rejected] ValidateLogConfigs accepts a set one of whose logs ValidateLogConfig rejects")
			}
			clones := make([]*configpb.LogConfig, len(cfgs))
			for i, c := range cfgs {
				clones[i] = proto.Clone(c).(*configpb.LogConfig)
			}
			convErr, ok := guard("ToMultiLogConfig+ValidateLogMultiConfig", func() error {
				_, e := ctfe.ValidateLogMultiConfig(ctfe.ToMultiLogConfig(clones, "spec"))
				return e
			})
			if ok && (setErr == nil) != (convErr == nil) {
				t.Fatalf("[single-multi-disagree] ValidateLogConfigs: %v, after ToMultiLogConfig: %v", setErr, convErr)
			}
		}
		var multi *configpb.LogMultiConfig
		if err, ok := guard("MultiLogConfigFromFile", func() (e error) { multi, e = ctfe.MultiLogConfigFromFile(path); return }); ok && err == nil {
			mErr, ok := guard("ValidateLogMultiConfig", func() error { _, e := ctfe.ValidateLogMultiConfig(multi); return e })
			if !ok {
				return
			}
			if mErr == nil {
				if err, ok := guard("BuildLogBackendMap", func() error { _, e := ctfe.BuildLogBackendMap(multi.GetBackends()); return e }); ok && err != nil {
					t.Fatalf("[multi-accepted-backends-rejected] %v", err)
				}
				for _, c := range multi.GetLogConfigs().GetConfig() {
					if err, ok := guard("ValidateLogConfig", func() error { _, e := ctfe.ValidateLogConfig(c); return e }); ok && err != nil {
						t.Fatalf("[multi-accepted-log-rejected] %v", err)
					}
				}
			}
		}
	})
}
